"""C11 — windowed RMS equals the true RMS of the last N frames in every configuration.
Proof: coq/props/C11.v over coq/theories/Dsp/{Rms,Sqrt,RmsInst,RmsErr}*.v (one model over a numeric
record; exact-arithmetic theorems on Coq reals, IEEE theorems on Flocq binary32/binary64, the no_std
bit-trick square root with the magic constants read from the source by translate/sqrt_magic.py).
Tie: correspondence, std AND no_std builds: the model's executable definitions are run inside coqc on
the same histories as dasp_rms (and the dasp_signal adaptor), every observation compared bit for bit;
the property verdict (error bound E, non-negative, not NaN) is evaluated on the model run with the
SAME Coq function E that the drift theorem c11_drift_bound is about (proved end to end for the IEEE
run: Dsp/RmsDrift.v, RmsProjProofs.v, RmsDriftProofs.v, RmsOutProofs.v)."""
import json, os, re, struct, glob, sys
from concurrent.futures import ThreadPoolExecutor
import framework as F
import cov_regions_util
import floatbase

PROP = "C11"
META = dict(
    technique="Coq proof (exact-arithmetic value theorem on reals + IEEE safety theorems on Flocq floats + bit-trick sqrt bound) + coqc-evaluated model vs crate correspondence in the std and the no_std build",
    text="Machine-checked (Coq 8.16.1): a model of dasp_rms::Rms written after the source over a numeric record; on Coq reals the detector's output is exactly sqrt(mean of squares of the last N inputs, zero-padded) for every history with resets, every N >= 1 and channel count, the clamp never fires, reset restores the zero state, the signal adaptor is the detector fed frame by frame; on IEEE binary32/binary64 the output is never negative or NaN while the running sum stays finite, and (drift bound, proved by induction along the Flocq run for every history with resets and every N >= 1) the stored running sum stays within the executable error bound E of the exact sum of the squares of the last N inputs whenever no stored sum is infinite or NaN, with the corollary |out - rms| <= (1+3u) sqrt(E/N) + 3u rms + 3 sqrt(eta) for the std output (N <= 2^24); the no_std square-root bit trick (magic constants read from ops.rs) has the bit pattern of 1.0 as its magic and is within 7% of the true root. The model is tied to the crates by running it inside coqc on the same histories as the real detector, in a std and in a no_std configured build, comparing every output, the running sum and the window bit for bit, and by checking the running sum against an exact dyadic recomputation with the executable error bound E -- the same Coq function the proved drift bound is about.",
    note="Trusted: Coq kernel + stdlib real/classical axioms (allow-listed); Flocq's IEEE-754 model validated against rustc (lib/floatbase.py); the hand-written model validated only through the correspondence; translate/sqrt_magic.py; harnesses and generators. Overflow of x*x is known-finding class K4 (theorems assume it away).",
    design="6/C11")
HEADER = "From Dasp Require Import Dsp.RmsRun."
NS = [1, 2, 3, 7, 64]
FMTS = {0: "f32", 1: "f64", 2: "i16", 3: "u8"}
# 10 + ConvSpec.fmt_code: to_float_frame through the conversions generated from conv.rs
GEN_NAMES = ["i8", "i16", "I24", "i32", "I48", "i64", "u8", "u16", "U24", "u32", "U48", "u64"]
GEN_BITS = [8, 16, 24, 32, 48, 64, 8, 16, 24, 32, 48, 64]
for _c, _n in enumerate(GEN_NAMES):
    FMTS[10 + _c] = _n + "(gen)"
HARNESS_RMS_ONLY = os.path.join(F.VERIF, "harness_rms_only")


# ---------------------------------------------------------------------------
# builds


def regenerate():
    rc, out = F.sh([sys.executable, os.path.join(F.VERIF, "translate", "sqrt_magic.py")])
    return rc == 0, out


def rms_only_build(binname="c11r", timeout=1500):
    """std build whose only default-featured dasp dependencies are dasp_rms and dasp_ring_buffer (feature wiring probe)"""
    crate = HARNESS_RMS_ONLY
    env = dict(F.harness_env())
    env["CARGO_TARGET_DIR"] = os.path.join(crate, "target")
    rc, out = F.sh(["cargo", "build", "--offline", "--quiet", "--bin", binname], cwd=crate, env=env, timeout=timeout)
    path = os.path.join(crate, "target", "debug", binname)
    return rc == 0 and os.path.exists(path), out, path


def probe(path):
    """the binary's own report of which sample_sqrt it was linked with: 0 IEEE (std), 1 bit trick (no_std)"""
    rc, out, err = F.run_bin(path, ["P"])
    try:
        t = out[0].split()
        return int(t[1]) if t[0] == "6" else None
    except (IndexError, ValueError):
        return None


def regenerate_conversions():
    """the conversions / companion table the integer formats' to_float_frame goes through (same helper as C03)"""
    try:
        from props import c03
        err, changed = c03.regenerate()
        return err
    except Exception as e:   # translator crash = model cannot be regenerated
        return f"{type(e).__name__}: {e}"


def nostd_build(binname="c11n", timeout=1500):
    """the no_std-configured harness crate has its own target dir (F.harness_build assumes harness/target)"""
    crate = F.HARNESS_NOSTD
    env = dict(F.harness_env())
    env["CARGO_TARGET_DIR"] = os.path.join(crate, "target")
    rc, out = F.sh(["cargo", "build", "--offline", "--quiet", "--bin", binname], cwd=crate, env=env, timeout=timeout)
    path = os.path.join(crate, "target", "debug", binname)
    return rc == 0 and os.path.exists(path), out, path


# ---------------------------------------------------------------------------
# values


def f32bits(x):
    return struct.unpack("<I", struct.pack("<f", x))[0]


def f64bits(x):
    return struct.unpack("<Q", struct.pack("<d", x))[0]


def enc(fmt, x):
    """python float (or int for integer formats) -> token of the line protocol"""
    if fmt == 0:
        return f32bits(x)
    if fmt == 1:
        return f64bits(x)
    return int(x)


def rnd_unit(r):
    return (r.below(2000001) - 1000000) / 1000000.0


def sample_value(r, fmt, kind, pos, total):
    """kind: pattern name; returns a value in the input format"""
    if fmt in (2, 3):
        lo, hi = (-32768, 32767) if fmt == 2 else (0, 255)
        mid = 0 if fmt == 2 else 128
        if kind == "loudquiet":
            if pos < total // 2:
                return r.choice([lo, hi, hi - r.below(5), lo + r.below(5)])
            return mid + r.range(-2, 2)
        if kind == "const":
            return hi
        if kind == "edge":
            return r.choice([lo, hi, mid, mid + 1, mid - 1, lo + 1, hi - 1])
        return r.range(lo, hi)
    big = 2.0 ** 60 if fmt == 0 else 2.0 ** 500
    tiny = 2.0 ** -75 if fmt == 0 else 2.0 ** -538   # squares land in the subnormal range
    if kind == "loudquiet":
        if pos < total // 2:
            return r.choice([1.0, -1.0]) * r.choice([1e3, 1e4, 32768.0, 1e6, 3.7e5]) * (1 + rnd_unit(r) / 8)
        return rnd_unit(r) * r.choice([1e-3, 1e-2, 1e-4])
    if kind == "const":
        return r.choice([1.0, -1.0, 0.5, 0.1, 0.3])
    if kind == "edge":
        return r.choice([0.0, -0.0, 1.0, -1.0, tiny, -tiny, tiny * 1.5, big, -big, 1.0 - 2.0 ** -24, 2.0 ** -126 if fmt == 0 else 2.0 ** -1022,
                         5e-324 if fmt == 1 else 1.4e-45, 0.1, 1e-20, 1e10])
    if kind == "large":
        return rnd_unit(r) * r.choice([big, big / 1024, 1e15, 1e9])
    if kind == "k4":
        if r.chance(1, 4):
            return r.choice([1.0, -1.0]) * (1e20 if fmt == 0 else 1e160) * (1 + r.below(100) / 100.0)
        return rnd_unit(r)
    return rnd_unit(r)


# ---------------------------------------------------------------------------
# cases


def coq_op(o):
    k = o[0]
    if k == "n":
        return "ZNext " + F.zlist(o[1:])
    if k == "q":
        return "ZNextSq " + F.zlist(o[1:])
    return {"c": "ZCurrent", "r": "ZReset", "w": "ZWindow", "k": "ZClone"}[k]


def build(item, ops=None):
    it = dict(item)
    if ops is not None:
        it["ops"] = ops
    if it["kind"] == "R":
        n = len(it["init"])
        flat = [v for fr in it["init"] for v in fr]
        ops_txt = " , ".join(" ".join(str(t) for t in o) for o in it["ops"])
        it["line"] = f"R {it['fmt']} {it['nostd']} {it['chans']} {it['first']} {n} ; {' '.join(map(str, flat))} ; {ops_txt}"
        it["coq"] = (f"RCase {it['fmt']} {it['nostd']} {it['chans']} {it['first']} {F.zlistlist(it['init'])} "
                     "[" + "; ".join(coq_op(o) for o in it["ops"]) + "]")
        it["cost"] = 3 + sum(len(o) for o in it["ops"]) * 7 + len(it["init"]) // 8
    else:
        flat = [v for fr in it["frames"] for v in fr]
        it.setdefault("fin", 0)
        it.setdefault("cl", -1)
        it["line"] = f"A {it['fmt']} {it['nostd']} {it['chans']} {it['n']} {it['sq']} {it['k']} {it['fin']} {it['cl']} ; {' '.join(map(str, flat))}"
        it["coq"] = (f"ACase {it['fmt']} {it['nostd']} {it['chans']} {it['n']} {F.zlistlist(it['frames'])} {it['sq']} {it['k']} {it['fin']} {F.zlit(it['cl'])}")
        it["cost"] = 3 + (it["k"] + 2) * max(1, it["chans"]) * 7 + it["n"] * max(1, it["chans"])
        it["ops"] = []
    return it


def gen_history(r, fmt, chans, n, pattern, nframes, resets):
    ops = []
    reset_at = set()
    if resets:
        for _ in range(r.range(1, 2)):
            reset_at.add(r.range(1, max(1, nframes - 1)))
    for i in range(nframes):
        if i in reset_at:
            ops.append(["r"])
            if r.chance(1, 2):
                ops.append(["c"])
        fr = [enc(fmt, sample_value(r, fmt, pattern, i, nframes)) for _ in range(chans)]
        k = r.below(10)
        ops.append(["q" if k == 0 else "n"] + fr)
        if k == 1:
            ops.append(["c"])
    return ops


def gen_cases(rng, tier, nostd_ok, nostd_adaptor_ok=False):
    items = []
    quick = tier == "quick"
    n_hist = 260 if quick else 1100
    budget = 140 if quick else 600           # frames x channels per history
    patterns = ["nominal", "nominal", "loudquiet", "loudquiet", "const", "edge", "large", "nominal"]
    for k in range(n_hist):
        r = rng.fork(f"h{k}")
        fmt = r.choice([0, 0, 1, 1, 2, 3])
        chans = r.choice([1, 1, 2, 2, 3, 4])
        n = r.choice(NS)
        nostd = (k % 2) if nostd_ok else 0
        pattern = "k4" if (fmt in (0, 1) and k % 25 == 7) else r.choice(patterns)
        maxf = max(4, budget // chans)
        lo = min(maxf, n + 3)
        nframes = r.range(lo, maxf) if r.chance(3, 4) else r.range(1, lo)
        resets = r.chance(1, 3)
        ops = gen_history(r, fmt, chans, n, pattern, nframes, resets)
        rk = r.fork("clone")   # derive(Clone): the detector is replaced by its clone mid-history (a third of the histories)
        if rk.chance(1, 3):
            for _ in range(rk.range(1, 2)):
                ops.insert(rk.range(1, len(ops)), ["k"])
        first = r.below(n)
        zero = [[0] * chans for _ in range(n)]
        init = zero
        if r.chance(1, 12):   # arbitrary window handed to Rms::new (bit-exact correspondence only)
            init = [[enc(0 if fmt != 1 else 1, abs(sample_value(r, 0 if fmt != 1 else 1, "nominal", 0, 1))) for _ in range(chans)] for _ in range(n)]
        items.append(build(dict(kind="R", fmt=fmt, nostd=nostd, chans=chans, first=first, init=init, ops=ops,
                                pattern=pattern, resets=resets)))
    # malformed constructions: first >= N, empty window
    for k in range(12):
        r = rng.fork(f"bad{k}")
        fmt, chans = r.choice([0, 1, 2, 3]), r.range(1, 4)
        n = r.choice([0, 1, 2, 3])
        first = n + r.below(2)
        items.append(build(dict(kind="R", fmt=fmt, nostd=(k % 2) if nostd_ok else 0, chans=chans, first=first,
                                init=[[0] * chans for _ in range(n)], ops=[["c"]], pattern="malformed", resets=False)))
    # the doc examples and the K4 witness of DESIGN section 7
    one, mone = f64bits(1.0), f64bits(-1.0)
    items.append(build(dict(kind="R", fmt=1, nostd=0, chans=1, first=0, init=[[0]] * 4, pattern="doc", resets=True,
                            ops=[["n", one], ["n", mone], ["n", one], ["n", mone], ["c"], ["r"], ["c"]])))
    for ns in ((0, 1) if nostd_ok else (0,)):
        items.append(build(dict(kind="R", fmt=0, nostd=ns, chans=1, first=0, init=[[0]] * 2, pattern="k4", resets=False,
                                ops=[["n", f32bits(1e20)], ["n", f32bits(.5)], ["n", f32bits(.5)]])))
    # signal adaptor (std build only: dasp_signal without `std` needs a nightly compiler)
    n_ad = 60 if quick else 400
    for k in range(n_ad):
        r = rng.fork(f"a{k}")
        fmt = r.choice([0, 1, 2, 3])
        chans = r.range(1, 4)
        n = r.choice([1, 2, 3, 7])
        nfr = r.range(0, 14)
        frames = [[enc(fmt, sample_value(r, fmt, r.choice(["nominal", "loudquiet"]), i, nfr)) for _ in range(chans)] for i in range(nfr)]
        kk = nfr + r.below(4)
        rk = r.fork("clone")
        items.append(build(dict(kind="A", fmt=fmt, nostd=0, chans=chans, n=n, frames=frames, sq=int(r.below(4) == 0),
                                k=kk, cl=(rk.below(kk) if kk and rk.chance(1, 2) else -1), pattern="adaptor")))
    # all twelve integer formats, to_float_frame through the GENERATED conversions: quiet (within a few
    # hundred codes of equilibrium -- a conversion that drops low bits turns these into silence), full
    # scale, random; mono and stereo; std and no_std
    for c, name in enumerate(GEN_NAMES):
        b = GEN_BITS[c]
        signed = name[0] in "iI"
        lo, hi = (-(1 << (b - 1)), (1 << (b - 1)) - 1) if signed else (0, (1 << b) - 1)
        mid = 0 if signed else 1 << (b - 1)
        for chans in (0, 1, 2):      # 0 = the bare sample type as a mono frame (to_float_frame = to_float_sample)
            cw = max(1, chans)
            for nostd in ((0, 1) if nostd_ok else (0,)):
                r = rng.fork(f"gen{name}_{chans}_{nostd}")
                n = r.choice([1, 2, 3, 7])

                def v(kind):
                    if kind == "quiet":
                        return max(lo, min(hi, mid + r.choice([1, -1, 2, 3, 17, 100, 200, 255, -255, 256, -256, 257, r.range(-300, 300)])))
                    if kind == "full":
                        return r.choice([lo, hi, lo + 1, hi - 1, mid])
                    return r.range(lo, hi)
                ops = []
                for kind in ("quiet", "full", "quiet", "random"):
                    for _ in range(r.range(2, 3) if quick else r.range(3, 6)):
                        ops.append(["n"] + [v(kind) for _ in range(cw)])
                    ops.append(["c"])
                ops += [["w"], ["r"], ["n"] + [v("quiet") for _ in range(cw)], ["c"]]
                ops.insert(len(ops) // 2, ["k"])
                items.append(build(dict(kind="R", fmt=10 + c, nostd=nostd, chans=chans, first=r.below(n), init=[[0] * cw for _ in range(n)],
                                        ops=ops, pattern="integer_format_generated_conv", resets=True)))
    # finite source (signal::from_iter) pulled well past exhaustion: the equilibrium frames that a
    # spent source yields must keep entering the window (the RMS decays to 0 within N steps);
    # is_exhausted observed before and after every call; float and integer frames; std and no_std
    n_fin = 48 if quick else 240
    for k in range(n_fin):
        r = rng.fork(f"fin{k}")
        fmt = [0, 1, 2, 3][k % 4]
        chans = r.range(1, 4)
        n = r.choice([1, 2, 3, 7])
        nfr = r.range(0, 6) if r.chance(1, 6) else r.range(1, 6)
        frames = [[enc(fmt, sample_value(r, fmt, r.choice(["nominal", "const", "loudquiet"]), i, nfr)) for _ in range(chans)] for i in range(nfr)]
        nostd = 1 if (nostd_adaptor_ok and (k // 4) % 2 == 1) else 0
        kk = nfr + 2 * n + r.range(0, 3)
        rk = r.fork("clone")
        items.append(build(dict(kind="A", fmt=fmt, nostd=nostd, chans=chans, n=n, frames=frames, sq=int(r.below(5) == 0),
                                k=kk, fin=1, cl=(rk.below(kk) if rk.chance(1, 2) else -1), pattern="adaptor_finite_past_end")))
    # reset on a state whose running sum is EXACTLY zero while the window still holds small non-zero
    # squares: large sample, j small samples (their squares are absorbed by rounding next to the large
    # one), zeros until the large square is evicted (sum = large - large = 0), window observed, reset,
    # window observed (must be all zero), then small non-silent input, window/current observed
    for fmt in (0, 1, 2):
        for n in (2, 3, 7):
            for chans in (1, 2):
                for nostd in ((0, 1) if nostd_ok else (0,)):
                    r = rng.fork(f"stale{fmt}_{n}_{chans}_{nostd}")
                    large = {0: 1.0, 1: 1.0, 2: -32768}[fmt]
                    def small(scale=1.0):
                        if fmt == 0:
                            return r.choice([1, -1]) * scale * (5e-5 + r.below(1000) * 1e-7)
                        if fmt == 1:
                            return r.choice([1, -1]) * scale * (1e-9 + r.below(1000) * 4e-12)
                        return r.choice([1, -1]) * max(1, int(scale * r.range(2, 5)))
                    j = r.range(1, n - 1)
                    ops = [["n"] + [enc(fmt, large)] * chans]
                    ops += [["n"] + [enc(fmt, small()) for _ in range(chans)] for _ in range(j)]
                    ops += [["n"] + [enc(fmt, 0 if fmt == 2 else 0.0)] * chans for _ in range(n - j)]
                    ops += [["w"], ["r"], ["w"], ["c"]]
                    ops += [["n"] + [enc(fmt, small(r.choice([0.3, 0.5, 1.0, 2.0]))) for _ in range(chans)] for _ in range(n + 2)]
                    ops += [["w"], ["c"]]
                    items.append(build(dict(kind="R", fmt=fmt, nostd=nostd, chans=chans, first=r.below(n), init=[[0] * chans for _ in range(n)],
                                            ops=ops, pattern="reset_on_zero_sum_stale_window", resets=True)))
    # round 3 (coverage closing) -------------------------------------------------------------------
    # the bare sample type as a mono frame (chans = 0): Rms<f32, _>, Rms<f64, _>, Rms<i16, _>, Rms<u8, _>:
    # detector histories with resets and a clone, and the signal adaptor over closure and finite sources
    for fmt in (0, 1, 2, 3):
        for nostd in ((0, 1) if nostd_ok else (0,)):
            for j in range(2 if quick else 8):
                r = rng.fork(f"bare{fmt}_{nostd}_{j}")
                n = r.choice([1, 2, 3, 7])
                ops = gen_history(r, fmt, 1, n, ["loudquiet", "nominal", "edge"][(j + fmt) % 3], r.range(n + 3, 3 * n + 12), True)
                ops.insert(r.range(1, len(ops)), ["k"])
                ops.insert(r.range(1, len(ops)), ["w"])
                items.append(build(dict(kind="R", fmt=fmt, nostd=nostd, chans=0, first=r.below(n), init=[[0] for _ in range(n)],
                                        ops=ops, pattern="bare_sample_frame", resets=True)))
        for fin in (0, 1):
            r = rng.fork(f"bare_a{fmt}_{fin}")
            n = r.choice([1, 2, 3])
            nfr = r.range(2, 8)
            frames = [[enc(fmt, sample_value(r, fmt, "nominal", i, nfr))] for i in range(nfr)]
            kk = nfr + 2 * n
            items.append(build(dict(kind="A", fmt=fmt, nostd=(1 if (nostd_adaptor_ok and fmt % 2 == fin) else 0), chans=0, n=n, frames=frames,
                                    sq=int(fmt == 3), k=kk, fin=fin, cl=r.below(kk), pattern="bare_sample_frame_adaptor")))
    # window lengths beyond every length used above (a length threshold in the detector would hide there):
    # zero-initialised (verdict applies; the divisor `len as f32` is what differs) and arbitrary non-zero
    # windows (non-zero squares are evicted from the first push on; bit-exact comparison only); few pushes
    for j, n in enumerate([65, 129, 257, 1025, 4097] if quick else [65, 100, 129, 255, 257, 513, 1025, 2049, 4097, 16385]):
        for variant in (0, 1):
            r = rng.fork(f"largewin{n}_{variant}")
            fmt = (j + variant) % 2
            nostd = ((j + 1) % 2) if nostd_ok else 0
            if variant == 0:
                init = [[0] for _ in range(n)]
            else:
                init = [[enc(fmt, abs(rnd_unit(r)))] for _ in range(n)]
            ops = []
            for i in range(r.range(10, 16)):
                ops.append(["n", enc(fmt, sample_value(r, fmt, "nominal", i, 16))])
            ops.insert(r.range(2, len(ops)), ["c"])
            ops += [["r"], ["n", enc(fmt, 0.5)], ["c"]]
            items.append(build(dict(kind="R", fmt=fmt, nostd=nostd, chans=1, first=r.choice([0, n - 1, r.below(n)]), init=init,
                                    ops=ops, pattern="large_window", resets=True)))
    return items


def stale_zero_sum_reached(it, obs_line):
    """for the reset_on_zero_sum_stale_window family: at the reset the observed square_sum is all +0 while
    the observed window is not all zero (the state the family is built to reach)"""
    obs = obs_line.split(";")
    # two observations per op; find the 'w' immediately before the 'r'
    for i, o in enumerate(it["ops"]):
        if o[0] == "r" and i > 0 and it["ops"][i - 1][0] == "w":
            win = obs[2 * (i - 1)].split()[1:]
            ssum = obs[2 * (i - 1) + 1].split()[1:]
            return all(v == "0" for v in ssum) and any(v != "0" for v in win)
    return False


def nontrivial(it):
    """eviction of a non-zero square happens (more than N pushes since new/reset) AND
    (loud-then-quiet pattern OR a reset strictly inside the history)"""
    if it.get("pattern") == "adaptor_finite_past_end":
        return len(it["frames"]) > 0 and it["k"] >= len(it["frames"]) + 2 * it["n"]
    if it["kind"] != "R" or not it["init"]:
        return False
    n = len(it["init"])
    run, evict, inner_reset = 0, False, False
    for i, o in enumerate(it["ops"]):
        if o[0] in ("n", "q"):
            run += 1
            if run > n:
                evict = True
        elif o[0] == "r":
            if 0 < i < len(it["ops"]) - 1:
                inner_reset = True
            run = 0
    return evict and (it.get("pattern") == "loudquiet" or inner_reset)


# ---------------------------------------------------------------------------
# evaluation of check_code inside coqc


def eval_codes(tag, terms, costs, timeout=1700):
    d = F.ensure_dir(os.path.join(F.OUT, "cases", tag))
    for f in glob.glob(os.path.join(d, "*")):
        os.remove(f)
    if not terms:
        return [], []
    nsh = min(F.NCPU, len(terms))
    order = sorted(range(len(terms)), key=lambda i: -costs[i])
    shards = [[] for _ in range(nsh)]
    load = [0] * nsh
    for i in order:
        j = load.index(min(load))
        shards[j].append(i)
        load[j] += costs[i]
    jobs = []
    for j, idxs in enumerate(shards):
        if not idxs:
            continue
        body = [HEADER, "Require Import List ZArith NArith. Import ListNotations.", "Open Scope Z_scope.",
                "Definition the_cases := [\n" + ";\n".join(terms[i] for i in idxs) + "\n].",
                "Definition the_codes := map check_code the_cases.", "Eval vm_compute in the_codes."]
        with open(os.path.join(d, f"codes_{j}.v"), "w") as f:
            f.write("\n".join(body) + "\n")
        jobs.append((f"codes_{j}", idxs))

    def run(job):
        name, idxs = job
        rc, out = F.sh(["timeout", str(timeout), "coqc", "-noglob"] + F.COQ_FLAGS + [name + ".v"], cwd=d)
        return name, idxs, rc, out

    codes = [None] * len(terms)
    errors = []
    with ThreadPoolExecutor(max_workers=F.NCPU) as ex:
        for name, idxs, rc, out in ex.map(run, jobs):
            if rc != 0:
                errors.append((name, out[-3000:]))
                continue
            m = re.search(r"=\s*\[(.*?)\]\s*:\s*list Z", out, re.S)
            vals = [int(x) for x in re.findall(r"-?\d+", m.group(1))] if m else None
            if vals is None or len(vals) != len(idxs):
                errors.append((name, "unparsable coqc output:\n" + out[-2000:]))
                continue
            for i, v in zip(idxs, vals):
                codes[i] = v
    return codes, errors


def correspond_codes(bins, items, tag):
    """bins: {0: std binary, 1: no_std binary}. Returns (obs lines, codes, errors)."""
    outl = [None] * len(items)
    errors = []
    def which(it):
        return "nightly" if (it["nostd"] == 1 and it["kind"] == "A") else it["nostd"]
    for ns, path in bins.items():
        idx = [i for i, it in enumerate(items) if which(it) == ns]
        if not idx:
            continue
        rc, out, err = F.run_bin_parallel(path, [items[i]["line"] for i in idx])
        if rc != 0 or len(out) != len(idx):
            errors.append((f"harness{ns}", f"rc={rc} lines={len(out)}/{len(idx)} stderr={err[-1500:]}"))
            return outl, [], errors
        for i, o in zip(idx, out):
            outl[i] = o
    terms = []
    for it, o in zip(items, outl):
        try:
            terms.append(f"({it['coq']}, {F.zlistlist(F.norm_obs_line(o))})")
        except ValueError:
            errors.append(("harness", f"unparsable observation line {o[:200]!r} for {it['line'][:200]!r}"))
            return outl, [], errors
    codes, cerrs = eval_codes(tag, terms, [it["cost"] for it in items])
    return outl, codes, errors + cerrs


def load_corpus():
    d = os.path.join(F.VERIF, "corpus", PROP)
    items = []
    if os.path.isdir(d):
        for fn in sorted(os.listdir(d)):
            if fn.endswith(".json"):
                items.append(build(json.load(open(os.path.join(d, fn)))))
    return items


CASE_KEYS = ("kind", "fmt", "nostd", "chans", "first", "init", "ops", "n", "frames", "sq", "k", "fin", "cl", "pattern", "resets")


def main(rep, tier, seed):
    rng = F.Rng(seed)
    ok_gen, gen_log = regenerate()
    if not ok_gen:
        rep.violation("model_cannot_be_regenerated", {"kind": "translate/sqrt_magic.py cannot read the no_std sqrt from dasp_sample/src/ops.rs (model cannot be regenerated)",
                                                      "log": gen_log[-3000:]}, no_input=True)
    conv_err = regenerate_conversions()
    if conv_err:
        rep.violation("conversions_cannot_be_regenerated", {"kind": "translate/conv2coq.py / sampletable2coq.py cannot read dasp_sample (model of to_float_frame cannot be regenerated)",
                                                            "log": conv_err[-3000:]}, no_input=True)
    info = F.standard_proof_phase(rep, PROP, allowed_axioms=F.AX_REALS)
    ok, blog, bin_std = F.harness_build("c11")
    if not ok:
        rep.violation("harness_build", {"kind": "std harness does not build against /repo", "log": blog[-4000:]}, no_input=True)
        return finish(rep, info, [], [], [], {}, None)
    ok_n, nlog, bin_nostd = nostd_build()
    if not ok_n:
        rep.violation("harness_nostd_build", {"kind": "no_std-configured harness does not build against /repo", "log": nlog[-4000:]}, no_input=True)
    bins = {0: bin_std}
    if ok_n:
        bins[1] = bin_nostd
    ok_nn, nnlog, bin_nightly = F.nostd_build("c11")   # cargo +nightly: dasp_signal without std (adaptor)
    if ok_nn:
        bins["nightly"] = bin_nightly
    else:
        rep.notes.append("C11 note: no_std dasp_signal adaptor not exercised (cargo +nightly build of harness_nightly_nostd failed): " + nnlog[-300:].replace("\n", " "))
    # feature wiring: every binary reports which sample_sqrt it was linked with
    ok_r, rlog, bin_rms_only = rms_only_build()
    if not ok_r:
        rep.violation("harness_rms_only_build", {"kind": "harness_rms_only does not build against /repo", "log": rlog[-4000:]}, no_input=True)
    probes = {"std harness (harness/)": (bin_std, 0)}
    if ok_n:
        probes["no_std harness (harness_nostd/)"] = (bin_nostd, 1)
    if ok_nn:
        probes["no_std nightly harness (harness_nightly_nostd/)"] = (bin_nightly, 1)
    if ok_r:
        probes["std build with dasp_rms + dasp_ring_buffer as the only default-featured dasp crates (harness_rms_only/)"] = (bin_rms_only, 0)
    probe_results = {}
    for name, (path, want) in probes.items():
        got = probe(path)
        probe_results[name] = got
        if got != want:
            rep.violation("feature_wiring_" + name.split("(")[1].strip("/) ").replace("/", "_"), {
                "kind": ("feature wiring: dasp_rms/std does not reach dasp_sample/std -- a std build computes the RMS with the no_std bit-trick square root "
                         "(7% error instead of the correctly rounded root)" if want == 0 else
                         "feature wiring: a build without the std features does not use the no_std square root the model assumes"),
                "build": name, "probe": "sample_sqrt(2.0f32) == 1.5 ? 1 : 0", "expected": want, "got": got,
                "case": {"kind": "R", "fmt": 1, "nostd": want, "chans": 1, "first": 0, "init": [[0]] * 4,
                         "ops": [["n", f64bits(1.0)], ["n", f64bits(-1.0)], ["c"], ["r"], ["c"]]},
                "replay": f"echo P | {path}   (prints `6 {want}` when the wiring is right); the documented example Rms::next([1.0]), next([-1.0]) must give 0.5, 0.7071067811865476"})
    fb_n, fb_bad, fb_err = floatbase.run(rng.fork("floatbase"), 1500 if tier == "quick" else 6000)
    for name, msg in fb_err:
        rep.violation("floatbase_error", {"kind": "float base validation could not be evaluated", "where": name, "log": msg}, no_input=True)
    for c, o in fb_bad[:3]:
        rep.violation("floatbase_mismatch", {"kind": "Base/Float.v disagrees with rustc on an IEEE operation", "case": c, "implementation": o}, no_input=True)
    items = load_corpus() + gen_cases(rng, tier, ok_n, ok_nn)
    outl, codes, errors = correspond_codes(bins, items, "c11")
    for name, msg in errors:
        rep.violation("correspondence_error_" + name.replace("/", "_"), {"kind": "correspondence could not be evaluated", "where": name, "log": msg}, no_input=True)
    if errors:
        return finish(rep, info, items, [], [], {"floatbase_cases": fb_n}, None)
    # the rms-only std build must behave exactly as the std harness (already compared with the std model)
    rms_only_stats = {"cases": 0, "differences": 0}
    if ok_r and probe_results.get(next(k for k in probes if "harness_rms_only" in k)) == 0:
        sub = [i for i, it in enumerate(items) if it["kind"] == "R" and it["nostd"] == 0]
        sub = sub[:(80 if tier == "quick" else 400)] + [i for i in sub if items[i].get("pattern") in ("doc", "integer_format_generated_conv")]
        sub = sorted(set(sub))
        rc2, out2, err2 = F.run_bin_parallel(bin_rms_only, [items[i]["line"] for i in sub])
        if len(out2) != len(sub):
            rep.violation("rms_only_run", {"kind": "harness_rms_only run incomplete", "log": err2[-1500:]}, no_input=True)
        else:
            diffs = [(i, o) for i, o in zip(sub, out2) if o != outl[i]]
            rms_only_stats = {"cases": len(sub), "differences": len(diffs)}
            for i, o in diffs[:3]:
                rep.violation(f"rms_only_case{i}", {
                    "kind": "feature wiring: dasp_rms/std does not reach dasp_sample/std -- the std build with dasp_rms + dasp_ring_buffer only behaves differently from the std harness / std model",
                    "case": {k: items[i][k] for k in CASE_KEYS if k in items[i]}, "harness_line": items[i]["line"],
                    "std_harness_observations": outl[i], "rms_only_observations": o,
                    "replay": f"echo '<harness_line>' | {bin_rms_only}"})
    # round 3: the std cases once more in the release profile (optimised, no debug assertions, no overflow
    # checks); IEEE arithmetic and the panics of the detector do not depend on the profile
    std_idx = [i for i, it in enumerate(items) if it["nostd"] == 0]
    rep.extra["build_profiles"] = F.profile_phase(rep, "c11", [items[i] for i in std_idx], [outl[i] for i in std_idx], profiles=("release",))
    known = [e for e in F.known_findings(PROP) if e.get("kind") == "known" and e.get("id") == "K4"]
    mism = [i for i, c in enumerate(codes) if c & 1]
    verd = [i for i, c in enumerate(codes) if (c & 2) and not (c & 1)]
    k4 = [i for i, c in enumerate(codes) if c & 4]
    k4_fail = [i for i in verd if codes[i] & 4]
    other_fail = [i for i in verd if not codes[i] & 4]

    def describe(it, small=None):
        s = small or it
        rc, out, _ = F.run_bin(bins["nightly" if (s["nostd"] == 1 and s["kind"] == "A") else s["nostd"]], [s["line"]])
        _, model = F.coq_eval("c11", HEADER, f"run_case ({s['coq']})")
        return {"case": {k: s[k] for k in CASE_KEYS if k in s}, "harness_line": s["line"],
                "build": "no_std" if s["nostd"] else "std", "implementation_observations": out,
                "model_observations": model[-3000:], "replay": "./check.py C11 --replay <this file>"}

    def shrink(it, mask):
        if it["kind"] != "R":
            return it

        def fails(c):
            o, cs, e = correspond_codes(bins, [c], "c11_shrink")
            return (not e) and bool(cs) and bool(cs[0] & mask)
        return F.shrink_ops(it, build, fails, max_steps=24)

    for idx in mism[:3]:
        small = shrink(items[idx], 1)
        p = describe(items[idx], small)
        p["kind"] = ("model/implementation disagreement: the dasp_signal rms adaptor is not the detector fed the source frames one by one (outputs, is_exhausted, frames pulled compared with the proved model)"
                     if small["kind"] == "A" else
                     "model/implementation disagreement: dasp_rms does not compute what the proved model computes (bit-exact comparison of outputs, running sum, window)")
        p["original_case_index"] = idx
        rep.violation(f"case{idx}", p)
    for idx in other_fail[:3]:
        small = shrink(items[idx], 2)
        p = describe(items[idx], small)
        p["kind"] = ("property verdict fails on a finite, non-overflowing history: running sum outside the error bound E of the exact sum of the last N squares, "
                     "or an output negative/NaN, or (integer frames) a to_float_frame sample further than one rounding from amplitude / 2^(bits-1)")
        p["original_case_index"] = idx
        rep.violation(f"verdict{idx}", p)
    if k4_fail:
        idx = min(k4_fail, key=lambda i: len(items[i]["line"]))
        small = items[idx]
        if known:
            rep.known_finding(f"K4 x*x overflows the float companion: {len(k4_fail)} generated histories with a sample whose square is not finite "
                              f"yield inf/NaN outputs (e.g. `{small['line']}`); class listed in KNOWN_FINDINGS.json")
        else:
            p = describe(items[idx], small)
            p["kind"] = "finite input whose square overflows the float companion: outputs become inf/NaN (class K4, not listed in KNOWN_FINDINGS.json)"
            rep.violation(f"k4_{idx}", p)
    stale = [i for i, it in enumerate(items) if it.get("pattern") == "reset_on_zero_sum_stale_window"]
    dist = {"floatbase_cases": fb_n, "floatbase_mismatches": len(fb_bad), "k4_class_cases": len(k4), "k4_cases_failing_verdict": len(k4_fail),
            "reset_on_zero_sum_stale_window_cases": len(stale),
            "of_which_reach_sum_exactly_zero_with_nonzero_window": sum(1 for i in stale if stale_zero_sum_reached(items[i], outl[i])),
            "adaptor_finite_source_cases": sum(1 for it in items if it.get("pattern") == "adaptor_finite_past_end"),
            "no_std_adaptor": "exercised (cargo +nightly)" if ok_nn else "not built",
            "feature_wiring_probes": probe_results, "rms_only_std_build": rms_only_stats,
            "integer_format_generated_conv_cases": sum(1 for it in items if it.get("pattern") == "integer_format_generated_conv")}
    return finish(rep, info, items, outl, codes, dist, ok_n, bad=mism + other_fail)


def finish(rep, info, items, outl, codes, dist, nostd_ok, bad=()):
    th = info.get("theorems", [])
    hist = {"format": {}, "channels": {}, "window": {}, "build": {}, "pattern": {}, "ops": {}}
    for it in items:
        hist["format"][FMTS[it["fmt"]]] = hist["format"].get(FMTS[it["fmt"]], 0) + 1
        hist["channels"][str(it["chans"])] = hist["channels"].get(str(it["chans"]), 0) + 1
        n = len(it["init"]) if it["kind"] == "R" else it["n"]
        hist["window"][str(n)] = hist["window"].get(str(n), 0) + 1
        b = "no_std" if it["nostd"] else "std"
        hist["build"][b] = hist["build"].get(b, 0) + 1
        hist["pattern"][it.get("pattern", "?")] = hist["pattern"].get(it.get("pattern", "?"), 0) + 1
        for o in it["ops"]:
            hist["ops"][o[0]] = hist["ops"].get(o[0], 0) + 1
        if it["kind"] == "A":
            hist["ops"]["adaptor_next"] = hist["ops"].get("adaptor_next", 0) + it["k"]
    nontriv = len({it["line"] for it in items if nontrivial(it)}) if codes else 0
    dist = dict(dist)
    dist.update(hist)
    dist["frames_total"] = sum(1 for it in items for o in it["ops"] if o[0] in ("n", "q"))
    dist["no_std_harness"] = "built" if nostd_ok else ("not built" if nostd_ok is not None else "n/a")
    dist["source_regions_never_entered"] = cov_regions_util.regions_for_evidence(
        PROP, "Exclusions with reasons: lib/props/c11_cov_exclusions.json (Debug impl; the two cfg(not(std)) square roots, which the no_std harnesses execute; Sample::mul_amp = C03).")
    drift_proved = all(n in th for n in ("c11_drift_bound", "c11_drift_bound_f32", "c11_drift_bound_f64"))
    samples = [items[i]["line"][:400] for i in (0, len(items) // 2, len(items) - 1)] if items else []
    cov = {
        "obligations": max(1, len(th)), "discharged": len(th) if info.get("coq_ok") else 0,
        "checker_cmd": "translate/sqrt_magic.py; translate/conv2coq.py; translate/sampletable2coq.py; make -f Makefile.coq props/C11.vo (coqc 8.16.1, full .vo) + Print Assumptions audit",
        "trusted_base": F.TRUSTED_COMMON + [
            "axioms: Coq stdlib real-number/classical axioms only (allow-list F.AX_REALS), through Reals/Flocq/Interval",
            "Flocq 4.1 BinarySingleNaN as the meaning of f32/f64 + - * / sqrt < (validated against rustc by lib/floatbase.py in this run)",
            "translate/sqrt_magic.py (reads the magic constants and the shape of the no_std sqrt from ops.rs)",
            "modelled, not verified: frames as lists, usize as nat, Frame::map/zip_map as list map in channel order, to_float_frame conversions of i16/u8 (C02) as `s as f32 / 2^k`"],
        "theorems": th, "axioms_reported": info.get("axioms", []),
        "evaluations": len(items), "distinct_nontrivial": nontriv,
        "rule": "non-trivial = detector history with more than N pushes since new/reset (a non-zero square is evicted, the subtract-evicted path and the clamp matter) AND (loud-then-quiet pattern OR a reset strictly inside the history; this includes the family that resets at a running sum of exactly 0 over a non-zero window), or an adaptor over a non-empty finite source pulled at least 2N frames past its exhaustion",
        "samples": samples, "input_distribution": dist, "disagreements": len(bad),
        "error_bound": ("tolerance E (Dsp/RmsErr.v: e_push/e_next, the same Coq function evaluated in the verdict) is PROVED end to end for the IEEE run: "
                        "c11_drift_bound (any binary format) and its instances c11_drift_bound_f32 / c11_drift_bound_f64 on the executed models show, by induction along the "
                        "Flocq run (Bmult/Bplus/Bminus_correct + Relative.error_N_FLT, eviction tied to the oldest exact square, clamp, resets), that after every number of "
                        "operations of every history on a zero-initialised window |square_sum - exact sum of the last N squares| <= E in every channel, under the hypothesis the "
                        "verdict itself tests (every stored running sum finite); c11_output_bound_f32/_f64 carry it to the std output; c11_verdict_accepts_model_f32/_f64: the executable verdict e_verdict "
                        "accepts every such model run (so crate = model bit for bit is what carries the bound to the crate); c11_drift_step is the real-number step"
                        if drift_proved else
                        "tolerance E (Dsp/RmsErr.v, the same Coq function evaluated in the verdict) is ARGUED, NOT PROVED end to end for the IEEE run: "
                        "c11_drift_bound_partial proves that one step of the executable recurrence (e_next, including its upward rounding) bounds the error of "
                        "clamp(fl(fl(s + fl(x*x)) - fl(r))) under the standard rounding model |fl(t)-t| <= u|t| + eta of the three operations; "
                        "the induction along the Flocq run of the model (discharging those hypotheses with Bmult/Bplus/Bminus_correct) is missing"),
        "explanation": "theorems: value/reset/clamp/adaptor on exact reals for all N, channel counts, histories; non-negative and non-NaN on IEEE floats under finiteness; drift bound E of the IEEE running sum and output bound (all N, channel counts, histories with resets; f32 and f64); no_std sqrt trick; tie: the model's executable definitions run by coqc on the same histories as dasp_rms in a std and a no_std configured build, all observations bit-exact, plus the error-bound verdict against exact dyadic recomputation",
    }
    return rep.finish("proof", cov, [
        "x*x and the running sum do not overflow (class K4 otherwise): in the drift theorems this is the explicit hypothesis `sums_ok .. is_finite` (every stored running sum of the run is finite), non-vacuous by RmsExamples.drift_hyps / drift_hyps64",
        "window length N <= 2^24 for the IEEE output statements (`len as f32` is exact); the drift bound of the running sum and the exact-arithmetic theorems hold for every N >= 1",
        "the window handed to Rms::new is zero-initialised (the property's precondition); other windows are compared bit-exactly only",
        "the no_std dasp_signal adaptor is exercised through harness_nightly_nostd (cargo +nightly: feature(core_intrinsics)); the no_std detector through the stable harness_nostd"])


def replay(path):
    j = json.load(open(path))
    it = build(j["case"])
    if str(j.get("kind", "")).startswith("feature wiring"):
        ok_r, rlog, bin_r = rms_only_build()
        ok_s, _, bin_s = F.harness_build("c11")
        print("probe harness_rms_only:", probe(bin_r) if ok_r else "build failed", " probe harness:", probe(bin_s), " (0 = IEEE sqrt = std wiring intact)")
        o, codes, errs = correspond_codes({it["nostd"]: bin_r}, [it], "c11_replay")
        print("case:", it["line"])
        print("harness_rms_only:", o)
        print("check_code against the std model:", codes)
        bad = errs or not codes or codes[0] & 3 or probe(bin_r) != 0
        print("DISAGREE" if bad else "AGREE")
        return 1 if bad else 0
    ok, blog, bin_std = F.harness_build("c11")
    ok_n, nlog, bin_nostd = nostd_build()
    bins = {0: bin_std, 1: bin_nostd}
    ok_nn, _, bin_nightly = F.nostd_build("c11")
    if ok_nn:
        bins["nightly"] = bin_nightly
    rc, out, _ = F.run_bin(bins["nightly" if (it["nostd"] == 1 and it["kind"] == "A") else it["nostd"]], [it["line"]])
    _, model = F.coq_eval("c11", HEADER, f"run_case ({it['coq']})")
    print("case:", it["line"])
    print("implementation:", out)
    print("model:", model)
    o, codes, errs = correspond_codes(bins, [it], "c11_replay")
    print("check_code:", codes, "(1 = model/implementation mismatch, 2 = property verdict fails, 4 = K4 class)")
    bad = errs or not codes or codes[0] & 3
    print("DISAGREE" if bad else "AGREE")
    return 1 if bad else 0
