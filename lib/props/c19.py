"""C19 — rectifiers and envelope follower: |x| and one-pole smoothing without overshoot.
Proof: coq/props/C19.v (rectifiers on the 12 integer formats and on binary32/64; one-pole update,
between, zero time, monotone convergence, setters on the real-number instance of the model; IEEE
companion of `between`).  Tie: the model's executable definitions (Dsp/EnvelopeRun.v, evaluated by
coqc) against dasp_peak / dasp_envelope / dasp_signal::envelope on the same cases, bit for bit;
the gains (libm powf) are passed from the implementation to the model and checked against
exp(-1/n) within 4 ulp here.  On top, the property verdict (one-pole formula, between, zero time,
gain selection) is evaluated on the implementation's own observations with exact rationals."""
import json, os, math, struct
from fractions import Fraction
import framework as F
import cov_regions_util
import floatbase

PROP = "C19"
META = dict(
    technique="Coq proofs over a Num-generic model (reals for the exact clauses, Flocq IEEE for the companion) + coqc-evaluated model vs crate correspondence + exact-rational property verdict",
    text="Machine-checked (Coq 8.16.1): the three rectifiers equal |amp|, max, min about equilibrium for every sample format (12 integer formats with debug-overflow semantics, binary32/64) whenever the negated amplitude is representable; the detector update, written after Detector::next, equals d + g(env - d) with g = attack iff d > env, lies between env and d for 0 <= g <= 1, equals d for zero time, converges geometrically and monotonically for constant input, and setters change only the gain (real-number instance); the IEEE instance stays within two roundings of the interval. The same Gallina definitions are run by coqc against the real crates (14 formats x 3 rectifiers, ~300 envelope histories with rising/falling/constant segments, setters mid-run, the signal adaptor) and compared bit for bit; libm gains are data.",
    note="Trusted: Coq kernel + stdlib real axioms (allow-listed); Flocq; hand-written model validated through the correspondence; Base/Float.v validated against rustc (floatbase); libm powf treated as data (checked within 4 ulp of exp(-1/n)). Known finding K2: integer format with an input at the minimum amplitude overflows in the full-wave / negative-half-wave detector.",
    design="6/C19")
HEADER = "From Dasp Require Import Dsp.EnvelopeRun."
CHECK = "check"

FMTS = ["i8", "i16", "I24", "i32", "I48", "i64", "u8", "u16", "U24", "u32", "U48", "u64", "f32", "f64"]
BITS = [8, 16, 24, 32, 48, 64, 8, 16, 24, 32, 48, 64]
SIGNED_BITS = [8, 16, 24, 32, 48, 64, 8, 16, 32, 32, 64, 64]  # bits of Sample::Signed
ENV_FMTS = [12, 13, 1, 6, 0, 7]
TIMES = [0.0, -0.0, 0.5, 1.0, 10.0, 1e4, 3.4e7]
DETS = ["full", "pos", "neg", "rms"]
CTORS = ["named_constructor", "peak_from_rectifier", "Detector::new(Peak::from(R))"]
CTORS_RMS = ["Detector::rms", "Detector::new(Rms::new(w))", "Detector::new(Rms::new(w))"]


def is_signed(f):
    return f < 6


def imin(f):
    return -(1 << (BITS[f] - 1)) if is_signed(f) else 0


def imax(f):
    return (1 << (BITS[f] - 1)) - 1 if is_signed(f) else (1 << BITS[f]) - 1


def equil(f):
    return 0 if is_signed(f) else 1 << (BITS[f] - 1)


def f32b(x):
    return struct.unpack("<I", struct.pack("<f", x))[0]


def f64b(x):
    return struct.unpack("<Q", struct.pack("<d", x))[0]


def b2f32(b):
    return struct.unpack("<f", struct.pack("<I", b))[0]


def b2f64(b):
    return struct.unpack("<d", struct.pack("<Q", b))[0]


def to32(x):
    return b2f32(f32b(x))


# ---------------------------------------------------------------------------
# case construction


def coq_op(o):
    if o[0] == "f":
        return f"EFrame {F.zlist(o[1:])}"
    if o[0] == "x":
        return "EPull"
    if o[0] == "k":
        return "EClone"
    if o[0] == "p":
        return f"EParts {F.zlist(o[1:])}"
    return f"{'EAttack' if o[0] == 'a' else 'ERelease'} {F.zlit(o[1])}"


def build(item, ops=None):
    it = dict(item)
    if ops is not None:
        it["ops"] = ops
    if it["kind"] == "R":
        it["line"] = f"R {it['fmt']} {it['nch']} ; " + " , ".join(" ".join(map(str, o)) for o in it["ops"])
        it["coq"] = f"RCase {it['fmt']} {it['nch']} {F.zlistlist(it['ops'])}"
    else:
        it.setdefault("ctor", 0)
        head = f"E {it['fmt']} {it['nch']} {it['det']} {it['win']} {it['attack']} {it['release']} {it['mode']} {it['ctor']}"
        it["line"] = head + " ; " + " , ".join(" ".join(map(str, o)) for o in it["ops"])
        it["coq"] = (f"ECase {it['fmt']} {it['nch']} {it['det']} {it['win']} {it['attack']} {it['release']} {it['mode']} {it['ctor']} "
                     + "[" + "; ".join(coq_op(o) for o in it["ops"]) + "]")
    return it


def valid_ops(it):
    """`x` only in adaptor modes after the last `f`; `p` only as the last op"""
    if it["kind"] != "E":
        return True
    ops = it["ops"]
    last_f = max([i for i, o in enumerate(ops) if o[0] == "f"], default=-1)
    for i, o in enumerate(ops):
        if o[0] == "x" and (it["mode"] == 0 or i < last_f):
            return False
        if o[0] == "p" and i != len(ops) - 1:
            return False
    return True


def int_values(f, rng, nrand):
    lo, hi, eq, b = imin(f), imax(f), equil(f), BITS[f]
    vals = {lo, lo + 1, lo + 2, hi, hi - 1, eq, eq - 1, eq + 1, eq + 2, eq - 2}
    for k in range(0, b - 1):
        for s in (-1, 1):
            for d in (-1, 0, 1):
                v = eq + s * (1 << k) + d
                if lo <= v <= hi:
                    vals.add(v)
    out = sorted(vals)
    for _ in range(nrand):
        out.append(rng.range(lo, hi) if rng.chance(2, 3) else max(lo, min(hi, eq + rng.range(-300, 300))))
    return out


def float_values(f, rng, nrand):
    w = 32 if f == 12 else 64
    out = list(floatbase.specials(w))
    for _ in range(nrand):
        k = rng.below(3)
        if k == 0:
            out.append(rng.below(1 << w))
        else:
            x = (rng.below(2000001) - 1000000) / 1000000.0 * (1.0 if k == 1 else 1000.0)
            out.append(f32b(x) if f == 12 else f64b(x))
    return out


def gen_rect(rng, tier):
    items = []
    nrand = 120 if tier == "quick" else 4000
    for f in range(14):
        r = rng.fork(f"rect{f}")
        vals = int_values(f, r, nrand) if f < 12 else float_values(f, r, nrand)
        for nch in (0, 1, 2, 3):
            k = max(1, nch)
            # rotate so that every value meets every channel position
            vs = vals[nch:] + vals[:nch]
            frames = [vs[i:i + k] for i in range(0, len(vs) - k + 1, k)]
            for i in range(0, len(frames), 24):
                items.append(build(dict(kind="R", fmt=f, nch=nch, ops=frames[i:i + 24])))
    return items


def pick_time(r):
    k = r.below(10)
    if k < 7:
        return f32b(r.choice(TIMES))
    if k < 9:
        return f32b(to32(r.choice([0.25, 2.0, 3.0, 7.5, 44.1, 100.0, 441.0, 4410.0, 1e-3, 1e6, 1e-30, 1e-45, float('inf')])))
    return f32b(to32((r.below(100000) + 1) / 100.0))


def gen_history(r, fmt, nch_eff, nframes, k2=False):
    """frames as lists of encoded sample values; segments rising / falling / constant / random / alternating"""
    isint = fmt < 12
    if isint:
        lo, hi, eq = imin(fmt), imax(fmt), equil(fmt)
        lo_ok = lo + 1  # MIN itself is the K2 class

        def enc(x):  # x in [-1,1]
            v = eq + int(round(x * (hi - eq)))
            return max(lo_ok, min(hi, v))
    else:
        def enc(x):
            return f32b(x) if fmt == 12 else f64b(x)
    frames = []
    scale = r.choice([1.0, 1.0, 1.0, 0.5, 1e-3, 1e-20 if not isint else 0.1, 37.5 if not isint else 1.0])
    level = [r.below(2001) / 1000.0 - 1.0 for _ in range(nch_eff)]
    while len(frames) < nframes:
        seg = r.choice(["rise", "fall", "const", "rand", "alt", "const", "rise", "fall"])
        n = min(nframes - len(frames), r.range(2, 14))
        step = [r.below(200) / 1000.0 for _ in range(nch_eff)]
        for i in range(n):
            fr = []
            for c in range(nch_eff):
                if seg == "rise":
                    level[c] = min(1.0, level[c] + step[c])
                elif seg == "fall":
                    level[c] = max(-1.0, level[c] - step[c])
                elif seg == "rand":
                    level[c] = r.below(2001) / 1000.0 - 1.0
                elif seg == "alt":
                    level[c] = -level[c]
                fr.append(enc(level[c] * scale))
            frames.append(fr)
    if isint and not k2 and r.chance(1, 3):
        # boundary amplitudes other than MIN
        for _ in range(3):
            frames[r.below(len(frames))][r.below(nch_eff)] = r.choice([lo_ok, hi, eq, eq + 1, eq - 1])
    if isint and k2:
        frames[r.range(len(frames) // 2, len(frames) - 1)][r.below(nch_eff)] = imin(fmt)
    if not isint and r.chance(1, 6):
        for _ in range(2):
            frames[r.below(len(frames))][r.below(nch_eff)] = enc(r.choice([0.0, -0.0, 1.0, -1.0, 5e-324 if fmt == 13 else 1e-45, 1e-40]))
    return frames


def gen_env(rng, tier):
    items = []
    n_hist = 300 if tier == "quick" else 3000
    nfr = 60 if tier == "quick" else 80
    for k in range(n_hist):
        r = rng.fork(f"env{k}")
        fmt = ENV_FMTS[k % 4] if k % 10 != 9 else ENV_FMTS[4 + (k // 10) % 2]
        det = (k // 4) % 4 if k % 7 else r.below(4)
        nch = [1, 2, 3, 0][(k // 16) % 4] if k % 3 else r.choice([0, 1, 2, 3])
        win = r.choice([1, 2, 3, 4, 5, 8]) if det == 3 else 0
        mode = r.below(3)
        nframes = r.choice([nfr, nfr, nfr // 2, 12, 5])
        frames = gen_history(r, fmt, max(1, nch), nframes)
        ops = [["f"] + fr for fr in frames]
        nset = r.choice([0, 0, 1, 2, 4])
        for _ in range(nset):
            pos = r.range(1, len(ops))
            ops.insert(pos, [r.choice(["a", "r"]), pick_time(r)])
        if mode and r.chance(1, 3):
            ops += [["x"]] * r.range(1, 6)
        if r.chance(1, 4):
            ops.append(["p"] + gen_history(r, fmt, max(1, nch), 1)[0])
        # round 3 (coverage closing): every way of constructing the detector (named constructor,
        # peak_from_rectifier, Detector::new(Peak::from(R))) x every detector kind; derive(Clone) mid-history
        rk = r.fork("clone")
        if rk.chance(1, 3):
            last = len(ops) - (1 if ops[-1][0] == "p" else 0)
            for _ in range(rk.range(1, 2)):
                ops.insert(rk.range(1, last), ["k"])
        items.append(build(dict(kind="E", fmt=fmt, nch=nch, det=det, win=win, attack=pick_time(r), release=pick_time(r),
                                mode=mode, ctor=k % 3, ops=ops)))
    # the known class K2: integer format, some channel at the minimum amplitude
    n_k2 = 12 if tier == "quick" else 60
    for k in range(n_k2):
        r = rng.fork(f"k2_{k}")
        fmt = [1, 6, 0, 7][k % 4]
        # full wave / negative half wave are the class; positive half wave and RMS take MIN without harm
        det = [2, 0, 1, 3][(k // 4 + k) % 4] if k >= 8 else [2, 0][(k + k // 4) % 2]
        nch = r.choice([1, 2, 3])
        frames = gen_history(r, fmt, nch, r.choice([6, 12]), k2=True)
        items.append(build(dict(kind="E", fmt=fmt, nch=nch, det=det, win=3 if det == 3 else 0, attack=pick_time(r),
                                release=pick_time(r), mode=r.below(2), ctor=(k // 2) % 3, ops=[["f"] + fr for fr in frames])))
    return items


def gen_exhaust(rng, tier):
    """adaptor over a FINITE source (from_iter / from_interleaved_samples_iter) pulled well past its end:
    non-zero gains, a non-zero envelope when the source ends, is_exhausted observed at every pull, then
    into_parts() and one more frame through the returned detector; float and integer frames, four detectors"""
    items = []
    reps = 2 if tier == "quick" else 12
    k = 0
    for rep_i in range(reps):
        for fmt in (12, 13, 1, 6, 0, 7):
            for det in range(4):
                r = rng.fork(f"exh{rep_i}_{fmt}_{det}")
                k += 1
                nch = [1, 2, 3, 0][k % 4]
                ne = max(1, nch)
                mode = 1 + (k + rep_i) % 2
                frames = gen_history(r, fmt, ne, r.range(3, 14))
                # end loud (on the side the rectifier keeps) so that the envelope is far from equilibrium
                if fmt < 12:
                    eq, hi, lo = equil(fmt), imax(fmt), imin(fmt) + 1
                    loud = [(lo + r.below((eq - lo) // 2 + 1)) if det == 2 else (hi - r.below((hi - eq) // 2 + 1)) for _ in range(ne)]
                else:
                    enc = f32b if fmt == 12 else f64b
                    loud = [enc((-1.0 if det == 2 else 1.0) * (0.5 + r.below(500) / 1000.0)) for _ in range(ne)]
                frames += [list(loud)] * r.range(2, 5)
                slow = [f32b(to32(x)) for x in (4.0, 10.0, 25.0, 100.0, 1e4)]
                attack, release = r.choice(slow), r.choice(slow)
                ops = [["f"] + fr for fr in frames]
                tail = [["x"]] * r.range(8, 24)
                if r.chance(1, 2):
                    tail.insert(r.range(1, len(tail) - 1), [r.choice(["a", "r"]), r.choice(slow + [f32b(0.0)])])
                rk = r.fork("clone")
                if rk.chance(1, 2):   # clone of an adaptor whose source is already exhausted
                    tail.insert(rk.range(1, len(tail) - 1), ["k"])
                ops += tail
                ops.append(["p"] + gen_history(r, fmt, ne, 1)[0])
                items.append(build(dict(kind="E", fmt=fmt, nch=nch, det=det, win=r.choice([1, 2, 4]) if det == 3 else 0,
                                        attack=attack, release=release, mode=mode, ctor=(k + rep_i) % 3, ops=ops)))
    return items


# ---------------------------------------------------------------------------
# property verdict on the implementation's observations (exact rationals)


def fval(fmt, b):
    return b2f32(b) if fmt == 12 else b2f64(b)


def ulp(fmt, x):
    """unit in the last place of |x| in binary32 (fmt 12) / binary64"""
    p, emin = (24, -126) if fmt == 12 else (53, -1022)
    x = abs(x)
    if x == 0 or math.isinf(x) or math.isnan(x):
        e = emin
    else:
        e = max(math.frexp(x)[1] - 1, emin)
    return Fraction(2) ** (e - p + 1)


def rect_verdict(it, obs):
    """independent oracle for the rectifier clause; returns list of problems"""
    f, probs = it["fmt"], []
    k = 0
    for fr in it["ops"]:
        o_full, o_pos, o_neg = obs[k], obs[k + 1], obs[k + 2]
        k += 3
        if f < 12:
            sh = SIGNED_BITS[f] - BITS[f]
            amps = [(v - equil(f)) << sh for v in fr]
            smax = (1 << (SIGNED_BITS[f] - 1)) - 1
            representable = all(-a <= smax for a in amps)
            if representable:
                if o_full != [10] + [abs(a) for a in amps]:
                    probs.append(("full_wave", fr, o_full))
            elif o_full[0] != 8 and o_full != [10] + [abs(a) for a in amps]:
                # outside the clause's hypothesis: a panic or the exact value are both acceptable
                probs.append(("full_wave_unrepresentable", fr, o_full))
            if o_pos != [11] + [max(v, equil(f)) for v in fr]:
                probs.append(("positive_half_wave", fr, o_pos))
            if o_neg != [12] + [min(v, equil(f)) for v in fr]:
                probs.append(("negative_half_wave", fr, o_neg))
        else:
            xs = [fval(f, v) for v in fr]
            for tag, o, fn in ((10, o_full, abs), (11, o_pos, lambda x: max(x, 0.0)), (12, o_neg, lambda x: min(x, 0.0))):
                if o[0] != tag or len(o) != len(xs) + 1:
                    probs.append(("shape", fr, o))
                    continue
                for x, ob in zip(xs, o[1:]):
                    y = fval(f, ob)
                    if math.isnan(x):
                        ok = math.isnan(y)
                    else:
                        ok = (y == fn(x))
                    if not ok:
                        probs.append((f"float_rect_{tag}", fr, o))
    return probs


def env_out_fmt(it):
    """(is_float, float_fmt or int bits) of the envelope samples"""
    f, det = it["fmt"], it["det"]
    if f >= 12:
        return True, f
    if det == 3:
        return True, 12
    return False, (SIGNED_BITS[f] if det == 0 else BITS[f])


def env_verdict(it, obs, stats):
    """one-pole formula, between, zero time, gain selection, gain value; returns (problems, k2_hit, flags)"""
    probs = []
    isf, ff = env_out_fmt(it)
    nch = max(1, it["nch"])
    g0 = obs[0]
    if g0[0] != 22 or g0[1] != g0[3] or g0[2] != g0[4]:
        return [("gain_observation", g0)], None, {}
    ga, gr = b2f32(g0[1]), b2f32(g0[2])
    times = {"a": b2f32(it["attack"]), "r": b2f32(it["release"])}

    def gain_ok(t, g):
        if t == 0.0:
            return g == 0.0
        ex = math.exp(-1.0 / t)
        return abs(g - ex) <= 4 * float(ulp(12, ex)) and 0.0 <= g <= 1.0
    if not gain_ok(times["a"], ga) or not gain_ok(times["r"], gr):
        probs.append(("gain_value", times, ga, gr))
    if isf:
        last = [0.0] * nch
    else:
        eq_out = 0 if (it["det"] == 0 or is_signed(it["fmt"])) else equil(it["fmt"])
        last = [eq_out] * nch
    rising = falling = past_end = False
    k2 = None
    oi = 1
    for o in it["ops"]:
        if oi >= len(obs):
            probs.append(("missing_observation", o))
            break
        ob = obs[oi]
        oi += 1
        if o[0] == "k":
            if ob != [26]:
                probs.append(("clone_observation", ob))
                break
            continue
        if o[0] in ("a", "r"):
            if ob[0] != 22 or ob[1] != ob[3] or ob[2] != ob[4]:
                probs.append(("gain_observation", ob))
                break
            t = b2f32(o[1])
            nga, ngr = b2f32(ob[1]), b2f32(ob[2])
            if o[0] == "a":
                if ngr != gr or not gain_ok(t, nga):
                    probs.append(("set_attack", t, nga, ngr))
            else:
                if nga != ga or not gain_ok(t, ngr):
                    probs.append(("set_release", t, nga, ngr))
            ga, gr = nga, ngr
            continue
        if ob[0] == 8:
            k2 = {"frame": o[1:], "code": ob[1], "index": oi - 1}
            break
        adapt = it["mode"] != 0
        if o[0] == "p":
            # into_parts(): gains and envelope state intact, the source reports exhaustion
            if ob[0] != 25 or len(ob) != 4 + 2 * nch or b2f32(ob[1]) != ga or b2f32(ob[2]) != gr or ob[3] != (1 if adapt else 0):
                probs.append(("into_parts_observation", ob, ga, gr))
                break
            ob = [20] + ob[4:]
        elif adapt:
            # is_exhausted() before the pull: false while source frames remain, true afterwards
            if ob[0] != 24 or len(ob) != 2 + 2 * nch or ob[1] != (1 if o[0] == "x" else 0):
                probs.append(("exhaustion_flag", o[0], ob))
                break
            ob = [20] + ob[2:]
            if o[0] == "x":
                past_end = True
        if ob[0] != 20 or len(ob) != 1 + 2 * nch:
            probs.append(("frame_observation", ob))
            break
        env, det = ob[1:1 + nch], ob[1 + nch:]
        for c in range(nch):
            if isf:
                l, d, e = last[c], fval(ff, det[c]), fval(ff, env[c])
                if any(math.isnan(x) or math.isinf(x) for x in (l, d, e)):
                    stats["nonfinite"] = stats.get("nonfinite", 0) + 1
                    continue
                L, D, E = Fraction(l), Fraction(d), Fraction(e)
                tol = 2 * ulp(ff, max(abs(l), abs(d)))
            else:
                l, d, e = last[c], det[c], env[c]
                L, D, E = Fraction(l), Fraction(d), Fraction(e)
                tol = 1 + Fraction(2) ** (ff - 24)
            attack = l < d
            g = ga if attack else gr
            rising |= attack
            falling |= (l > d)
            expected = D + Fraction(g) * (L - D)
            stats["steps"] = stats.get("steps", 0) + 1
            if abs(E - expected) > tol:
                probs.append(("one_pole", dict(prev=l, detected=d, env=e, gain=g, attack=attack)))
            if not (min(L, D) - tol <= E <= max(L, D) + tol):
                probs.append(("between", dict(prev=l, detected=d, env=e, gain=g)))
            if not (min(L, D) <= E <= max(L, D)):
                if isf:
                    stats["inexact_between"] = stats.get("inexact_between", 0) + 1
                else:  # integer formats: exact `between` is a theorem (c19_int_step / c19_int_run)
                    probs.append(("between_exact_integer", dict(prev=l, detected=d, env=e, gain=g)))
            if g == 0.0 and E != D:
                probs.append(("zero_time", dict(prev=l, detected=d, env=e)))
            if g == 0.0:
                stats["zero_gain_steps"] = stats.get("zero_gain_steps", 0) + 1
        last = [fval(ff, x) for x in env] if isf else list(env)
    return probs, k2, {"rising": rising, "falling": falling, "past_end": past_end}


def k2_class(it, k2):
    """integer frame format, full-wave or negative-half-wave detector, some channel at the minimum amplitude"""
    return it["fmt"] < 12 and it["det"] in (0, 2) and k2["code"] == 1 and imin(it["fmt"]) in k2["frame"]


# ---------------------------------------------------------------------------


def has_panic(it, line):
    """a dev-profile overflow panic (K2 envelope inputs, full wave of the minimum amplitude) wraps in release"""
    return (";" + line).find(";8 ") >= 0


def nostd_phase(rep, items, outl):
    """The same cases through the crates built WITHOUT their std feature.  Excluded: the RMS detector (no_std
    sqrt is the bit-trick approximation by design; C11 owns it, the model's sqrt is IEEE).  The gain is powf
    through a core intrinsic there: a case whose observation differs is re-checked against the model with ITS
    OWN gains (data) and against the verdict; it is a violation only if that fails."""
    ok, log, path = F.nostd_build("c19")
    if not ok:
        rep.violation("nostd_build", {"kind": "no_std-configured harness does not build (cargo +nightly)", "log": log[-3000:]}, no_input=True)
        return {"nostd": "build failed"}
    idx = [i for i, it in enumerate(items) if not (it["kind"] == "E" and it["det"] == 3)]
    sub = [items[i] for i in idx]
    rc, out2, err = F.run_bin_parallel(path, [it["line"] for it in sub])
    if len(out2) != len(sub):
        rep.violation("nostd_run", {"kind": "no_std-configured harness run incomplete", "log": err[-1500:]}, no_input=True)
        return {"nostd": "run failed"}
    diff = [j for j, (i, b) in enumerate(zip(idx, out2)) if outl[i] != b]
    bad = []
    if diff:
        terms = [f"({sub[j]['coq']}, {F.zlistlist(F.norm_obs_line(out2[j]))})" for j in diff]
        badm, cerrs = F.coq_check_cases("c19_nostd", HEADER, CHECK, terms)
        for name, msg in cerrs:
            rep.violation("nostd_model_error", {"kind": "model could not be evaluated on no_std observations", "log": msg}, no_input=True)
        bad = [diff[k] for k in badm]
        for j in diff:
            it = sub[j]
            obs = F.norm_obs_line(out2[j])
            probs = rect_verdict(it, obs) if it["kind"] == "R" else env_verdict(it, obs, {})[0]
            if probs and j not in bad:
                bad.append(j)
    for j in bad[:3]:
        rep.violation(f"nostd_case{idx[j]}", {
            "kind": "the crates built without their std feature disagree with the proved model (gains taken from the no_std run itself)",
            "harness_line": sub[j]["line"], "std_observations": outl[idx[j]], "no_std_observations": out2[j],
            "replay": "echo '<harness_line>' | harness_nightly_nostd/target/debug/c19"})
    return {"nostd_cases": len(sub), "nostd_cases_differing_from_std_only_in_libm_gain": len(diff) - len(bad),
            "nostd_violations": len(bad), "excluded": "RMS detector (no_std sqrt approximation, C11)"}


def load_corpus():
    d = os.path.join(F.VERIF, "corpus", PROP)
    items = []
    if os.path.isdir(d):
        for fn in sorted(os.listdir(d)):
            if fn.endswith(".json"):
                items.append(build(json.load(open(os.path.join(d, fn)))))
    return items


CASE_KEYS = ("kind", "fmt", "nch", "det", "win", "attack", "release", "mode", "ctor", "ops")


def main(rep, tier, seed):
    rng = F.Rng(seed)
    info = F.standard_proof_phase(rep, PROP, allowed_axioms=F.AX_REALS)
    ok, blog, binpath = F.harness_build("c19")
    if not ok:
        rep.violation("harness_build", {"kind": "harness does not build against /repo", "log": blog[-4000:]}, no_input=True)
        return finish(rep, info, 0, 0, {}, [])
    fb_n, fb_bad, fb_err = floatbase.run(rng.fork("floatbase"), 600 if tier == "quick" else 4000)
    for name, msg in fb_err:
        rep.violation("floatbase_error", {"kind": "Base/Float.v validation could not be evaluated", "where": name, "log": msg}, no_input=True)
    for case, got in fb_bad[:3]:
        rep.violation("floatbase_case", {"kind": "Base/Float.v disagrees with rustc", "case": case, "rustc": got}, no_input=True)
    corpus = load_corpus()
    rect = gen_rect(rng.fork("rect"), tier)
    env = gen_env(rng.fork("env"), tier) + gen_exhaust(rng.fork("exhaust"), tier)
    # interleave cheap (rectifier) and expensive (envelope) cases so that the coqc shards are balanced
    mixed, ri, ei = [], 0, 0
    while ri < len(rect) or ei < len(env):
        if ei < len(env) and (ri >= len(rect) or ei * len(rect) <= ri * len(env)):
            mixed.append(env[ei])
            ei += 1
        else:
            mixed.append(rect[ri])
            ri += 1
    items = corpus + mixed
    outl, bad, errors = F.correspond(binpath, items, HEADER, CHECK, "c19")
    for name, msg in errors:
        rep.violation("correspondence_error_" + name.replace("/", "_"), {"kind": "correspondence could not be evaluated", "where": name, "log": msg}, no_input=True)
    known = F.known_findings(PROP)
    k2_listed = any(e.get("id") == "K2" and e.get("kind") == "known" for e in known)
    stats, hist, ctor_hist = {}, {}, {}
    nontriv, k2_hits, verdict_bad = set(), [], []
    rect_evals = 0
    if not errors:
        for idx, (it, line) in enumerate(zip(items, outl)):
            obs = F.norm_obs_line(line)
            if it["kind"] == "R":
                key = f"rect:{FMTS[it['fmt']]}"
                hist[key] = hist.get(key, 0) + 3 * len(it["ops"]) * max(1, it["nch"])
                rect_evals += 3 * len(it["ops"]) * max(1, it["nch"])
                probs = rect_verdict(it, obs)
                if probs:
                    verdict_bad.append((idx, probs))
                if 6 <= it["fmt"] < 12:
                    nontriv.add(it["line"])
                continue
            key = f"env:{FMTS[it['fmt']]}:{DETS[it['det']]}:{'adaptor' if it['mode'] else 'detector'}"
            hist[key] = hist.get(key, 0) + 1
            probs, k2, flags = env_verdict(it, obs, stats)
            if k2 is not None:
                if k2_class(it, k2):
                    k2_hits.append((idx, k2))
                else:
                    probs.append(("panic_outside_known_class", k2))
            if probs:
                verdict_bad.append((idx, probs))
            if flags.get("past_end"):
                stats["histories_past_exhaustion"] = stats.get("histories_past_exhaustion", 0) + 1
            if any(o[0] == "p" for o in it["ops"]):
                stats["histories_with_into_parts"] = stats.get("histories_with_into_parts", 0) + 1
            if any(o[0] == "k" for o in it["ops"]):
                stats["histories_with_clone"] = stats.get("histories_with_clone", 0) + 1
            ck = f"{DETS[it['det']]}:{CTORS[it.get('ctor', 0)] if it['det'] != 3 else CTORS_RMS[it.get('ctor', 0)]}"
            ctor_hist[ck] = ctor_hist.get(ck, 0) + 1
            if (flags.get("rising") and flags.get("falling")) or flags.get("past_end") or any(o[0] in ("a", "r") for o in it["ops"]) or 6 <= it["fmt"] < 12:
                nontriv.add(it["line"])
    # K2: listed -> KNOWN-FINDING line; not listed -> violation
    if k2_hits:
        idx, k2 = k2_hits[0]
        it = items[idx]
        what = (f"K2 integer frame format with an input sample at the minimum amplitude: "
                f"Detector<{FMTS[it['fmt']]} x{max(1, it['nch'])}>::{'peak' if it['det'] == 0 else 'peak_negative_half_wave'} "
                f"panics (attempt to negate with overflow) on frame {k2['frame']}; {len(k2_hits)} generated inputs of the class, all panic")
        if k2_listed:
            rep.known_finding(what)
        else:
            rep.violation("K2", {"kind": "overflow panic in the envelope detector on an input at the minimum amplitude (class K2, not listed in KNOWN_FINDINGS.json)",
                                 "case": {k: it[k] for k in CASE_KEYS if k in it}, "harness_line": it["line"], "observation": outl[idx]})
    for idx, probs in verdict_bad[:3]:
        it = items[idx]
        rep.violation(f"verdict{idx}", {"kind": "property verdict fails on the implementation's observations", "problems": probs[:5],
                                       "case": {k: it[k] for k in CASE_KEYS if k in it}, "harness_line": it["line"],
                                       "implementation_observations": outl[idx], "replay": "./check.py C19 --replay <this file>"})
    for idx in bad[:3]:
        it = items[idx]

        def fails(c):
            if not valid_ops(c):
                return False
            o, b, e = F.correspond(binpath, [c], HEADER, CHECK, "c19_shrink")
            return bool(b) and not e

        small = F.shrink_ops(it, build, fails, max_steps=40)
        rc, out, _ = F.run_bin(binpath, [small["line"]])
        obs_t = F.zlistlist(F.norm_obs_line(out[0])) if out else "[]"
        _, model = F.coq_eval("c19", HEADER, f"run_case ({small['coq']}, {obs_t})")
        rep.violation(f"case{idx}", {
            "kind": "model/implementation disagreement: the crate does not compute what the proved model computes",
            "case": {k: small[k] for k in CASE_KEYS if k in small}, "harness_line": small["line"],
            "implementation_observations": out, "model_observations": model[-3000:], "original_case_index": idx,
            "replay": "./check.py C19 --replay <this file>"})
    # other build configurations: release profile (overflow panics legitimately differ: skipped) and the
    # no_std-configured crates
    if not errors and len(outl) == len(items):
        rep.extra["build_profiles"] = F.profile_phase(rep, "c19", items, outl, profiles=("release",), skip=has_panic)
        rep.extra["no_std_build"] = nostd_phase(rep, items, outl)
    dist = {"cases_histogram": hist, "rectifier_cases": len(rect), "envelope_histories": len(env), "corpus_cases": len(corpus),
            "rectifier_sample_evaluations": rect_evals, "envelope_channel_steps": stats.get("steps", 0),
            "zero_gain_steps": stats.get("zero_gain_steps", 0), "k2_class_inputs_panicking": len(k2_hits),
            "adaptor_histories_pulled_past_exhaustion": stats.get("histories_past_exhaustion", 0),
            "histories_with_into_parts": stats.get("histories_with_into_parts", 0),
            "histories_with_clone_mid_run": stats.get("histories_with_clone", 0),
            "detector_constructor_histogram": ctor_hist,
            "steps_outside_exact_between_but_within_tolerance": stats.get("inexact_between", 0),
            "nonfinite_steps_skipped_by_verdict": stats.get("nonfinite", 0),
            "floatbase_cases": fb_n, "floatbase_disagreements": len(fb_bad),
            "source_regions_never_entered": cov_regions_util.regions_for_evidence(PROP, "No exclusions (lib/props/c19_cov_exclusions.json is empty).")}
    samples = [it["line"][:400] for it in (rect[:1] + rect[len(rect) // 2:len(rect) // 2 + 1] + env[:1] + env[-1:])]
    n_eval = rect_evals + stats.get("steps", 0)
    return finish(rep, info, n_eval, len(nontriv), dist, samples, bad, len(items))


def finish(rep, info, n, nontriv, dist, samples, bad=(), ncases=0):
    th = info.get("theorems", [])
    cov = {
        "obligations": max(1, len(th)), "discharged": len(th) if info.get("coq_ok") else 0,
        "checker_cmd": "make -f Makefile.coq props/C19.vo (coqc 8.16.1, full .vo) + Print Assumptions audit",
        "trusted_base": F.TRUSTED_COMMON + [
            "axioms: Coq stdlib real-number axioms only (ClassicalDedekindReals.sig_forall_dec, sig_not_dec, functional_extensionality_dep, classic), through Reals/Flocq",
            "Flocq 4.1.0 BinarySingleNaN as the meaning of f32/f64 (+ Base/Float.v, validated against rustc by lib/floatbase.py in this run)",
            "libm powf is data: the gain printed by the implementation is passed to the model; checked here within 4 ulp of exp(-1/n) and 0 for n == 0",
            "modelled, not verified: frames as lists, Frame::map/zip_map as list map, ring_buffer::Fixed::push as a queue (C06)"],
        "theorems": th, "axioms_reported": info.get("axioms", []),
        "evaluations": n, "cases": ncases, "distinct_nontrivial": nontriv,
        "rule": "rectifier cases: 14 formats x {bare sample, 1, 2, 3 channels} x boundary (MIN, MIN+1, eq +-2^k +-1, MAX) + random values x 3 rectifiers; envelope: histories of rising/falling/constant/random/alternating segments, 4 detectors, f32/f64/i16/u8 (+ i8/u16) frames, Detector::next and the detect_envelope adaptor, setters mid-run. evaluations = rectified samples + envelope channel-steps. adaptor histories over finite sources (from_iter, from_interleaved_samples_iter) pulled 8-24 frames past exhaustion with is_exhausted observed, then into_parts() and one more frame through the returned detector. non-trivial = an envelope history in which both gain branches are taken (some step with detected > previous and some with detected < previous), or a setter is called mid-run, or the adaptor is pulled past the end of its finite source, or the frame format is unsigned (equilibrium offset path)",
        "samples": samples, "input_distribution": dist, "disagreements": len(bad),
        "explanation": "theorems: rectifiers on every format; one-pole law, between, zero time, geometric monotone convergence, setters on the real-number instance; IEEE companion within two roundings. tie: the same Gallina definitions run by coqc against the crates bit for bit (gains passed as data), plus the exact-rational verdict with tolerance 2 ulp(max(|env|,|d|)) for float formats and 1 + 2^(bits-24) units for integer formats",
    }
    return rep.finish("proof", cov, ["frames are lists; Frame::map / zip_map visit channels in order",
                                    "the gain value comes from libm powf and is treated as data within 4 ulp of exp(-1/n)",
                                    "envelope verdict tolerance: 2 ulp(max(|env|,|d|)) (float formats), 1 + 2^(bits-24) units (integer formats); exact `between` is not a theorem of IEEE arithmetic",
                                    "known finding K2 (integer format, input at the minimum amplitude) is excluded from the theorems and reported as KNOWN-FINDING"])


def replay(path):
    j = json.load(open(path))
    it = build(j["case"])
    ok, blog, binpath = F.harness_build("c19")
    rc, out, _ = F.run_bin(binpath, [it["line"]])
    obs = F.norm_obs_line(out[0]) if out else []
    _, model = F.coq_eval("c19", HEADER, f"run_case ({it['coq']}, {F.zlistlist(obs)})")
    print("case:", it["line"])
    print("implementation:", out)
    print("model:", model)
    o, bad, errs = F.correspond(binpath, [it], HEADER, CHECK, "c19_replay")
    probs = rect_verdict(it, obs) if it["kind"] == "R" else env_verdict(it, obs, {})[0]
    print("verdict problems:", probs[:5])
    print("AGREE" if not bad and not errs and not probs else "DISAGREE")
    return 1 if bad or errs or probs else 0
