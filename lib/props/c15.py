"""C15 — custom-width integer sample types never silently leave their range.
Proof: coq/props/C15.v over coq/theories/Sample/TypesModel.v (a model of new_sample_type!/impl_neg!/impl_from!
written after the source) instantiated on the table coq/gen/TypesTable.v that translate/types2coq.py
regenerates from the CURRENT dasp_sample/src/types.rs at every run.  The operation BODIES of the three
macros are regenerated as well (translate/typesops2coq.py -> coq/gen/TypesOpsGen.v, shallow Gallina over
the machine integers of Sample/Rint.v) and proved equal to the hand model on all inputs
(Sample/TypesGenEquiv.v, theorems c15_gen_*).  Tie: the two translators; correspondence (hand model
evaluated inside coqc vs the real types) in four build configurations: dev, release, relchk (overflow
checks without debug assertions) and dbgnochk (debug assertions without overflow checks), plus an
independent i128 oracle of the property inside the harness for the exhaustive 11-bit sweeps.
When a translator rejects the source or the equivalence no longer checks (DESIGN 5.1/5.3): the
correspondence + the i128 oracle are the search for a failing input, the regenerated model is run against
the hand model inside coqc, and the run ends in VIOLATION (with `no-failing-input-found` if none).
TESTING ONLY: env DASP_TYPES_RS=<file> makes translators AND a scratch harness (under out/) use that file
instead of /repo's types.rs."""
import json, os, re, shutil, sys, time
import framework as F

sys.path.insert(0, os.path.join(F.VERIF, "translate"))
import types2coq  # noqa: E402
import typesops2coq  # noqa: E402

PROP = "C15"
META = dict(
    technique="Coq proof over a constant table AND a model of the macro bodies, both regenerated from the source by translators at every run (the regenerated operations are proved equal to the hand model the property theorems are about) + coqc-evaluated model vs crate correspondence in the four combinations of debug-assertions and overflow-checks",
    text="Machine-checked (Coq 8.16.1): for every row of the table generated from the eight new_sample_type! invocations, and for ANY row with MIN/MAX/TOTAL = the n-bit range and n+2 <= Rep bits, new succeeds exactly in range, From<Rep> terminates in range congruent mod 2^n, the widening From impls preserve the value, order is numeric order, and + - * and unary - on in-range operands return the exact result or panic (debug assertions on, overflow checks on or off) / never panic and return the representative mod 2^n in [MIN, MAX] (debug assertions off, overflow checks on or off). The bodies of new, wrap_overflow_once, wrap_overflow (both while loops, fuelled), From<Rep>, Add, Sub, Mul, Neg and the two impl_from! arms are parsed from the current types.rs at every run (strict recursive-descent parser, anything outside the subset is a translator error), emitted as Gallina over the framework's machine-integer semantics, and proved equal to the hand-written model on all inputs, all four configurations, every fuel (c15_gen_ops_agree, c15_gen_ops_agree_any_fuel; the property clauses restated for the regenerated operations: c15_gen_new, _from_rep, _arith_debug, _arith_release, _neg, _from_widening, _never_outside). The hand-written model is additionally tied to the crate by running it inside coqc on the same operations as the real types in four build profiles (dev, release, relchk, dbgnochk) (boundary x boundary pairs, random pairs, far out-of-range Rep values; exhaustive 2048^2 pairs for the 11-bit types in the thorough tier against an i128 oracle).",
    note="Trusted: Coq kernel; translate/types2coq.py (table) and translate/typesops2coq.py (macro bodies -> Gallina; embedding Sample/TypesGenSem.v over Sample/Rint.v), both cross-checked by the correspondence of the (proved equal) hand model with the crate; harness + generators. The trait impls of the macro that the property does not mention (Div Not Rem Shl Shr BitAnd BitOr BitXor) are parsed up to their headers and listed, not translated. Build configuration is modelled as the two flags debug-assertions and overflow-checks; all theorems cover the four combinations (the two mixed ones since the repair of defect F8, /repo 45c5fdf). Axioms: none.",
    design="6/C15")
HEADER = "From Dasp Require Import Sample.TypesRun."
CHECK = "check"
TEST_TYPES = os.environ.get("DASP_TYPES_RS")   # TESTING ONLY: pretend /repo's types.rs were this file
TYPES_RS = TEST_TYPES or os.path.join(F.REPO, "dasp_sample", "src", "types.rs")
TABLE_V = os.path.join(F.COQ, "gen", "TypesTable.v")
OPS_V = os.path.join(F.COQ, "gen", "TypesOpsGen.v")
GEN_HEADER = "From Dasp Require Import Sample.TypesRun Sample.TypesGenRun."
OPNAME = {0: "add", 1: "sub", 2: "mul"}
# cargo profile of harness/Cargo.toml -> (debug-assertions, overflow-checks)
PROFILES = {"dev": (True, True), "release": (False, False), "relchk": (False, True), "dbgnochk": (True, False)}
HARNESS_TYPES = ["I11", "I20", "I24", "I48", "U11", "U20", "U24", "U48"]   # type order hard-coded in harness/src/bin/c15.rs
ROWS = []   # rows of the current table (set by main/replay), table index -> name


# ---------------------------------------------------------------------------
# table


def regenerate():
    """(rows or None, table error or None, ops dict) — coq/gen/TypesTable.v and coq/gen/TypesOpsGen.v are
    rewritten only if their content changed; on a translator error the committed file (last good
    translation) is kept.  ops = {error, rewritten, functions, unmodelled}"""
    rows, terr, rewritten = None, None, False
    try:
        text, rows = types2coq.translate(TYPES_RS)
        rewritten = F.write_if_changed(TABLE_V, text)
    except (types2coq.TranslateError, OSError) as e:
        terr = f"{type(e).__name__}: {e}"
    ops = {"error": None, "rewritten": False, "table_rewritten": rewritten, "functions": [], "unmodelled": []}
    try:
        otext, tr = typesops2coq.translate(TYPES_RS)
        ops["rewritten"] = F.write_if_changed(OPS_V, otext)
        ops["functions"] = [f"g_{k}" for k in tr["order"]]
        ops["unmodelled"] = list(tr["unmodelled"])
    except (types2coq.TranslateError, OSError) as e:
        ops["error"] = f"{type(e).__name__}: {e}"
    return rows, terr, ops


def fallback_rows():
    """rows of the committed table's source of truth when the translator fails: the last good
    translation is what coq/gen/TypesTable.v holds; for case generation we only need ranges,
    which we re-derive from the names the harness hard-codes."""
    rows = []
    for name, rep in [("I11", 16), ("I20", 32), ("I24", 32), ("I48", 64), ("U11", 16), ("U20", 32), ("U24", 32), ("U48", 64)]:
        n, sg = int(name[1:]), name[0] == "I"
        rows.append(dict(name=name, signed=sg, bits=n, rep=(True, rep), eq=0 if sg else 1 << (n - 1),
                         min=-(1 << (n - 1)) if sg else 0, max=(1 << (n - 1)) - 1 if sg else (1 << n) - 1,
                         total=1 << n, froms=[], neg=name in ("I11", "I24", "I48", "U11")))
    return rows


def prim_range(p):
    sg, b = p
    return (-(1 << (b - 1)), (1 << (b - 1)) - 1) if sg else (0, (1 << b) - 1)


# ---------------------------------------------------------------------------
# case construction


def coq_op(o):
    z = F.zlit
    k, a = o[0], o[1:]
    return {"profile": lambda: "ZProfile", "consts": lambda: "ZConsts", "srcs": lambda: "ZSrcs",
            "new": lambda: f"ZNew {z(a[0])}", "from": lambda: f"ZFrom {z(a[0])}",
            "widen": lambda: f"ZWiden {z(a[0])} {z(a[1])}",
            "arith": lambda: f"ZArith {z(a[0])} {z(a[1])} {z(a[2])}",
            "grid": lambda: f"ZGrid {z(a[0])} {F.zlist(a[2:2 + a[1]])} {F.zlist(a[2 + a[1]:])}",
            "neg": lambda: f"ZNeg {z(a[0])}", "cmp": lambda: f"ZCmp {z(a[0])} {z(a[1])}"}[k]()


def build(item, ops=None):
    it = dict(item)
    if "prof" not in it:   # replay files written before the four-configuration version
        it["prof"] = "dev" if it.pop("dbg", True) else "release"
    if ops is not None:
        it["ops"] = ops
    name = ROWS[it["ty"]]["name"]
    if name not in HARNESS_TYPES:
        raise RuntimeError(f"type {name} of the table is unknown to the harness")
    da, oc = PROFILES[it["prof"]]
    it["dbg"] = da
    it["line"] = f"{HARNESS_TYPES.index(name)} ; " + " , ".join(" ".join(str(t) for t in o) for o in it["ops"])
    it["coq"] = (f"TCase {'true' if da else 'false'} {'true' if oc else 'false'} {F.zlit(it['ty'])} ["
                 + "; ".join(coq_op(o) for o in it["ops"]) + "]")
    return it


def expand_grid(op):
    """the single `arith` ops a grid op stands for, in the harness's order"""
    n = op[2]
    return [["arith", op[1], a, b] for a in op[3:3 + n] for b in op[3 + n:]]


def isqrt(n):
    import math
    return math.isqrt(n)


def boundary(row, rng, want=64):
    """~64 boundary-structured in-range values of a type"""
    lo, hi, n = row["min"], row["max"], row["bits"]
    must = [lo, lo + 1, lo + 2, hi, hi - 1, hi - 2, 0, 1, 2, 3, -1, -2, -3, row["eq"], row["eq"] - 1, row["eq"] + 1,
            (lo + hi) // 2, (lo + hi) // 2 + 1, hi // 2, hi // 2 + 1, lo // 2, lo // 2 - 1,
            isqrt(hi), isqrt(hi) + 1, -isqrt(hi), -isqrt(hi) - 1, isqrt(1 << n), isqrt(1 << n) + 1, -isqrt(1 << n),
            hi // 3, lo // 3]
    cand = []
    for k in range(1, n + 1):
        for d in (-1, 0, 1):
            cand += [(1 << k) + d, -(1 << k) + d]
    inr = lambda v: lo <= v <= hi
    out = []
    for v in must:
        if inr(v) and v not in out:
            out.append(v)
    cand = [v for v in dict.fromkeys(cand) if inr(v) and v not in out]
    while len(out) < want and cand:
        out.append(cand.pop(rng.below(len(cand))))
    return out


def rand_in(row, rng):
    lo, hi = row["min"], row["max"]
    m = rng.below(6)
    if m == 0:
        return rng.range(lo, hi)
    if m == 1:  # small magnitude
        return max(lo, min(hi, rng.range(-70, 70)))
    if m == 2:  # near a bound
        return rng.choice([lo + rng.below(40), hi - rng.below(40)])
    if m == 3:  # around sqrt: products straddle the range / the Rep width
        s = isqrt(1 << rng.range(row["bits"] - 2, row["rep"][1]))
        v = s + rng.range(-50, 50)
        v = -v if row["signed"] and rng.chance(1, 2) else v
        return max(lo, min(hi, v))
    if m == 4:  # power of two neighbourhood
        v = (1 << rng.below(row["bits"])) + rng.range(-2, 2)
        v = -v if row["signed"] and rng.chance(1, 2) else v
        return max(lo, min(hi, v))
    return rng.range(lo, hi)


def exact(o, a, b):
    return a + b if o == 0 else a - b if o == 1 else a * b


def gen_cases(rng, tier, rows):
    """returns items; every item = one harness line = one type, one profile, a list of ops"""
    thorough = tier == "thorough"
    items = []

    def emit(prof, ty, ops, per=64, heavy=False):
        per = 6 if heavy else per
        for i in range(0, len(ops), per):
            items.append(build(dict(prof=prof, ty=ty, ops=ops[i:i + per], heavy=heavy)))

    for ty, row in enumerate(rows):
        r = rng.fork(f"ty{ty}")
        lo, hi, tot = row["min"], row["max"], row["total"]
        rlo, rhi = prim_range(row["rep"])
        wide = row["rep"][1] == 64          # From<Rep>/mul in release loop up to 2^15 times
        B = boundary(row, r)
        # Rep values for new / From<Rep>: around the range, multiples of TOTAL, Rep extremes, random
        near = [lo - 3, lo - 2, lo - 1, hi + 1, hi + 2, hi + 3, lo - tot, lo - tot - 1, lo - tot + 1, hi + tot, hi + tot + 1,
                hi + tot - 1, lo - 2 * tot, hi + 2 * tot, tot, -tot, 2 * tot, -2 * tot, 3 * tot + 1, -3 * tot - 1]
        far = [rlo, rlo + 1, rlo + 2, rhi, rhi - 1, rhi - 2, rlo + tot, rhi - tot, rlo // 2, rhi // 2, rlo // 2 - 1, rhi // 2 + 1,
               (rhi // tot) * tot, (rhi // tot) * tot - 1, -(rhi // tot) * tot, -(rhi // tot) * tot + 1]
        n_far_rand = (12 if wide else 150) * (4 if thorough else 1)
        far += [r.range(rlo, rhi) for _ in range(n_far_rand)]
        mid = [r.range(lo - 6 * tot, hi + 6 * tot) for _ in range(200 if not thorough else 1500)]
        mid += [k * tot + d for k in range(-5, 6) for d in (-1, 0, 1)] + [lo + k * tot for k in range(-4, 5)] + [hi + k * tot for k in range(-4, 5)]
        repv = lambda vs: [v for v in dict.fromkeys(vs) if rlo <= v <= rhi]
        if thorough and row["rep"][1] == 16:
            mid = list(range(rlo, rhi + 1))      # every i16 value through From<i16> and new
        for prof, (dbg, oc) in PROFILES.items():
            emit(prof, ty, [["profile"], ["consts"], ["srcs"]])
            emit(prof, ty, [["new", v] for v in repv(B + near + far + mid)], per=256)
            emit(prof, ty, [["from", v] for v in repv(B + near + mid)], per=256)
            emit(prof, ty, [["from", v] for v in repv(far)], heavy=wide)
            # widening From: boundary values of every source, plus values just outside the source
            wops = []
            for k, f in enumerate(row["froms"]):
                if f[0] == "prim":
                    slo, shi = prim_range(f[1])
                    sb = [slo, slo + 1, -1, 0, 1, shi - 1, shi, shi // 2, slo // 2] + [r.range(slo, shi) for _ in range(12)]
                else:
                    srow = next(x for x in rows if x["name"] == f[1])
                    slo, shi = srow["min"], srow["max"]
                    sb = boundary(srow, r, 24) + [r.range(slo, shi) for _ in range(8)]
                sb = [v for v in dict.fromkeys(sb) if slo <= v <= shi] + [slo - 1, shi + 1]
                wops += [["widen", k, v] for v in sb]
            emit(prof, ty, wops)
            # arithmetic: every pair of boundary values x {add, sub, mul} (one `grid` op per 16 x |B| block:
            # the model and the harness each hash their 16*|B| observations), random pairs as single ops
            for o in (0, 1, 2):
                heavy = wide and o == 2 and not dbg
                pairs = []
                if heavy:   # each 48-bit product without debug assertions walks up to 2^15 loop iterations in the model
                    keep = 130 if not thorough else 700
                    allp = [(a, b) for a in B for b in B]
                    pairs = [allp[r.below(len(allp))] for _ in range(keep)]
                else:
                    gops = [["grid", o, len(B[i:i + 16])] + B[i:i + 16] + B for i in range(0, len(B), 16)]
                    emit(prof, ty, gops, per=1)
                nrand = (20 if heavy else 350) * (6 if thorough else 1)
                pairs += [(rand_in(row, r), rand_in(row, r)) for _ in range(nrand)]
                emit(prof, ty, [["arith", o, a, b] for a, b in pairs], per=128, heavy=heavy)
            emit(prof, ty, [["neg", v] for v in B + [rand_in(row, r) for _ in range(40)]])
            cp = [(a, b) for a in B[:8] for b in B] + [(rand_in(row, r), rand_in(row, r)) for _ in range(100)]
            cp += [(a, a) for a in B] + [(lo - 1, 0), (0, hi + 1)]
            emit(prof, ty, [["cmp", a, b] for a, b in cp], per=256)
    return items


# ---------------------------------------------------------------------------
# independent python verdict of the property on the implementation's observations


def wrapped(row, v):
    return (v - row["min"]) % (row["max"] - row["min"] + 1) + row["min"]


def verdict(row, dbg, op, ob):
    """None if the observation satisfies the property statement, else a message"""
    inr = lambda v: row["min"] <= v <= row["max"]
    k = op[0]
    if k == "new":
        want = [1, op[1]] if inr(op[1]) else [0]
        return None if ob == want else f"new({op[1]}) observed {ob}, the property requires {want}"
    if k == "from":
        want = [2, wrapped(row, op[1])]
        return None if ob == want else f"From<Rep>({op[1]}) observed {ob}, the property requires {want}"
    if k == "widen":
        return None if ob in ([0], [2, op[2]]) and (ob == [0] or inr(op[2])) else f"widening From entry {op[1]} of {op[2]} observed {ob}"
    if k in ("arith", "neg"):
        if k == "neg":
            if ob == [7]:
                return None
            a, e = op[1], -op[1]
            if not inr(a):
                return None
        else:
            a, b = op[2], op[3]
            if not (inr(a) and inr(b)):
                return None
            e = exact(op[1], a, b)
        if ob[0] == 2 and not inr(ob[1]):
            return f"{op} returned {ob[1]} outside [MIN, MAX]"
        if dbg:
            ok = ob == [2, e] if inr(e) else ob[0] == 8 and ob[1] in (1, 4)
            return None if ok else f"{op} with debug assertions observed {ob}; exact result {e} {'is' if inr(e) else 'is not'} in range"
        return None if ob == [2, wrapped(row, e)] else f"{op} without debug assertions observed {ob}, wrapped exact result is {wrapped(row, e)}"
    if k == "cmp":
        a, b = op[1], op[2]
        if not (inr(a) and inr(b)):
            return None
        c = 0 if a < b else 1 if a == b else 2
        want = [4, int(a == b), int(a != b), int(a < b), int(a <= b), int(a > b), int(a >= b), c, c, max(a, b), min(a, b)]
        return None if ob == want else f"comparison of {a} and {b} observed {ob}, numeric order gives {want}"
    return None


def is_nontrivial(row, op):
    """the op takes a range-dependent branch: out-of-range constructor argument, a From<Rep> that
    has to wrap, an arithmetic result outside [MIN, MAX] (panic / wrap branch)"""
    inr = lambda v: row["min"] <= v <= row["max"]
    k = op[0]
    if k in ("new", "from"):
        return not inr(op[1])
    if k == "arith":
        return inr(op[2]) and inr(op[3]) and not inr(exact(op[1], op[2], op[3]))
    if k == "neg":
        return inr(op[1]) and not inr(-op[1]) and row["neg"]
    return False



# ---------------------------------------------------------------------------
# TESTING ONLY: DASP_TYPES_RS simulates an edited /repo/dasp_sample/src/types.rs for translators AND harness


def scratch_bins():
    """a copy of dasp_sample with types.rs replaced + a one-binary harness crate, under out/ (never touches /repo)"""
    root = F.ensure_dir(os.path.join(F.OUT, "c15_scratch"))
    ds = os.path.join(root, "dasp_sample")
    if os.path.exists(ds):
        shutil.rmtree(ds)
    shutil.copytree(os.path.join(F.REPO, "dasp_sample"), ds)
    shutil.copy(TEST_TYPES, os.path.join(ds, "src", "types.rs"))
    h = os.path.join(root, "harness")
    F.ensure_dir(os.path.join(h, "src", "bin"))
    shutil.copy(os.path.join(F.HARNESS, "src", "lib.rs"), os.path.join(h, "src", "lib.rs"))
    shutil.copy(os.path.join(F.HARNESS, "src", "bin", "c15.rs"), os.path.join(h, "src", "bin", "c15.rs"))
    F.write_if_changed(os.path.join(h, "Cargo.toml"),
                       '[package]\nname = "dasp_verif_harness"\nversion = "0.0.0"\nedition = "2018"\npublish = false\n\n[workspace]\n\n'
                       f'[dependencies]\ndasp_sample = {{ path = "{ds}" }}\n\n'
                       '[profile.dev]\nopt-level = 1\ndebug = false\noverflow-checks = true\ndebug-assertions = true\n\n'
                       '[profile.release]\nopt-level = 2\ndebug = false\noverflow-checks = false\ndebug-assertions = false\n\n'
                       '[profile.relchk]\ninherits = "release"\noverflow-checks = true\ndebug-assertions = false\n\n'
                       '[profile.dbgnochk]\ninherits = "dev"\noverflow-checks = false\ndebug-assertions = true\n')
    bins = {}
    for prof in PROFILES:
        cmd = ["cargo", "build", "--offline", "--quiet", "--bin", "c15"] + ([] if prof == "dev" else ["--release"] if prof == "release" else ["--profile", prof])
        env = {"RUSTFLAGS": f"--cfg {F.GUARD}", "CARGO_TARGET_DIR": os.path.join(h, "target")}
        rc, out = F.sh(cmd, cwd=h, env=env, timeout=1500)
        path = os.path.join(h, "target", "debug" if prof == "dev" else prof, "c15")
        if rc != 0 or not os.path.exists(path):
            return None, prof, out
        bins[prof] = path
    return bins, None, ""


def build_bins():
    """({profile: path} or None, failing profile, log)"""
    if TEST_TYPES:
        return scratch_bins()
    bins = {}
    for prof in PROFILES:
        ok, blog, path = F.harness_build("c15", profile=prof)
        if not ok:
            return None, prof, blog
        bins[prof] = path
    return bins, None, ""


# ---------------------------------------------------------------------------
# proof phase; a broken obligation is reported after the search for a failing input (DESIGN 5.1)


def broken_lemma(log):
    """every error `make` reported: file, line, enclosing lemma; generated files first"""
    found = []
    for m in re.finditer(r'File "\./([^"]+)", line (\d+), characters[^\n]*\n((?:(?!File "|make).*\n){0,6})', log):
        path, line = m.group(1), int(m.group(2))
        lemma = None
        mm = re.search(r"\(in proof ([\w']+)\)", m.group(3))
        if mm:
            lemma = mm.group(1)
        else:
            try:
                src = open(os.path.join(F.COQ, path)).read().split("\n")
                for l in range(min(line, len(src)) - 1, -1, -1):
                    mm = re.match(r"\s*(?:Lemma|Theorem|Example|Definition|Fixpoint)\s+([\w']+)", src[l])
                    if mm:
                        lemma = mm.group(1)
                        break
            except OSError:
                pass
        if "Warning" in m.group(3).split("\n")[0]:
            continue
        found.append(dict(file="coq/" + path, line=line, lemma=lemma, message=" ".join(m.group(3).split())[:400]))
    if not found:
        return dict(file=None, line=None, lemma=None, message=log[-1500:], all=[])
    found.sort(key=lambda f: 0 if "/gen/" in f["file"] else 1)
    return dict(found[0], all=[f"{b['file']}:{b['line']} {b['lemma']}" for b in found])


def proof_phase(rep):
    t = time.time()
    ok, log = F.coq_prop_build(PROP)
    info = {"coq_ok": ok, "theorems": [], "axioms": [], "broken": None}
    if not ok:
        info["broken"] = broken_lemma(log)
        info["log_tail"] = log[-3000:]
    else:
        problems, ainfo = F.coq_audit(PROP, log, frozenset())
        info.update(ainfo)
        if problems:
            rep.violation("audit", {"kind": "audit of the Coq development failed", "problems": problems}, no_input=True)
    info["coq_s"] = round(time.time() - t, 1)
    return info


def parse_zll(out):
    """the list (list Z) printed by `Eval vm_compute` (None if there is none)"""
    m = re.search(r"=\s*(\[.*\])\s*:\s*list \(list Z\)", out, re.S)
    if not m:
        return None
    return [[int(x) for x in re.findall(r"-?\d+", g)] for g in re.findall(r"\[([^\[\]]*)\]", m.group(1))]


def model_search(items, table_rows, bins):
    """DESIGN 5.1(a) for C15: the model REGENERATED from the current macro bodies, run inside coqc
    - against the hand model on every case of this run (no implementation involved): the cases where they
      differ, shrunk to one operation, with both observations and the property's verdict on the regenerated one;
    - against the crate's observations (does the regenerated model follow the source?).
    Needs coq/gen/TypesOpsGen.v to compile (it does whenever the translator accepted the source); it does not
    need the equivalence proof."""
    res = {"ran": False}
    ok, log = F.coq_make("theories/Sample/TypesGenRun.vo")
    if not ok:
        res["error"] = "the regenerated model does not compile: " + log[-1500:]
        return res, []
    res["ran"] = True
    bad, errs = F.coq_check_cases("c15_gen", GEN_HEADER, "check_gen", [it["coq"] for it in items], per_file=400)
    res["cases"] = len(items)
    res["cases_where_regenerated_model_differs_from_hand_model"] = len(bad)
    if errs:
        res["errors"] = [f"{n}: {m[-300:]}" for n, m in errs[:3]]

    def differs(c):
        b, e = F.coq_check_cases("c15_gen_shrink", GEN_HEADER, "check_gen", [c["coq"]])
        return bool(b) and not e

    witnesses = []
    seen = set()
    for idx in bad:
        it = items[idx]
        key = (it["prof"], it["ty"], it["ops"][0][0])
        if key in seen or len(witnesses) >= 4:
            continue
        seen.add(key)
        ops = [sop for op in it["ops"] for sop in (expand_grid(op) if op[0] == "grid" else [op])]
        if len(ops) != len(it["ops"]):
            it2 = build(it, ops)
            it = it2 if differs(it2) else it
        small = F.shrink_ops(it, build, differs)
        _, g = F.coq_eval("c15_gen", GEN_HEADER, f"run_case_gen ({small['coq']})")
        _, h = F.coq_eval("c15_gen", GEN_HEADER, f"run_case ({small['coq']})")
        gobs, hobs = parse_zll(g), parse_zll(h)
        da, oc = PROFILES[small["prof"]]
        msgs = []
        if gobs is not None and len(gobs) == len(small["ops"]):
            for op, ob in zip(small["ops"], gobs):
                if op[0] == "grid":
                    continue
                if ob == [-4]:
                    msgs.append(f"{op}: a `while` loop of the regenerated model does not terminate within fuel_args iterations")
                    continue
                mv = verdict(table_rows[small["ty"]], da, op, ob)
                if mv:
                    msgs.append(mv)
        witnesses.append({"type": table_rows[small["ty"]]["name"], "profile": small["prof"], "debug_assertions": da, "overflow_checks": oc,
                          "case": {k: small[k] for k in ("prof", "ty", "ops")}, "harness_line": small["line"],
                          "regenerated_model_observations": gobs if gobs is not None else g[-800:],
                          "hand_model_observations": hobs if hobs is not None else h[-800:],
                          "property_verdict_on_regenerated_model": msgs or "passes (the two models differ only on what the property leaves open)"})
    res["witnesses"] = len(witnesses)
    # the regenerated model against the crate: first the cases where the two models differ (does the crate follow
    # the regenerated model or the hand model there?), then a sample of the others
    vs = {}
    badset = set(bad)
    for prof in PROFILES:
        idxs = [i for i, it in enumerate(items) if it["prof"] == prof]
        part = [items[i] for i in idxs if i in badset][:100] + [items[i] for i in idxs if i not in badset][:60]
        if not part or bins is None:
            continue
        outl, b2, e2 = F.correspond(bins[prof], part, GEN_HEADER, "check_gen_obs", "c15_genobs_" + prof, per_file=400)
        vs[prof] = {"cases": len(part), "of_which_the_two_models_differ": len([i for i in idxs if i in badset][:100]),
                    "disagreements": len(b2), "errors": len(e2),
                    "first_disagreements": [{"harness_line": part[i]["line"][:300], "crate": outl[i][:300]} for i in b2[:2]]}
    res["regenerated_model_vs_crate"] = vs
    return res, witnesses


# ---------------------------------------------------------------------------


def exhaustive(rep, bins, rows, dist):
    """thorough tier: every pair of 11-bit values x {add, sub, mul} x the four configurations against the
    i128 oracle inside the harness. Returns the number of evaluations."""
    total = 0
    for prof, (dbg, oc) in PROFILES.items():
        lines, meta = [], []
        for ty in [i for i, x in enumerate(rows) if x["name"] in ("I11", "U11")]:
            lo, hi = rows[ty]["min"], rows[ty]["max"]
            for o in (0, 1, 2):
                step = 32
                for a in range(lo, hi + 1, step):
                    lines.append(f"E {HARNESS_TYPES.index(rows[ty]['name'])} {o} {a} {min(hi, a + step - 1)}")
                    meta.append((ty, o))
        rc, outl, err = F.run_bin_parallel(bins[prof], lines)
        if rc != 0 or len(outl) != len(lines):
            rep.violation(f"exhaustive_{prof}", {"kind": "exhaustive sweep could not be run", "stderr": err[-2000:]}, no_input=True)
            continue
        n_here, bad_here = 0, []
        for (ty, o), l, ol in zip(meta, lines, outl):
            t = ol.split()
            if len(t) != 7 or t[0] != "9":
                bad_here.append((ty, o, l, ol))
                continue
            n_here += int(t[1])
            if int(t[2]) != 0:
                bad_here.append((ty, o, l, ol))
        total += n_here
        dist[f"exhaustive_pairs_{prof}"] = n_here
        if n_here != 2 * 3 * 2048 * 2048:
            rep.violation(f"exhaustive_count_{prof}",
                          {"kind": "exhaustive sweep did not cover 2 types x 3 ops x 2048^2 pairs", "covered": n_here}, no_input=True)
        for ty, o, l, ol in bad_here[:2]:
            t = ol.split()
            a, b = (int(t[3]), int(t[4])) if len(t) == 7 else (None, None)
            rep.violation(f"exhaustive_{prof}_{rows[ty]['name']}_{OPNAME[o]}", {
                "kind": "11-bit exhaustive sweep: the real type disagrees with the exact/wrapped result the property prescribes",
                "type": rows[ty]["name"], "profile": prof, "debug_assertions": dbg, "overflow_checks": oc,
                "op": OPNAME[o], "a": a, "b": b, "observed": ol, "harness_line": l,
                "case": {"prof": prof, "ty": ty, "ops": [["arith", o, a, b]]} if a is not None else None})
    return total


def flat_obs(it, ol_full):
    """(op, observation) pairs of a case, grids expanded into their single arith ops (needs the `full` output)"""
    out = []
    for op, ob in zip(it["ops"], F.norm_obs_line(ol_full)):
        if op[0] == "grid":
            sub = expand_grid(op)
            if not ob or ob[0] != 11 or len(ob) != 1 + 2 * len(sub):
                out.append((op, ob))
                continue
            for k, sop in enumerate(sub):
                t, v = ob[1 + 2 * k], ob[2 + 2 * k]
                out.append((sop, [0] if t == 0 else [t, v]))
        else:
            out.append((op, ob))
    return out


def main(rep, tier, seed):
    rng = F.Rng(seed)
    rows, terr, genops = regenerate()
    if TEST_TYPES:
        rep.notes.append(f"note: DASP_TYPES_RS={TEST_TYPES} (testing mode: the translators and a scratch copy of dasp_sample + harness under out/ use this file instead of /repo's types.rs)")
    info = proof_phase(rep)
    info["ops"] = genops
    # the executable model does not depend on the proofs: build it even if a proof broke
    okr, rlog = F.coq_make("theories/Sample/TypesRun.vo")
    if not okr:
        rep.violation("model_build", {"kind": "the executable model does not compile against the regenerated table",
                                      "log_tail": rlog[-3000:]}, no_input=True)
        report_broken(rep, info, terr, genops, False, None, [])
        return finish(rep, info, tier, 0, 0, 0, {}, [], [])
    bins, bad_prof, blog = build_bins()
    if bins is None:
        rep.violation("harness_build_" + bad_prof,
                      {"kind": "harness does not build against /repo (a public item the property speaks about is missing or changed type)",
                       "log": blog[-4000:]}, no_input=True)
        report_broken(rep, info, terr, genops, False, None, [])
        return finish(rep, info, tier, 0, 0, 0, {}, [], [])
    table_rows = rows if rows is not None else fallback_rows()
    ROWS[:] = table_rows
    corpus = load_corpus()
    items = corpus + gen_cases(rng, tier, table_rows)
    # spread the expensive cases over the coqc shards (deterministic shuffle)
    sh = rng.fork("shuffle")
    order = list(range(len(items)))
    for i in range(len(order) - 1, 0, -1):
        j = sh.below(i + 1)
        order[i], order[j] = order[j], order[i]
    items = [items[i] for i in order]
    n_eval, nontriv, hist, bad_total, found_input = 0, set(), {}, 0, False
    samples = []
    for prof, (dbg, oc) in PROFILES.items():
        part = [it for it in items if it["prof"] == prof]
        outl, bad, errors = F.correspond(bins[prof], part, HEADER, CHECK, "c15_" + prof, per_file=400)
        for name, msg in errors:
            rep.violation(f"correspondence_error_{prof}_" + name.replace("/", "_"),
                          {"kind": "correspondence could not be evaluated", "where": name, "log": msg}, no_input=True)
        if errors:
            continue
        # the same cases with every grid observation spelled out, for the direct verdict of the property
        rc, full, err = F.run_bin_parallel(bins[prof], [it["line"] for it in part], args=("full",))
        if rc != 0 or len(full) != len(part):
            rep.violation(f"harness_full_{prof}", {"kind": "harness (full observations) could not be run", "stderr": err[-1500:]}, no_input=True)
            continue
        samples.append(f"[{prof}] " + part[0]["line"][:240] + "  =>  " + outl[0][:240])
        verdict_bad = []
        for idx, (it, ol) in enumerate(zip(part, full)):
            row = table_rows[it["ty"]]
            for op, ob in flat_obs(it, ol):
                key = f"{prof}:{op[0]}" + (":" + OPNAME[op[1]] if op[0] == "arith" else "")
                hist[key] = hist.get(key, 0) + 1
                tk = f"type:{row['name']}"
                hist[tk] = hist.get(tk, 0) + 1
                n_eval += 1
                if is_nontrivial(row, op):
                    nontriv.add((prof, it["ty"]) + tuple(op))
                if ob and ob[0] == 8:
                    hist[f"{prof}:panics"] = hist.get(f"{prof}:panics", 0) + 1
                msg = verdict(row, dbg, op, ob)
                if msg and len(verdict_bad) < 3 and idx not in [v[0] for v in verdict_bad]:
                    verdict_bad.append((idx, op, ob, msg))
        bad_total += len(bad)

        def fails(c):
            o, b, e = F.correspond(bins[prof], [c], HEADER, CHECK, "c15_shrink")
            return bool(b) and not e

        for idx in bad[:3]:
            it = part[idx]
            # a failing grid is first spelled out into its single arith operations
            ops = [sop for op in it["ops"] for sop in (expand_grid(op) if op[0] == "grid" else [op])]
            if len(ops) != len(it["ops"]):
                it = build(it, ops)
                if not fails(it):   # (hash disagreement that the spelled-out observations do not reproduce)
                    it = part[idx]
            small = F.shrink_ops(it, build, fails)
            rc, out, _ = F.run_bin(bins[prof], [small["line"]], args=("full",))
            _, model = F.coq_eval("c15", HEADER, f"run_case ({small['coq']})")
            found_input = True
            rep.violation(f"{prof}_case{idx}", {
                "kind": "model/implementation disagreement: the real sample type does not behave as the model proved to satisfy C15",
                "type": table_rows[small["ty"]]["name"], "profile": prof, "debug_assertions": dbg, "overflow_checks": oc,
                "case": {k: small[k] for k in ("prof", "ty", "ops")},
                "harness_line": small["line"], "implementation_observations": out, "model_observations": model[-3000:],
                "replay": "./check.py C15 --replay <this file>"})
        for idx, op, ob, msg in verdict_bad:
            if idx in bad[:3]:
                continue
            found_input = True
            rep.violation(f"{prof}_verdict{idx}", {
                "kind": "property verdict failed on an observation of the real type", "message": msg,
                "type": table_rows[part[idx]["ty"]]["name"], "profile": prof, "debug_assertions": dbg, "overflow_checks": oc,
                "case": {"prof": prof, "ty": part[idx]["ty"], "ops": [op]}, "observed": ob})
    dist = {"ops_histogram": hist, "corpus_cases": len(corpus), "harness_lines": len(items),
            "profiles": {k: {"debug_assertions": v[0], "overflow_checks": v[1]} for k, v in PROFILES.items()},
            "table_rewritten_this_run": genops["table_rewritten"], "ops_model_rewritten_this_run": genops["rewritten"]}
    broken = bool(terr or genops["error"] or not info["coq_ok"])
    if tier == "thorough" or broken:   # the i128 oracle is part of the search for a failing input (DESIGN 5.1(b))
        n_eval += exhaustive(rep, bins, table_rows, dist)
        found_input = found_input or any("exhaustive_" in v and "no-failing-input-found" not in v for v in rep.violations)
    search, witnesses = None, []
    if not info["coq_ok"]:
        search, witnesses = model_search(items, table_rows, bins)
        dist["regenerated_model_search"] = search
    report_broken(rep, info, terr, genops, found_input, search, witnesses)
    return finish(rep, info, tier, len(items), n_eval, len(nontriv), dist, samples, bad_total)


def report_broken(rep, info, terr, ops, found_input, search, witnesses):
    """the VIOLATION lines of DESIGN 5.1 / 5.3: translator error, broken proof obligation; `no-failing-input-found`
    unless the correspondence / oracle found an input on the crate or the regenerated model itself violates the
    property's verdict on a concrete input"""
    model_found = False
    for k, w in enumerate(witnesses):
        viol = isinstance(w["property_verdict_on_regenerated_model"], list)
        if viol and not found_input:
            model_found = True
            rep.violation(f"regenerated_model_{w['type']}_{w['profile']}_{k}", dict(
                kind="the model regenerated from the macro bodies of types.rs violates the property on this input (the search on the crate itself found nothing: the harness was built from another tree, or translator and source disagree)",
                **w, replay="./check.py C15 --replay <this file>"))
    found = found_input or model_found
    if terr or ops["error"]:
        rep.violation("translator", {
            "kind": "model cannot be regenerated: the translators do not recognise the current dasp_sample/src/types.rs",
            "table_translator_error (translate/types2coq.py)": terr, "macro_body_translator_error (translate/typesops2coq.py)": ops["error"],
            "note": "the committed coq/gen/TypesTable.v / coq/gen/TypesOpsGen.v (last good translation) were used for the proofs; the correspondence of the hand model with the crate in the four profiles, the direct verdict of the property and the exhaustive 11-bit i128 oracle were the search for a failing input: "
                    + ("a failing input was found, see the other violation(s)" if found else "no failing input was found")},
            no_input=not found)
    if not info["coq_ok"]:
        b = info.get("broken") or {}
        rep.violation("proof_broken", {
            "kind": "proof obligation no longer checks", "target": "coq/props/C15.vo",
            "broken_lemma": b.get("lemma"), "file": b.get("file"), "line": b.get("line"), "coq_message": b.get("message"),
            "all_errors": b.get("all"), "regenerated_files_rewritten": {"TypesTable.v": ops["table_rewritten"], "TypesOpsGen.v": ops["rewritten"]},
            "meaning": ("a lemma of Sample/TypesGenEquiv.v fails: the model regenerated from the macro bodies of the current types.rs is no longer (provably) the hand model that the theorems of props/C15.v are about"
                        if "TypesGenEquiv" in str(b.get("file")) or "TypesGenExamples" in str(b.get("file")) else "see coq_message"),
            "search": search, "model_level_witnesses": witnesses,
            "result": "a failing input was found, see the other violation(s)" if found else "no failing input was found on the crate (correspondence in four profiles, property verdict, exhaustive 11-bit oracle) nor on the regenerated model",
            "log_tail": info.get("log_tail")}, no_input=not found)


def load_corpus():
    d = os.path.join(F.VERIF, "corpus", PROP)
    items = []
    if os.path.isdir(d):
        for fn in sorted(os.listdir(d)):
            if fn.endswith(".json"):
                items.append(build(json.load(open(os.path.join(d, fn)))))
    return items


def finish(rep, info, tier, ncases, n, nontriv, dist, samples, bad=0):
    th = info.get("theorems", [])
    cov = {
        "obligations": max(1, len(th)), "discharged": len(th) if info.get("coq_ok") else 0,
        "checker_cmd": "translate/types2coq.py /repo/dasp_sample/src/types.rs > coq/gen/TypesTable.v; translate/typesops2coq.py /repo/dasp_sample/src/types.rs > coq/gen/TypesOpsGen.v; make -f Makefile.coq props/C15.vo (coqc 8.16.1, full .vo) + Print Assumptions audit",
        "trusted_base": F.TRUSTED_COMMON + [
            "translate/types2coq.py: reads Rep/eq/min/max/total/from-lists/impl_neg! of the eight invocations (its output is cross-checked against MIN/MAX/EQUILIBRIUM and the From/Neg impls the harness can call)",
            "translate/typesops2coq.py: strict parser of the bodies of new_sample_type!/impl_neg!/impl_from! (new, wrap_overflow_once, wrap_overflow, From<Rep>, Add, Sub, Mul, Neg, both impl_from! arms; impl_froms! and the macro argument patterns pinned token by token; derive(PartialEq, Eq, PartialOrd, Ord) on the one-field struct required) and its embedding Sample/TypesGenSem.v over Sample/Rint.v. The hand-written model (Sample/TypesModel.v) is no longer trusted on its own: Sample/TypesGenEquiv.v proves it equal to the regenerated model on all inputs; both are cross-checked by the correspondence with the crate",
            "not translated (outside the property, headers parsed, listed in coq/gen/TypesOpsGen.v): the Div Not Rem Shl Shr BitAnd BitOr BitXor impls of the macro",
            "build configuration = the two flags debug-assertions / overflow-checks; the four combinations are the cargo profiles dev, release, relchk, dbgnochk of harness/Cargo.toml",
            "axioms: none (every theorem of props/C15.v is closed under the global context)"],
        "theorems": th, "axioms_reported": info.get("axioms", []),
        "regenerated_model": {"file": "coq/gen/TypesOpsGen.v", "functions": info.get("ops", {}).get("functions", []),
                              "translator_error": info.get("ops", {}).get("error"), "rewritten_this_run": info.get("ops", {}).get("rewritten"),
                              "equivalence": "Sample/TypesGenEquiv.v: gen_ops_agree, gen_ops_agree_any_fuel (props: c15_gen_*)",
                              "impls_not_translated": info.get("ops", {}).get("unmodelled", [])},
        "evaluations": n, "cases": ncases, "distinct_nontrivial": nontriv,
        "rule": "per type and per profile (dev, release, relchk, dbgnochk): every pair of ~64 boundary values x {add, sub, mul} (as grid ops: model and harness hash their observations; the direct verdict reads them all; 48-bit mul without debug assertions: a sample, the model walks the wrap loop), random structured pairs, new/From<Rep> on in-range, near-range, multiples of TOTAL, Rep extremes and random Rep values, every widening From on the source's boundary values, negation of every boundary value, comparisons; thorough adds every i16 value through new/From for the 11-bit types and all 2048^2 pairs x 3 ops x 2 types x 4 profiles against the in-harness i128 oracle. non-trivial = distinct operation whose exact result (or constructor argument) is outside [MIN, MAX], i.e. the panic / wrap branch is taken",
        "samples": samples, "input_distribution": dist, "disagreements": bad,
        "explanation": "theorems: the model satisfies C15 for every row of the generated table (and for any well-formed row), and the model regenerated from the macro bodies at this run equals it on all inputs (c15_gen_*); tie: translators for the table and for the operation bodies, hand model run by coqc on the same operations as the real types in the four profiles, all observations compared exactly, plus a direct python/i128 verdict of the property on every observation",
    }
    return rep.finish("proof", cov, [
        "build configuration is the pair (debug-assertions, overflow-checks); other codegen options are assumed not to change integer semantics",
        "the model's cfg parameter is checked against the harness binary's actual cfg!(debug_assertions) and a runtime overflow-check probe",
        "U11 has a Neg impl although unsigned and I20 has none although signed: the negation theorems are stated for the rows with an impl"])


def replay(path):
    j = json.load(open(path))
    rows, terr, _ = regenerate()
    rows = rows or fallback_rows()
    ROWS[:] = rows
    it = build(j["case"])
    if TEST_TYPES:
        bins, _, blog = scratch_bins()
        binpath = bins[it["prof"]] if bins else None
    else:
        ok, blog, binpath = F.harness_build("c15", profile=it["prof"])
    rc, out, _ = F.run_bin(binpath, [it["line"]], args=("full",))
    _, model = F.coq_eval("c15", HEADER, f"run_case ({it['coq']})")
    da, oc = PROFILES[it["prof"]]
    print("case:", it["line"], f"(profile {it['prof']}: debug-assertions {'on' if da else 'off'}, overflow-checks {'on' if oc else 'off'})")
    print("implementation:", out)
    print("model:", model)
    o, bad, errs = F.correspond(binpath, [it], HEADER, CHECK, "c15_replay")
    vb = [verdict(rows[it["ty"]], da, op, ob) for op, ob in (flat_obs(it, out[0]) if out else [])]
    vb = [m for m in vb if m]
    for m in vb:
        print("verdict:", m)
    print("AGREE" if not bad and not errs and not vb else "DISAGREE")
    return 1 if bad or errs or vb else 0
