"""C05 — finite signals end exactly once: exhaustion is exact, contagious, then silent.
Proof: coq/props/C05.v over the same deep embedding as C04 plus the iterator side
(until_exhausted, take, into_interleaved_samples, lift).  Tie: correspondence on every tree shape
to depth 3 (and random depth 4), source lengths 0..17 incl. partial trailing frames."""
import framework as F
import sigcases as S

PROP = "C05"
META = dict(
    technique="Coq proof by structural induction over a deep embedding of adaptor trees and their iterators + coqc-evaluated model vs crate correspondence on every small tree shape",
    text="Machine-checked (Coq 8.16.1) over the same model as C04 extended with the iterator side: from_iter yields exactly the list then equilibrium forever and reports exhaustion exactly after the last frame was returned (the look-ahead slot is modelled as coded); from_interleaved_samples_iter yields the complete frames only; is_exhausted is forwarded by unary adaptors, OR-ed by binary ones, held back by a delay that still emits silence, and is monotone; until_exhausted yields exactly live_len frames (min over binary nodes, k + ... over delays) then None forever without pulling; take(n) yields exactly n; the interleaved iterator yields the concatenated channels of exactly those frames then None; lift over pointwise adaptors yields one mapped frame per input frame. Tied to the crate by running the model inside coqc on every tree shape to depth 3 and random shapes of depth 4 with source lengths 0..17, sampling is_exhausted before and after every next and calling 0..8 more times after the end. take(n) and delay(k) are also generated AT TYPE-WIDTH BOUNDARIES (2^w - 1 .. 2^w + 5 for w = 8, 15, 16, 24, 31, 32, 33, 53, 63, multiples of 2^32 plus a little, usize::MAX and neighbours): take(n) over a borrowed base must yield every requested item, report size_hint = len = what is left of n before every call (observed), and leave the base pulled exactly as often as it was called; a delay that outlasts the run keeps until_exhausted / the interleaved iterator / lift from ever ending and is_exhausted false. The executable take counts in Z (theorem c05_take_counter: one step = one step of the proved take_next on Z.to_nat n); delay lengths are clamped to the run's bound by the model itself (C04: c04_run_delay_normalisation_sound; c05_delay_beyond_run_live).",
    note="Trusted: Coq kernel; the hand-written model validated only through the correspondence; Flocq-based float instance validated against rustc in the same run; harness + python generators. Axioms: none.",
    design="6/C05")

RULE = ("every tree shape of depth <= 3 over {leaf, pointwise unary, delay, binary} with random node kinds, formats, source lengths 0..17 "
        "(sample sources also with a trailing partial frame), each driven by one of next-past-the-end / until_exhausted / take / "
        "into_interleaved_samples / lift / clone of the whole stack after j calls / clone, nth(k), skip(k) on the returned iterators, with 0..8 "
        "further calls after the end; random depth-4 shapes; by_ref sequences over one finite base; clone sweeps (interleaved-sample iterator, "
        "until_exhausted, take cloned after every number of items 0..=total+1, original and clone drained and compared with the model, in which "
        "a clone is the same state); the boundary-count family: for every value K of S.boundary_counts one case over a borrowed finite base with take(K) (size_hint / len observed before every call), the base read back, delay(K) over (almost) empty sources under N / until_exhausted / interleaved / lift, take(K') over delay(K), take(K) and until_exhausted / interleaved over delay(K) cloned / nth(k) / skip(k); non-trivial = tree of depth >= 2 containing a delay with k > 0 or a binary node whose sources have "
        "different lengths, or an interleaved-sample iterator cloned mid-frame (samples consumed not a multiple of the channel count, >= 2 channels)")

FMT_CYCLE = ["i16x2", "u8x3", "i32x1", "i16x2", "f64x1", "u8x3", "i32x1", "f32x2"]


def finite_leaf(g):
    return lambda: g.leaf(("iter", "iter", "iter", "samp", "samp", "iter", "samp", "gen", "genmut", "eq"))


def one_op(r, g, fm, mk_tree, kind, bases=()):
    """build one op of the given kind around a freshly made tree"""
    extra = r.below(9)
    if kind == "L":
        src = [g.frame() for _ in range(g.length())]
        state = {"done": False}
        base_leaf = finite_leaf(g)

        def leafgen():
            if not state["done"]:
                state["done"] = True
                return ["arg"]
            return base_leaf()
        t = mk_tree(leafgen)
        lv = S.live(t, fm, bases, len(src))
        cap = min(lv, 40) + extra + 1 if lv < S.INF else 12
        return ["L", g.fresh(), src, cap, extra, t]
    t = mk_tree(finite_leaf(g))
    lv = S.live(t, fm, bases)
    fin = min(lv, 45) if lv < S.INF else 10
    if kind == "N":
        return ["N", fin + extra, t]
    if kind == "NC":  # clone the whole stack after j calls
        j = r.choice([0, 1, fin, max(0, fin - 1), r.range(0, fin + 2)])
        return ["NC", j, max(0, fin - j) + min(extra, 4) + 1, t]
    if kind == "IT":  # iterator entry points: clone / nth / skip on the iterators the API returns
        ik = r.choice([0, 1, 2, 3])
        mode = r.choice([1, 1, 2, 3])
        n = r.choice([0, 1, fin, fin + 2, r.range(0, 20)]) if ik == 1 else 0
        total = (fin if ik == 0 else n if ik == 1 else fin * S.FMTS[fm]["n"])
        pre = r.choice([0, 1, total, r.range(0, total + 1), r.range(0, total + 1)])
        k = r.choice([0, 1, 2, r.range(0, total + 2)])
        return ["IT", ik, n, pre, mode, k, total + 2, min(extra, 3), t]
    if kind == "U":
        return ["U", fin + extra + 1, extra, t]
    if kind == "I":
        return ["I", fin * S.FMTS[fm]["n"] + extra + 1, extra, t]
    n = r.choice([0, 1, fin, fin + 2, r.range(0, 20)])
    return ["T", n, n + extra + 1, extra, t]


def count_cases(rng, tier):
    """for EVERY boundary value K one case over a borrowed finite base (the model receives the true K, see sigcases.py):
      T K cap e  ctx(ref 0)          take(K): `cap` items (the base's frames, then equilibrium), size_hint / len = K, K-1, ..
      N 2 ref 0                      the base has been pulled exactly `cap` times
      N m delay K (empty / short)    live: is_exhausted false before and after every call
      U / I  ctx(delay K finite)     until_exhausted / interleaved samples over a delay that outlasts the run: never None
      T K' (delay K ..), IT take(K) cloned / nth(k) / skip(k), IT until_exhausted / interleaved (clone, nth, skip) over delay K
      L lift(frames, |s| ctx(s.delay(K)))"""
    items = []
    ks = S.boundary_counts()
    reps = 1 if tier == "quick" else 6
    for rep_i in range(reps):
        for i, K in enumerate(ks):
            fm = S.COUNT_FMTS[(i + 3 * rep_i + 5) % len(S.COUNT_FMTS)]
            r = rng.fork(f"count_{rep_i}_{i}")
            for attempt in range(60):
                g = S.Gen(r, fm, maxlen=6)
                g.lens = [0, 1, 2, 3, 4, 5]
                fl = finite_leaf(g)
                base = ["iter", g.fresh(), [g.frame() for _ in range(r.choice([0, 1, 2, 4, 5]))]]
                if r.chance(1, 3):
                    base = g.unary(g.unary_kind(), base)
                other = r.choice([k2 for k2 in ks if k2 != K])
                short = lambda: r.choice([["iter", g.fresh(), [g.frame() for _ in range(r.choice([0, 0, 1, 3]))]], fl()])
                nch = S.FMTS[fm]["n"]
                cap = r.range(3, 5)
                ops = [["T", K, cap, r.below(2), S.count_ctx(g, ["ref", 0], r.choice([0, 0, 1]))],
                       ["N", 2, ["ref", 0]],
                       ["N", r.range(2, 3), ["delay", K, r.choice([["iter", g.fresh(), []], ["samp", g.fresh(), [g.sample() for _ in range(nch - 1)]]])]],
                       ["N", 2, ["delay", K, short()]],
                       ["U", r.range(3, 5), r.below(3), S.count_ctx(g, ["delay", K, short()], r.choice([0, 1, 2]))],
                       ["I", r.range(2, 4) * nch + r.below(nch), r.below(3), S.count_ctx(g, ["delay", K, short()], r.choice([0, 1]))],
                       ["T", other, r.range(2, 4), r.below(2), ["delay", K, ["ref", 0]]],
                       ["IT", 1, K, r.range(0, 2), r.choice([1, 2, 3]), r.range(0, 2), r.range(2, 4), r.below(2), S.count_ctx(g, short(), r.choice([0, 1]))],
                       ["IT", r.choice([0, 2, 3]), 0, r.range(0, 3), r.choice([1, 1, 2, 3]), r.range(0, 2), r.range(2, 4), r.below(2),
                        S.count_ctx(g, ["delay", K, short()], r.choice([0, 1]))]]
                src = [g.frame() for _ in range(r.choice([0, 1, 3]))]
                ops.append(["L", g.fresh(), src, r.range(3, 5), r.below(2), S.count_ctx(g, ["delay", K, ["arg"]], r.choice([0, 1]))])
                ops.append(["N", 3, ["ref", 0]])
                it = dict(fmt=fm, bases=[base], ops=ops)
                if S.valid(it) and sum(S.float_cost(S.op_tree(o), fm, [base]) for o in ops) <= 60:
                    items.append(S.count_item(fm, [base], ops, "count_boundary"))
                    break
            else:
                raise RuntimeError("no valid boundary-count case")
    return items, {"count_boundary_cases": len(items), "count_boundary_values": len(ks), "count_boundary_histogram": S.count_hist(items)}


def gen_cases(rng, tier):
    items = []
    reps = 2 if tier == "quick" else 12
    shapes = S.shapes(3)
    kinds = ["U", "N", "I", "L", "T", "IT", "NC", "U", "N", "IT"]
    idx = 0
    for rep_i in range(reps):
        for si, sh in enumerate(shapes):
            r = rng.fork(f"c05_shape_{rep_i}_{si}")
            fm = FMT_CYCLE[(idx) % len(FMT_CYCLE)]
            kind = kinds[(idx // 3) % len(kinds)]
            idx += 1
            for attempt in range(40):
                g = S.Gen(r, fm, wide=(attempt == 0 and r.chance(1, 8)))
                g.lens = list(range(0, 18))
                it = dict(fmt=fm, bases=[], ops=[one_op(r, g, fm, lambda lg: g.from_shape(sh, lg), kind)], shape=True)
                if S.valid(it):
                    items.append(S.build(it))
                    break
            else:
                raise RuntimeError("no valid case for shape")
    n_shape = len(items)
    # every other sample format (instances over the C03 sample model): random shapes of depth <= 3
    nall = 252 if tier == "quick" else 3500
    for k in range(nall):
        r = rng.fork(f"c05_all_{k}")
        fm = S.GEN_FMTS[k % len(S.GEN_FMTS)]
        for attempt in range(40):
            g = S.Gen(r, fm, wide=(attempt == 0 and r.chance(1, 6)))
            g.lens = list(range(0, 8))
            it = dict(fmt=fm, bases=[], ops=[one_op(r, g, fm, lambda lg: g.tree(3, lg, p_delay=5), r.choice(kinds))])
            if S.valid(it) and S.float_cost(S.op_tree(it["ops"][0]), fm) <= 60:
                items.append(S.build(it))
                break
    # random depth-4 shapes
    n4 = 200 if tier == "quick" else 4000
    for k in range(n4):
        r = rng.fork(f"c05_d4_{k}")
        fm = r.choice(["i16x2", "u8x3", "i32x1", "i16x2", "i32x1", "f64x1"])
        for attempt in range(40):
            g = S.Gen(r, fm)
            g.lens = list(range(0, 18))
            it = dict(fmt=fm, bases=[], ops=[one_op(r, g, fm, lambda lg: g.tree(4, lg, p_delay=4), r.choice(kinds))])
            if S.valid(it) and S.float_cost(S.op_tree(it["ops"][0]), fm) <= 40:
                items.append(S.build(it))
                break
    # by_ref sequences: adaptors over one finite base come and go, exhaustion is reached through them
    nseq = 200 if tier == "quick" else 3000
    for k in range(nseq):
        r = rng.fork(f"c05_seq_{k}")
        fm = r.choice(["i16x2", "u8x3", "i32x1", "f32x2"])
        for attempt in range(40):
            g = S.Gen(r, fm)
            g.lens = list(range(0, 18))
            base = g.tree(r.choice([0, 1, 1, 2]), finite_leaf(g), p_delay=4)
            ops = []
            for j in range(r.range(2, 5)):
                used = [False]

                def leafgen():
                    if not used[0]:
                        used[0] = True
                        return ["ref", 0]
                    return finite_leaf(g)()
                d = r.choice([0, 1, 2])
                kind = r.choice(["N", "U", "T", "I", "N"])
                extra = r.below(9)
                t = g.tree(d, leafgen, p_delay=3) if d else ["ref", 0]
                if kind == "N":
                    ops.append(["N", r.range(1, 10), t])
                elif kind == "U":
                    ops.append(["U", r.range(1, 25), extra, t])
                elif kind == "T":
                    ops.append(["T", r.range(0, 8), 12, r.below(3), t])
                else:
                    ops.append(["I", r.range(1, 30), extra, t])
            it = dict(fmt=fm, bases=[base], ops=ops)
            if S.valid(it):
                items.append(S.build(it))
                break
    # interleaved clone sweep: a clone taken after EVERY number k of samples in 0..=total+1 (mid-frame
    # included) continues exactly like the original; also until_exhausted / take clones at every position
    nsweep = 70 if tier == "quick" else 600
    n_sweep_ops = 0
    for k in range(nsweep):
        r = rng.fork(f"c05_sweep_{k}")
        fm = r.choice(["i16x2", "u8x3", "i16x2", "u8x3", "f32x2", "i32x1", "f64x1"])
        for attempt in range(40):
            g = S.Gen(r, fm)
            g.lens = list(range(0, 7))
            t = g.tree(r.choice([0, 1, 1, 2, 2]), finite_leaf(g), p_delay=3)
            lv = S.live(t, fm)
            if lv >= S.INF or lv > 8:
                continue
            nch = S.FMTS[fm]["n"]
            total = lv * nch
            ik = r.choice([2, 2, 3, 3, 0, 1]) if k % 5 else r.choice([0, 1])
            if ik in (2, 3):
                ops = [["IT", ik, 0, pre, 1, 0, total + 3, r.below(3), t] for pre in range(0, total + 2)]
            elif ik == 0:
                ops = [["IT", 0, 0, pre, 1, 0, lv + 3, r.below(3), t] for pre in range(0, lv + 2)]
            else:
                ops = [["IT", 1, lv + 1, pre, 1, 0, lv + 4, r.below(3), t] for pre in range(0, lv + 3)]
            it = dict(fmt=fm, bases=[], ops=ops)
            if S.valid(it) and S.float_cost(t, fm) * (lv + 2) * len(ops) * 3 <= 3000:
                items.append(S.build(it))
                n_sweep_ops += len(ops)
                break
    # counts at type-width boundaries: take(n) and delay(k) for every n, k of S.boundary_counts (2^8 .. 2^63, usize::MAX ...)
    cnt, cnt_dist = count_cases(rng.fork("c05_count_boundary"), tier)
    items += cnt
    lens = {}
    for it in items:
        for o in it["ops"]:
            for nd in S.nodes(S.op_tree(o), it["bases"]):
                if nd[0] == "iter":
                    key = f"iter_len:{len(nd[2])}"
                elif nd[0] == "samp":
                    n = S.FMTS[it["fmt"]]["n"]
                    key = f"samp_len:{len(nd[2]) // n}+{len(nd[2]) % n}/{n}"
                else:
                    continue
                lens[key] = lens.get(key, 0) + 1
    return items, {"exhaustive_shape_cases": n_shape, "shapes_depth_le_3": len(shapes), "draws_per_shape": reps,
                   "random_depth4_cases": n4, "all_sample_format_cases": nall, "by_ref_sequences": nseq, "clone_sweep_cases": nsweep,
                   "clone_sweep_ops": n_sweep_ops, "source_lengths": lens, **cnt_dist}


def main(rep, tier, seed):
    return S.run_check(rep, PROP, tier, seed, gen_cases, RULE,
                       "theorems: exhaustion laws for every adaptor tree, frame type, source content and number of further calls; tie: the model's executable instances run by coqc on the same trees as the real crate, every observation compared exactly",
                       "until_exhausted/interleaved collection is modelled with fuel; the theorems show the fuel suffices (frames have at least one channel)")


def replay(path):
    return S.replay(PROP, path)
