"""C16 — built-in graph nodes compute their documented mixing, routing and delay functions.
Proof: coq/props/C16.v (models of Sum, SumBuffers, Pass, Delay, the dyn-Signal node and GraphNode written
after the source; closed forms for every input count / buffers-per-input combination, any buffer length,
any number of consecutive calls; the delay theorem rests on C06's delay-line theorem).
Tie: the same Gallina definitions (Graph/NodesRun.v: f32 = Flocq for the summing nodes, raw bit patterns
for the routing nodes) are evaluated by coqc on the cases the real nodes are driven with through
`Node::process` (inputs built by the real Processor over a spy graph), outputs compared bit for bit."""
import json, os, struct
import framework as F
import floatbase

PROP = "C16"
META = dict(
    technique="Coq proof of closed forms for the node models + coqc-evaluated model vs real Node::process correspondence (bit-exact f32)",
    text="Machine-checked (Coq 8.16.1) closed forms for models of the dasp_graph nodes written after the source: Sum (per channel and sample, fold of `+` from 0.0 over the inputs that have the channel, in input order; silence without inputs), SumBuffers (every output = fold over all buffers of all inputs), Pass (first input's buffers onto the outputs, surplus outputs and the no-input case untouched), Delay (per channel the output stream over any number of calls = ring content then input stream; from C06's delay-line theorem), the dyn Signal node (successive frames de-interleaved, LEN frames per call, continuing across calls, min(CHANNELS, outputs) channels) and GraphNode (copy-in, inner processing, copy-out), for every input count, buffer count, buffer length and call count; no panic, no out-of-bounds unchecked access. GraphNode is composed with the C09 traversal model: its inner graph is a C09 multigraph of (node, buffers) weights processed by the loops of dasp_graph::process with the inner node type's own (possibly panicking) Node::process; proved: on ANY inner multigraph the call returns and is copy-in, C09 process, copy-out (c16_graph_node_is_c09); with an acyclic inner upstream subgraph of any shape the inner graph ends as C09's functional evaluation and the output is the evaluated output node's buffers (c16_graph_node_functional); the same for a graph node sitting in an outer graph run by the C09 model, its inputs being the final buffers of the outer feeders (c16_graph_node_composed); graph nodes nest to any depth, and the built-in nodes are an instance. The models are tied to the crate by running them inside coqc on the same cases as the real nodes under every wrapper type (Box, &mut, BoxedNode, BoxedNodeSend, dyn Fn, dyn FnMut, fn pointer, nested GraphNode over Graph and StableGraph, with star-shaped and with arbitrary inner graphs: chains, diamonds, fan-in with parallel edges and self-loops, feedback cycles through a Delay, random DAGs and cyclic graphs, nodes that do not feed the output node, StableGraph with removed nodes, two-level nesting, missing input/output nodes) and comparing all output buffers bit for bit, together with the number of Signal::next calls made so far (signals are instrumented), after every call of histories in which the node's buffer list (NodeData::buffers) is also taken away, restored and resized between calls (zero-buffer calls included).",
    note="Trusted: Coq kernel; the hand-written models (Buffer as list with a length hypothesis, float `+` as an abstract operation in the theorems and Flocq binary32 in the run); Processor::process on the inner graph of a GraphNode is the C09 model (petgraph's DfsPostOrder and adjacency order as modelled there; the star-shaped cases of the older executable model are kept beside the composed one); wrapper equivalence is established by correspondence only. Axioms: none except the Coq reals in the one theorem about real-number sums.",
    design="6/C16")
HEADER = "From Dasp Require Import Graph.NodesRunU. Require Import Uint63."
CHECK = "ucheck"
RUN_VO = "theories/Graph/NodesRunU.vo"
# the composed graph node (GraphNode over an arbitrary inner graph, processed by the C09 model)
HEADER_G = "From Dasp Require Import Graph.NodesRunU Graph.NodesRunGU. Require Import Uint63."
CHECK_G = "ugcheck"
RUN_G_VO = "theories/Graph/NodesRunGU.vo"
LEN = 64
QNAN = 0x7FC00000
WRAP_NAMES = {1: "Box", 2: "&mut", 3: "BoxedNode::new", 4: "BoxedNodeSend::new", 5: "dyn FnMut", 6: "dyn Fn", 7: "fn pointer"}

# ---------------------------------------------------------------------------
# values


def fb(x):
    return struct.unpack("<I", struct.pack("<f", x))[0]


def rand_f32(r, flavour):
    """flavour 'sum': values whose sums exercise rounding, cancellation, overflow, signed zeros, inf/NaN;
    'any': arbitrary bit patterns (only the canonical NaN)."""
    k = r.below(16)
    if flavour == "any" and k < 8:
        b = r.below(1 << 32)
    elif k == 0:
        b = 0
    elif k == 1:
        b = 0x80000000
    elif k == 2:
        b = fb(float(r.range(-9, 9)))
    elif k == 3:
        b = (r.below(2) << 31) | (254 << 23) | r.below(1 << 23)          # near f32::MAX: sums overflow
    elif k == 4:
        b = (r.below(2) << 31) | r.below(1 << 23)                        # subnormal
    elif k == 5:
        b = r.choice([0x7F800000, 0xFF800000, QNAN, 0x00800000, 0x7F7FFFFF, 0x3F800000, 0xBF800000, 0x33800000])
    elif k < 9:
        b = (r.below(2) << 31) | ((127 + r.range(-3, 3)) << 23) | (r.below(1 << 23) & ~((1 << r.below(23)) - 1))
    else:
        b = (r.below(2) << 31) | ((127 + r.range(-30, 30)) << 23) | r.below(1 << 23)
    if (b & 0x7F800000) == 0x7F800000 and (b & 0x7FFFFF):
        b = QNAN
    return b


def rand_buf(r, flavour):
    m = r.below(6)
    if m == 0:
        v = rand_f32(r, flavour)
        return [v] * LEN
    if m == 1:  # a ramp: position is visible in every sample
        base = r.below(1000)
        return [fb(float(base + i)) for i in range(LEN)]
    return [rand_f32(r, flavour) for _ in range(LEN)]


# ---------------------------------------------------------------------------
# node specs: python tuples -> harness tokens / Coq term


def spec_tokens(s):
    k = s[0]
    if k == "sum":
        return [1]
    if k == "sumb":
        return [2]
    if k == "pass":
        return [3]
    if k == "delay":
        t = [4, s[1], len(s[2])]
        for first, data in s[2]:
            t += [first, len(data)] + list(data)
        return t
    if k == "sig":
        ch, frames = s[1], s[2]
        t = [5, ch, len(frames)]
        for fr in frames:
            t += list(fr)
        return t
    if k == "graph":
        _, gkind, ins, ids, cfill, cw, core = s
        t = [6, gkind, len(ins)]
        for fills in ins:
            t += [len(fills)] + list(fills)
        t += [len(ids)] + list(ids) + [len(cfill)] + list(cfill) + [len(cw)] + list(cw) + spec_tokens(core)
        return t
    if k == "cgraph":
        _, gkind, nodes, edges, removed, ids, on = s
        t = [7, gkind, len(nodes)]
        for fills, wr, sp in nodes:
            t += [len(fills)] + list(fills) + [len(wr)] + list(wr) + spec_tokens(sp)
        t += [len(edges)] + [x for e in edges for x in e] + [len(removed)] + list(removed) + [len(ids)] + list(ids) + [on]
        return t
    raise ValueError(k)


def zl(xs):
    return "[" + ";".join(str(int(x)) for x in xs) + "]"


def u(term):
    """interpret the numerals of a term as primitive 63-bit integers"""
    return "(" + term + ")%uint63"


def zll(xss):
    return "[" + ";".join(zl(x) for x in xss) + "]"


def spec_coq(s):
    k = s[0]
    if k == "sum":
        return "USum"
    if k == "sumb":
        return "USumB"
    if k == "pass":
        return "UPass"
    if k == "delay":
        return "(UDelay [" + ";".join(f"({first},{zl(data)})" for first, data in s[2]) + "])"
    if k == "sig":
        return f"(USig {max(1, s[1])} {zll(s[2])})"
    if k == "graph":
        _, gkind, ins, ids, cfill, cw, core = s
        return f"(UGraph {zll(ins)} {zl(ids)} {zl(cfill)} {spec_coq(core)})"
    raise ValueError(k)


def spec_coq_g(s):
    """term of type ucnode (Graph/NodesRunGU.v)"""
    if s[0] == "cgraph":
        _, gkind, nodes, edges, removed, ids, on = s
        ns = ";".join(f"({spec_coq_g(sp)},{zl(fills)})" for fills, wr, sp in nodes)
        es = ";".join(f"({a},{b})" for a, b in edges)
        return f"(UCG [{ns}] [{es}] {zl(removed)} {zl(ids)} {on})"
    return f"(ULeaf {spec_coq(s)})"


def spec_kind(s):
    if s[0] == "cgraph":
        return "cgraph"
    return s[0] if s[0] != "graph" else "graph(" + spec_kind(s[6]) + ")"


def spec_float(s):
    if s[0] == "cgraph":
        return any(spec_float(sp) for _, _, sp in s[2])
    return s[0] in ("sum", "sumb") or (s[0] == "graph" and spec_float(s[6]))


def spec_stateful(s):
    if s[0] == "cgraph":
        return any(spec_stateful(sp) for _, _, sp in s[2])
    return s[0] in ("delay", "sig") or (s[0] == "graph" and spec_stateful(s[6]))


def spec_wrappers(s):
    if s[0] == "cgraph":
        return [w for _, wr, sp in s[2] for w in list(wr) + spec_wrappers(sp)]
    return list(s[5]) + spec_wrappers(s[6]) if s[0] == "graph" else []


def spec_has_cgraph(s):
    return s[0] == "cgraph" or (s[0] == "graph" and spec_has_cgraph(s[6]))


def build(item, ops=None):
    it = dict(item)
    if ops is not None:
        it["ops"] = ops
    calls = it["ops"]
    secs = [it["wrappers"], spec_tokens(it["spec"]), [len(it["out0"])] + [v for b in it["out0"] for v in b], it["shape"]]
    for op, arg, call in calls:
        secs.append([op, arg] + [v for inp in call for b in inp for v in b])
    it["line"] = " | ".join(" ".join(str(int(t)) for t in sec) for sec in secs)
    calls_coq = "[" + ";".join(f"(({op},{arg}),[" + ";".join(zll(inp) for inp in call) + "])" for op, arg, call in calls) + "]"
    if it["spec"][0] == "cgraph":
        it["coq"] = u(f"UGCase {spec_coq_g(it['spec'])} {zll(it['out0'])} {calls_coq}")
        it["checker"] = "g"
    else:
        it["coq"] = u(f"UCase {spec_coq(it['spec'])} {zll(it['out0'])} {calls_coq}")
        it["checker"] = "u"
    return it


def correspond(binpath, items, tag):
    """as F.correspond, with the observations written as primitive-integer literals"""
    rc, outl, err = F.run_bin_parallel(binpath, [it["line"] for it in items])
    if rc != 0 or len(outl) != len(items):
        return outl, [], [("harness", f"rc={rc} lines={len(outl)}/{len(items)} stderr={err[-1500:]}")]
    terms = []
    for it, o in zip(items, outl):
        if o.startswith("HARNESS-PANIC"):
            obs = [[4000000000] + [int(t) for t in o.split()[1:]]]
        else:
            try:
                obs = F.parse_obs_line(o)
            except ValueError:
                return outl, [], [("harness", f"unparsable observation line {o[:200]!r} for {it['line'][:200]!r}")]
        terms.append(f"({it['coq']}, {u(zll(obs))})")
    iu = [i for i, it in enumerate(items) if it.get("checker", "u") == "u"]
    ig = [i for i, it in enumerate(items) if it.get("checker", "u") == "g"]
    bad, cerrs = [], []
    if iu:
        b, e = F.coq_check_cases(tag, HEADER, CHECK, [terms[i] for i in iu])
        bad += [iu[k] for k in b]
        cerrs += e
    if ig:
        b, e = F.coq_check_cases(tag + "_g", HEADER_G, CHECK_G, [terms[i] for i in ig], per_file=40)
        bad += [ig[k] for k in b]
        cerrs += e
    return outl, sorted(bad), cerrs


# ---------------------------------------------------------------------------
# generation


def rand_wrappers(r, maxlen=3):
    n = r.choice([0, 1, 1, 1, 2, 2, 3][:maxlen + 4])
    return [r.range(1, 7) for _ in range(n)]


def rand_ring(r, ln, flavour="any"):
    return (r.below(ln), [rand_f32(r, flavour) for _ in range(ln)])


def rand_delay(r, nch=None):
    nr = r.range(0, 5) if nch is None else nch
    skind = r.below(4)
    if skind == 3:
        ln = r.choice([1, 2, 3, 5, 64, 100])
        lens = [ln] * nr
    else:
        lens = [r.choice([1, 1, 2, 3, 7, 31, 63, 64, 65, 100, 128, 150, r.range(1, 200)]) for _ in range(nr)]
    return ("delay", skind, [rand_ring(r, ln) for ln in lens])


def rand_sig(r, ncalls):
    ch = r.choice([0, 1, 2, 2, 3, 4, 6])
    # enough frames, or too few (exhaustion -> equilibrium) now and then
    nfr = ncalls * LEN if not r.chance(1, 5) else r.below(ncalls * LEN + 1)
    w = max(1, ch)
    mode = r.below(3)
    if mode == 0:  # frame index and channel readable from the value
        frames = [[fb(float(i * 8 + c)) for c in range(w)] for i in range(nfr)]
    else:
        frames = [[rand_f32(r, "any") for _ in range(w)] for _ in range(nfr)]
    return ("sig", ch, frames)


def rand_core(r, kind, ncalls, depth):
    if kind == "sum":
        return ("sum",)
    if kind == "sumb":
        return ("sumb",)
    if kind == "pass":
        return ("pass",)
    if kind == "delay":
        return rand_delay(r)
    if kind == "sig":
        return rand_sig(r, ncalls)
    return rand_graph(r, r.choice(["pass", "delay", "sig", "pass", "delay", "graph"] if depth < 2 else ["pass", "delay"]), ncalls, depth + 1)


def rand_graph(r, core_kind, ncalls, depth=1, small=False):
    k = r.range(0, 3 if small else 4)
    ins = [[rand_f32(r, "sum") for _ in range(r.range(0, 2 if small else 4))] for _ in range(k)]
    nids = r.range(0, k + 1)
    if r.chance(3, 4):
        ids = list(range(k))
        # a permutation / truncation / repetition of the in-nodes
        for i in range(len(ids) - 1, 0, -1):
            if r.chance(1, 3):
                j = r.below(i + 1)
                ids[i], ids[j] = ids[j], ids[i]
        ids = ids[:nids] if r.chance(1, 3) else ids
        if ids and r.chance(1, 8):
            ids.append(r.choice(ids))
    else:
        # also the core itself (id k); rarely a missing node (id > k): the `.expect` panic
        ids = [r.range(0, k + (1 if r.chance(1, 6) else 0)) for _ in range(nids)]
    cfill = [rand_f32(r, "sum") for _ in range(r.range(0, 2 if small else 4))]
    core = rand_core(r, core_kind, ncalls, depth)
    return ("graph", r.below(2), ins, ids, cfill, rand_wrappers(r, 2), core)


def rand_case(r, kind, tier):
    flavour = "sum" if kind in ("sum", "sumb", "gsum", "gsumb") else "any"
    ncalls = r.range(1, 6) if kind in ("delay", "sig", "gstate") else r.choice([1, 1, 1, 2, 3])
    if kind in ("sum", "sumb"):
        # keep the number of Flocq additions per case modest (64 per summed buffer)
        ninputs = r.choice([0, 1, 2, 2, 3, 3, 4, 5])
        cap = 6
        shape = []
        for _ in range(ninputs):
            nb = r.choice([0, 1, 1, 2, 2, 3, 4])
            nb = min(nb, max(0, cap - sum(shape))) if not r.chance(1, 10) else nb
            shape.append(nb)
        nout = r.choice([0, 1, 1, 2, 2, 3, 4])
        ncalls = r.choice([1, 1, 1, 2])
        spec = (kind,)
    elif kind in ("gsum", "gsumb"):
        ninputs = r.range(0, 3)
        shape = [r.range(0, 2) for _ in range(ninputs)]
        nout = r.range(0, 2)
        ncalls = r.choice([1, 1, 2])
        spec = rand_graph(r, kind[1:], ncalls, small=True)
    else:
        ninputs = r.range(0, 5)
        shape = [r.range(0, 4) for _ in range(ninputs)]
        nout = r.range(0, 4)
        if r.chance(1, 3) and ninputs:  # the documented use: matching counts
            shape = [nout] * ninputs
        if kind == "pass":
            spec = ("pass",)
        elif kind == "delay":
            spec = rand_delay(r, nch=(nout if r.chance(1, 2) else None))
        elif kind == "sig":
            spec = rand_sig(r, ncalls)
        elif kind == "gstate":
            spec = rand_graph(r, r.choice(["delay", "sig", "graph"]), ncalls)
        else:
            spec = rand_graph(r, r.choice(["pass", "pass", "graph"]), ncalls)
    out0 = [rand_buf(r, flavour) for _ in range(nout)]
    calls = [[0, 0, [[rand_buf(r, flavour) for _ in range(nb)] for nb in shape]] for _ in range(ncalls)]
    # the owner of the graph changes the node's buffer list between calls (NodeData::buffers is a pub Vec):
    # taken away for one call and put back, or resized (0 .. 5 buffers)
    if ncalls >= 2 and r.chance(2, 5):
        for c in calls[(0 if r.chance(1, 4) else 1):]:
            k = r.below(6)
            if k == 0:
                c[0] = 2
            elif k <= 2:
                c[0], c[1] = 1, r.choice([0, 0, 1, 2, 3, 4, 5])
    wrappers = rand_wrappers(r)
    return dict(kind=kind, wrappers=wrappers, spec=spec, out0=out0, shape=shape, ops=calls)


def sig_zero_case(r, pattern):
    """a signal node whose buffer list is empty during some calls (pattern: one op per call)"""
    ncalls = len(pattern)
    spec = rand_sig(r, ncalls)
    if r.chance(1, 3):
        spec = ("graph", r.below(2), [], [], [fb(0.0)] * r.range(0, 2), rand_wrappers(r, 2), spec)
    nout = r.range(1, 4) if pattern[0] != "zero" else 0
    out0 = [rand_buf(r, "any") for _ in range(nout)]
    calls = []
    for p in pattern:
        op = {"keep": [0, 0], "take": [2, 0], "zero": [0, 0]}.get(p) or [1, int(p)]
        calls.append(op + [[]])
    return dict(kind="sigzero", wrappers=rand_wrappers(r), spec=spec, out0=out0, shape=[], ops=calls)


SIG_ZERO_PATTERNS = [["keep", "take", "keep", "keep"], ["take", "keep"], ["keep", "0", "2", "keep"], ["zero", "zero", "2", "keep"],
                     ["keep", "take", "take", "keep"], ["keep", "0", "0", "3"], ["take", "take", "keep"], ["zero", "1"]]


def gen_cases(rng, tier):
    mix = {"sum": 170, "sumb": 110, "gsum": 40, "gsumb": 30, "pass": 330, "delay": 520, "sig": 420, "gstate": 220, "gpass": 180}
    if tier == "thorough":
        mix = {k: v * (5 if k in ("sum", "sumb", "gsum", "gsumb") else 8) for k, v in mix.items()}
    items = []
    # every wrapper code once around every base node kind, and the unwrapped concrete types
    for kind in ("sum", "sumb", "pass", "delay", "sig", "gpass", "gstate", "gsum"):
        for w in [[]] + [[c] for c in range(1, 8)]:
            r = rng.fork(f"wrap:{kind}:{w}")
            c = rand_case(r, kind, tier)
            c["wrappers"] = w
            items.append(build(c))
    for i in range(64 if tier == "quick" else 400):
        items.append(build(sig_zero_case(rng.fork(f"sigzero{i}"), SIG_ZERO_PATTERNS[i % len(SIG_ZERO_PATTERNS)])))
    for kind, n in mix.items():
        for i in range(n):
            items.append(build(rand_case(rng.fork(f"{kind}{i}"), kind, tier)))
    items += gen_cgraph_cases(rng, tier)
    return items


# ---------------------------------------------------------------------------
# GraphNode over arbitrary inner graphs (the composed model: C09 traversal inside the node)

CG_SHAPES = ["chain", "diamond", "fanin", "feedback", "dag", "cyclic", "nested", "unused", "removed"]


def cg_leaf(r, kind, ncalls):
    if kind == "sum":
        return ("sum",)
    if kind == "sumb":
        return ("sumb",)
    if kind == "pass":
        return ("pass",)
    if kind == "delay":
        nr = r.range(0, 3)
        return ("delay", r.below(3), [rand_ring(r, r.choice([1, 2, 3, 7, 63, 64, 65, 100])) for _ in range(nr)])
    if kind == "sig":
        ch = r.choice([1, 2, 2, 3])
        nfr = ncalls * LEN if not r.chance(1, 6) else r.below(ncalls * LEN + 1)
        return ("sig", ch, [[fb(float(i * 8 + c)) for c in range(ch)] for i in range(nfr)])
    raise ValueError(kind)


def cg_node(r, kind, ncalls, flavour, nb=None):
    nb = r.choice([0, 1, 1, 2, 2, 3]) if nb is None else nb
    fills = [rand_f32(r, flavour) for _ in range(nb)]
    wr = rand_wrappers(r, 1) if r.chance(1, 3) else []
    return (fills, wr, cg_leaf(r, kind, ncalls) if isinstance(kind, str) else kind)


def rand_cgraph(r, shape, use_float, ncalls, depth=1):
    """(spec, number of top-level inputs worth feeding)"""
    flavour = "sum" if use_float else "any"
    movers = ["pass", "pass", "delay", "delay", "sig"]
    mixers = (["sum", "sum", "sumb"] if use_float else ["pass", "delay"])
    gkind = r.below(2)
    removed = []
    nb = r.choice([None, None, 1, 2])       # None: every node picks its own buffer count (mismatches)
    if shape == "chain":
        L = r.range(2, 5)
        kinds = ["pass"] + [r.choice(movers[:4]) for _ in range(L - 1)]
        nodes = [cg_node(r, k, ncalls, flavour, nb) for k in kinds]
        order = list(range(L))
        edges = list(zip(order, order[1:]))
        if r.chance(1, 3):
            edges.reverse()                  # insertion order is irrelevant on a chain
        ids, on = [0], L - 1
    elif shape == "diamond":
        kinds = ["pass", r.choice(movers[:4]), r.choice(movers[:4]), r.choice(mixers)]
        nodes = [cg_node(r, k, ncalls, flavour, nb) for k in kinds]
        edges = [(0, 1), (0, 2), (1, 3), (2, 3)]
        if r.chance(1, 2):
            edges = [(0, 2), (2, 3), (0, 1), (1, 3)]
        ids, on = [0], 3
    elif shape == "fanin":
        k = r.range(1, 3)
        nodes = [cg_node(r, "pass", ncalls, flavour, nb) for _ in range(k)] + [cg_node(r, r.choice(mixers), ncalls, flavour, nb)]
        edges = []
        for a in range(k):
            edges.append((a, k))
            if r.chance(1, 2):
                edges.append((a, k))         # a parallel edge: the input is presented twice
        if r.chance(1, 3):
            edges.append((k, k))             # a self-loop: never presented
        for i in range(len(edges) - 1, 0, -1):
            j = r.below(i + 1)
            edges[i], edges[j] = edges[j], edges[i]
        ids, on = list(range(k)), k
    elif shape == "feedback":
        # in(0) -> mix(1) -> delay(2) -> mix(1): a cycle through a delay; out = mix or a node after it
        nodes = [cg_node(r, "pass", ncalls, flavour, nb), cg_node(r, r.choice(mixers), ncalls, flavour, nb),
                 cg_node(r, "delay", ncalls, flavour, nb)]
        edges = [(0, 1), (1, 2), (2, 1)]
        if r.chance(1, 2):
            edges = [(2, 1), (0, 1), (1, 2)]
        ids, on = [0], r.choice([1, 1, 2])
        if r.chance(1, 3):
            nodes.append(cg_node(r, "pass", ncalls, flavour, nb))
            edges.append((1, 3))
            on = 3
    elif shape in ("dag", "cyclic", "unused", "removed"):
        n = r.range(2, 6)
        nodes = [cg_node(r, r.choice(movers + (mixers if use_float and i % 2 else [])), ncalls, flavour, nb) for i in range(n)]
        edges = []
        for _ in range(r.range(1, 2 * n)):
            a, b = r.below(n), r.below(n)
            if shape != "cyclic":
                if a == b:
                    continue
                a, b = min(a, b), max(a, b)
            edges.append((a, b))
        ids = [r.below(n) for _ in range(r.range(0, 3))]
        on = n - 1 if shape != "cyclic" else r.below(n)
        if shape == "unused":                # nodes that do not feed the output node, one of them an input node
            nodes.append(cg_node(r, r.choice(movers), ncalls, flavour, nb))
            edges.append((on, n))
            ids.append(n)
        if shape == "removed":
            gkind = 1
            victims = [x for x in range(n) if x != on]
            removed = [r.choice(victims)] if victims else []
            ids = [x for x in ids if x not in removed] + ([removed[0]] if removed and r.chance(1, 8) else [])
    elif shape == "nested":
        inner, _ = rand_cgraph(r, r.choice(["chain", "diamond", "fanin", "feedback"]), use_float, ncalls, depth + 1)
        nodes = [cg_node(r, "pass", ncalls, flavour, nb), cg_node(r, inner, ncalls, flavour, nb),
                 cg_node(r, r.choice(mixers), ncalls, flavour, nb)]
        edges = [(0, 1), (1, 2)] + ([(0, 2)] if r.chance(1, 2) else [])
        ids, on = [0], 2
    else:
        raise ValueError(shape)
    if r.chance(1, 25):
        ids = ids + [len(nodes) + 1]         # a missing input node: the `.expect` panic (when an input is zipped with it)
    if r.chance(1, 40):
        on = len(nodes)                      # a missing output node
    return ("cgraph", gkind, nodes, edges, removed, ids, on), len(ids)


def cgraph_case(r, shape, use_float, tier):
    ncalls = r.choice([1, 2, 2, 3]) if not use_float else r.choice([1, 1, 2])
    spec, nids = rand_cgraph(r, shape, use_float, ncalls)
    flavour = "sum" if use_float else "any"
    ninputs = max(0, nids + r.choice([0, 0, 0, -1, 1]))
    shape_in = [r.choice([0, 1, 1, 2]) if use_float else r.range(0, 3) for _ in range(ninputs)]
    nout = r.choice([0, 1, 1, 2]) if use_float else r.choice([0, 1, 1, 2, 2, 3])
    out0 = [rand_buf(r, flavour) for _ in range(nout)]
    calls = [[0, 0, [[rand_buf(r, flavour) for _ in range(nbf)] for nbf in shape_in]] for _ in range(ncalls)]
    if ncalls >= 2 and r.chance(1, 5):
        c = calls[-1]
        c[0], c[1] = r.choice([(2, 0), (1, r.range(0, 3))])
    return dict(kind="cg:" + shape + (":f32" if use_float else ""), wrappers=rand_wrappers(r, 2) if r.chance(1, 2) else [],
                spec=spec, out0=out0, shape=shape_in, ops=calls)


def gen_cgraph_cases(rng, tier):
    items = []
    nz, nf = (48, 14) if tier == "quick" else (220, 50)
    for shape in CG_SHAPES:
        for i in range(nz):
            items.append(build(cgraph_case(rng.fork(f"cg:{shape}:{i}"), shape, False, tier)))
        for i in range(nf):
            items.append(build(cgraph_case(rng.fork(f"cgf:{shape}:{i}"), shape, True, tier)))
    return items


def nontrivial(it):
    """a state- or shape-dependent branch is exercised: buffer counts that do not all match (zip truncation,
    missing channels, surplus outputs), at least two inputs (order of summation / choice of the input),
    or at least two consecutive calls of a stateful node (ring / signal position carried over)."""
    if it["spec"][0] == "cgraph":
        return len(it["spec"][2]) >= 2
    nout = len(it["out0"])
    mismatched = any(nb != nout for nb in it["shape"])
    if it["spec"][0] == "delay":
        mismatched = mismatched or len(it["spec"][2]) != nout
    return mismatched or len(it["shape"]) >= 2 or (spec_stateful(it["spec"]) and len(it["ops"]) >= 2) or buffer_ops(it)


def buffer_ops(it):
    return [c[0] for c in it["ops"] if c[0] != 0]


def load_corpus():
    d = os.path.join(F.VERIF, "corpus", PROP)
    items = []
    if os.path.isdir(d):
        for fn in sorted(os.listdir(d)):
            if fn.endswith(".json"):
                c = json.load(open(os.path.join(d, fn)))
                c["spec"] = tuplify(c["spec"])
                items.append(build(c))
    return items


def case_json(it):
    return {k: it[k] for k in ("kind", "wrappers", "spec", "out0", "shape", "ops")}


def shrink(it, binpath):
    def fails(c):
        o, b, e = correspond(binpath, [c], "c16_shrink")
        return bool(b) and not e

    small = F.shrink_ops(it, build, fails, max_steps=12) if len(it["ops"]) > 1 else it
    if small["wrappers"]:
        cand = build(dict(small, wrappers=[]))
        if fails(cand):
            small = cand
    return small


def model_eval(it):
    if it.get("checker") == "g":
        return F.coq_eval("c16", HEADER_G, f"urun_gcase ({it['coq']})")
    return F.coq_eval("c16", HEADER, f"urun_case ({it['coq']})")


def main(rep, tier, seed):
    rng = F.Rng(seed)
    info = F.standard_proof_phase(rep, PROP, allowed_axioms=F.AX_REALS)
    rok, rlog = F.coq_make([RUN_VO, RUN_G_VO])   # the executable interfaces are not in the closure of props/C16.vo
    if not rok:
        rep.violation("model_build", {"kind": "the executable model does not compile", "target": RUN_VO, "log_tail": rlog[-4000:]}, no_input=True)
        return finish(rep, info, [], [], {}, {})
    ok, blog, binpath = F.harness_build("c16")
    if not ok:
        rep.violation("harness_build", {"kind": "harness does not build against /repo", "log": blog[-4000:]}, no_input=True)
        return finish(rep, info, [], [], {}, {})
    fb_n, fb_bad, fb_err = floatbase.run(rng.fork("floatbase"))
    for c, o in fb_bad[:3]:
        rep.violation("floatbase", {"kind": "Base/Float.v disagrees with rustc on an IEEE operation", "case": c, "rustc": o}, no_input=True)
    for name, msg in fb_err:
        rep.violation("floatbase_error", {"kind": "float base check could not be evaluated", "where": name, "log": msg}, no_input=True)
    corpus = load_corpus()
    items = corpus + gen_cases(rng, tier)
    outl, bad, errors = correspond(binpath, items, "c16")
    rep.extra["build_profiles"] = F.profile_phase(rep, "c16", items, outl, profiles=("release",)) if not errors and len(outl) == len(items) else {}
    for name, msg in errors:
        rep.violation("correspondence_error_" + name.replace("/", "_"), {"kind": "correspondence could not be evaluated", "where": name, "log": msg}, no_input=True)
    for idx in bad[:3]:
        small = shrink(items[idx], binpath)
        rc, out, _ = F.run_bin(binpath, [small["line"]])
        _, model = model_eval(small)
        rep.violation(f"case{idx}", {
            "kind": "model/implementation disagreement: a dasp_graph node does not compute what the proved model computes",
            "node": spec_kind(small["spec"]), "wrappers": [WRAP_NAMES[w] for w in small["wrappers"]],
            "case": case_json(small), "harness_line": small["line"][:20000],
            "implementation_observations": [o[:6000] for o in out], "model_observations": model[-6000:],
            "original_case_index": idx, "replay": "./check.py C16 --replay <this file>"})
    fbinfo = {"cases": fb_n, "disagreements": len(fb_bad), "errors": len(fb_err)}
    return finish(rep, info, items, outl if not errors else [], fbinfo, {"corpus": len(corpus)}, bad)


def finish(rep, info, items, outl, fbinfo, extra, bad=()):
    th = info.get("theorems", [])
    hist = {"node": {}, "wrapper": {}, "inputs": {}, "buffers_per_input": {}, "outputs": {}, "calls": {}, "delay_ring_len": {},
            "signal_channels": {}, "buffer_list_ops": {}, "inner_graph_shape": {}, "inner_graph_container": {}}

    def bump(h, k):
        hist[h][str(k)] = hist[h].get(str(k), 0) + 1

    panics = 0
    for it, o in zip(items, outl):
        bump("node", spec_kind(it["spec"]))
        ws = it["wrappers"] + spec_wrappers(it["spec"])
        for w in ws:
            bump("wrapper", WRAP_NAMES[w])
        if not it["wrappers"]:
            bump("wrapper", "none (concrete type)")
        bump("inputs", len(it["shape"]))
        for nb in it["shape"]:
            bump("buffers_per_input", nb)
        bump("outputs", len(it["out0"]))
        bump("calls", len(it["ops"]))
        for c in it["ops"]:
            bump("buffer_list_ops", {0: "keep", 1: "resize", 2: "take+restore"}[c[0]])
        if buffer_ops(it):
            bump("buffer_list_ops", "cases_with_a_change")
        if any(c[0] == 2 or (c[0] == 1 and c[1] == 0) for c in it["ops"]) or not it["out0"]:
            bump("buffer_list_ops", "cases_with_a_zero_buffer_call")
        s = it["spec"]
        if s[0] == "cgraph":
            bump("inner_graph_shape", it["kind"])
            bump("inner_graph_container", "StableGraph" if s[1] else "Graph")
        while s[0] == "graph":
            s = s[6]
        if s[0] == "delay":
            for _, d in s[2]:
                bump("delay_ring_len", "<64" if len(d) < 64 else ("64" if len(d) == 64 else ">64"))
        if s[0] == "sig":
            bump("signal_channels", s[1])
        if o.split(";")[-1].startswith("8"):
            panics += 1
    nontriv = len({it["line"] for it in items if nontrivial(it)}) if outl else 0
    nfloat = sum(1 for it in items if spec_float(it["spec"])) if outl else 0
    dist = dict(hist, float_cases=nfloat, expect_panic_cases=panics, floatbase=fbinfo, **extra)
    samples = [items[i]["line"][:400] for i in (0, len(items) // 2, len(items) - 1)] if items else []
    cov = {
        "obligations": max(1, len(th)), "discharged": len(th) if info.get("coq_ok") else 0,
        "checker_cmd": "make -f Makefile.coq props/C16.vo (coqc 8.16.1, full .vo) + Print Assumptions audit",
        "trusted_base": F.TRUSTED_COMMON + [
            "axioms: none, except c16_sum_real (the sum over Coq's reals: ClassicalDedekindReals / functional extensionality of the standard library)",
            "modelled, not verified: Buffer as a list with a length hypothesis; f32 `+` abstract in the theorems, Flocq binary32 (validated against rustc by floatbase) in the run; Signal::next as a state-passing function; Processor::process on a GraphNode's inner graph = the C09 model of petgraph's DfsPostOrder/adjacency order (composed theorems and the `cg:` cases), abstract in c16_graph_node and a star-shaped instance in the older cases; wrappers are the identity in the model (their equivalence is tested, not proved)"],
        "theorems": th, "axioms_reported": info.get("axioms", []),
        "evaluations": len(outl), "distinct_nontrivial": nontriv,
        "rule": "non-trivial = buffer counts that do not all match the output count (zip truncation / missing channel / surplus output), or >= 2 inputs, or >= 2 consecutive calls of a stateful node (delay, signal, graph around them), or the node's buffer list is changed between calls (taken away and restored, resized), or a GraphNode over an inner graph of >= 2 nodes processed by the C09 traversal (kinds cg:*)",
        "samples": samples, "input_distribution": dist, "disagreements": len(bad),
        "explanation": "theorems: closed forms of every node's process for all input/buffer/call counts; tie: the model's executable definitions run by coqc on the same cases as the real nodes (all wrapper types), every output buffer after every call compared bit for bit (f32 sums in the code's order)",
    }
    return rep.finish("proof", cov, ["Buffer modelled as a list of LEN samples; usize as nat",
                                    "the inputs a node sees are built by the real Processor over a spy graph and asserted to be the intended ones",
                                    "NaN payloads are not compared (one canonical NaN)"])


def replay(path):
    j = json.load(open(path))
    c = j["case"]
    c["spec"] = tuplify(c["spec"])
    it = build(c)
    F.coq_make([RUN_VO, RUN_G_VO])
    ok, blog, binpath = F.harness_build("c16")
    rc, out, _ = F.run_bin(binpath, [it["line"]])
    _, model = model_eval(it)
    print("case:", it["line"][:2000])
    print("implementation:", [o[:3000] for o in out])
    print("model:", model[-3000:])
    o, bad, errs = correspond(binpath, [it], "c16_replay")
    print("AGREE" if not bad and not errs else "DISAGREE")
    return 1 if bad or errs else 0


def tuplify(s):
    """specs come back from JSON as nested lists"""
    if s[0] == "graph":
        return ("graph", s[1], s[2], s[3], s[4], s[5], tuplify(s[6]))
    if s[0] == "cgraph":
        return ("cgraph", s[1], [(n[0], n[1], tuplify(n[2])) for n in s[2]], [tuple(e) for e in s[3]], s[4], s[5], s[6])
    if s[0] == "delay":
        return ("delay", s[1], [tuple(x) for x in s[2]])
    return tuple(s)
