"""C06 — ring buffers are FIFO queues / delay lines.
Proof: coq/props/C06.v (refinement of the Bounded/Fixed models to ideal queue / delay line,
every capacity, every valid state, every history).  Tie: correspondence between the model's
executable definitions (Ring/RingRun.v, evaluated by coqc) and dasp_ring_buffer on the same
operation sequences from arbitrary valid (and invalid) raw states."""
import json, os
import framework as F

PROP = "C06"
META = dict(
    technique="Coq refinement proof (model -> ideal bounded queue / delay line) + coqc-evaluated model vs crate correspondence",
    text="Machine-checked (Coq 8.16.1) refinement of a model of Bounded/Fixed, written after the source with the same index arithmetic, to an ideal capacity-bounded queue and an ideal delay line: every operation from every valid (start,len)/first state of every capacity, hence every history; no UB, no unprescribed panic. The model is tied to the crate by running its executable definitions inside coqc on the same operation sequences (every raw state of small capacities x every operation, random histories) and comparing all observations exactly.",
    note="Trusted: Coq kernel; the hand-written model (Rust slices as lists, usize as nat, mem::replace/ptr::read/write as list updates) validated only through the correspondence; harness + python generators. Axioms: none.",
    design="6/C06")
HEADER = "From Dasp Require Import Ring.RingRun."
CHECK = "check"

B_OPS = ["push", "pop", "get", "set", "idx", "idxset", "slices", "slicesmut", "iter", "map", "mapslices",
         "drain", "drainlen", "extend", "len", "empty", "full", "maxlen", "drainnth", "drainskip", "iternth", "iterrev", "iterlast"]
F_OPS = ["push", "get", "idx", "set", "idxset", "setfirst", "slices", "slicesmut", "iter", "iterloop", "map",
         "extend", "len"]


def coq_op(o):
    k, a = o[0], o[1:]
    z = F.zlit
    return {
        "push": lambda: f"ZPush {z(a[0])}", "pop": lambda: "ZPop", "get": lambda: f"ZGet {z(a[0])}",
        "set": lambda: f"ZSet {z(a[0])} {z(a[1])}", "idx": lambda: f"ZIdx {z(a[0])}",
        "idxset": lambda: f"ZIdxSet {z(a[0])} {z(a[1])}", "slices": lambda: "ZSlices", "slicesmut": lambda: "ZSlices",
        "iter": lambda: "ZIter", "map": lambda: f"ZMap {z(a[0])}", "mapslices": lambda: f"ZMap {z(a[0])}",
        "drain": lambda: f"ZDrain {z(a[0])}", "drainlen": lambda: "ZDrainLen",
        "extend": lambda: f"ZExtend {F.zlist(a)}", "len": lambda: "ZLen", "empty": lambda: "ZEmpty",
        "full": lambda: "ZFull", "maxlen": lambda: "ZMaxLen", "setfirst": lambda: f"ZSetFirst {z(a[0])}",
        "iterloop": lambda: f"ZIterLoop {z(a[0])}",
        "drainnth": lambda: f"ZDrainNth {z(a[0])}", "drainskip": lambda: f"ZDrainNth {z(a[0])}",
        "iternth": lambda: f"ZIterNth {z(a[0])}", "iterrev": lambda: "ZIterRev", "iterlast": lambda: "ZIterLast",
    }[k]()


INDEX_OPS = ("get", "set", "idx", "idxset", "setfirst")


def wire(o):
    """harness line form of one op: the harness parses i64 and casts the index `as usize`, so an index at or above
    2^63 travels as its two's-complement negative (usize::MAX = -1); the Coq side receives the true value"""
    if o[0] in INDEX_OPS and o[1] >= 2 ** 63:
        return [o[0], o[1] - 2 ** 64] + list(o[2:])
    return o


def build(item, ops=None):
    it = dict(item)
    if ops is not None:
        it["ops"] = ops
    ops_txt = " , ".join(" ".join(str(t) for t in wire(o)) for o in it["ops"])
    ops_coq = "[" + "; ".join(coq_op(o) for o in it["ops"]) + "]"
    if it["kind"] == "B":
        it["line"] = f"B {it['store']} {it['start']} {it['len']} {' '.join(map(str, it['data']))} ; {ops_txt}"
        it["coq"] = f"BCase {F.zlit(it['start'])} {F.zlit(it['len'])} {F.zlist(it['data'])} {ops_coq}"
    else:
        it["line"] = f"F {it['store']} {it['first']} {' '.join(map(str, it['data']))} ; {ops_txt}"
        it["coq"] = f"FCase {F.zlit(it['first'])} {F.zlist(it['data'])} {ops_coq}"
    return it


def rand_op(rng, kind, cap, fresh):
    name = rng.choice(B_OPS if kind == "B" else F_OPS)
    idx = lambda: rng.choice([0, 1, max(0, cap - 1), cap, cap + 1, rng.below(2 * cap + 2), rng.below(cap + 1),
                              rng.below(2 * cap + 2), rng.below(cap + 1), 2 ** 64 - 1 - rng.below(2 * cap + 2)])
    if name in ("push",):
        return [name, fresh()]
    if name in ("get", "idx", "setfirst"):
        return [name, idx()]
    if name in ("set", "idxset"):
        return [name, idx(), fresh()]
    if name in ("map", "mapslices"):
        return [name, rng.range(1, 9) * 1000000]
    if name in ("drain", "iterloop"):
        return [name, rng.below(2 * cap + 3)]
    if name in ("drainnth", "drainskip", "iternth"):
        return [name, rng.below(cap + 2)]
    if name == "extend":
        return [name] + [fresh() for _ in range(rng.below(cap + 3))]
    return [name]


# S-C12 (round 3): capacities with every residue structure an index shortcut could depend on (1, 2, powers of two
# and their neighbours, even non-powers of two, odd composites, primes) -- `& (cap - 1)` for `% cap` is right for
# powers of two only, a single conditional subtraction only for one wrap, ...
CAPSET = (1, 2, 3, 4, 5, 6, 7, 8, 9, 10, 12, 15, 16, 17, 24, 31, 32, 33, 48, 63, 64, 65, 96, 100, 127, 128, 129,
          255, 256, 257)


N_CAPWRAP = [0]


def capwrap_cases(fresh):
    """deterministic: every capacity of CAPSET x fill levels (every level up to capacity 10; corner levels
    0,1,2,3,cap/2,cap-2,cap-1,cap up to 65; 0,1,cap/2,cap-1,cap above) held while 2 cap + 3 items pass through, so
    start and start + len wrap at least twice; reads at the corner indices on the way and when start == cap - 1.
    Bounded: push+pop below capacity (the not-full path; above capacity 65 every other stretch of 8 items goes through
    extend + drain in blocks of 4), evicting pushes at capacity.  Fixed: 2 cap + 3 pushes from (corner) `first`
    indices, reads at indices up to 2 cap (they wrap)."""
    def corners(cap, top, level=0):
        if cap <= 10:
            return list(range(top + 1))
        c = ({0, 1, 2, 3, cap // 2, cap - 2, cap - 1, cap}, {0, 1, cap // 2, cap - 1, cap}, {0, cap // 2, cap - 1})[level]
        return sorted(v for v in c if v <= top)
    out, k = [], 0
    for cap in CAPSET:
        data = [fresh() for _ in range(cap)]
        rounds = 2 * cap + 3
        every = max(1, rounds // 5)
        big = cap > 65
        starts = corners(cap, cap - 1)
        for fill in corners(cap, cap, 1 if big else 0):
            cur = starts[k % len(starts)]
            reads = [[("get", "idx")[(k + i) % 2], i] for i in corners(cap, cap) if i < fill or i == fill == 0]
            ops, r, nread, swept = [], 0, 0, False
            while r < rounds:
                if big and (r // 8) % 2 == 1 and fill + 4 <= cap:
                    m = min(4, rounds - r)
                    ops += [["extend"] + [fresh() for _ in range(m)], ["drain", m]]
                else:
                    m = 1
                    ops += [["push", fresh()]] if fill == cap else [["push", fresh()], ["pop"]]
                r += m
                cur = (cur + m) % cap
                if r >= (nread + 1) * every:
                    ops += reads[nread % 2::2] + [[("slices", "slicesmut", "len", "full")[nread % 4]]]
                    nread += 1
                if not swept and cur >= cap - min(cap, 4):      # the live region is about to pass the end of the storage
                    ops += reads + [["slices"]]
                    swept = True
            ops += [["iter"], ["extend"] + [fresh() for _ in range(min(cap, 5) + 2)], ["slices"], ["drain", fill // 2],
                    ["push", fresh()], ["iter"], ["drainlen"]]
            out.append(build(dict(kind="B", store=k % 5, start=starts[k % len(starts)], len=fill, data=data, ops=ops)))
            k += 1
        for first in corners(cap, cap - 1, 2 if big else (1 if cap > 10 else 0)):
            reads = [[("get", "idx")[(k + i) % 2], i] for i in sorted(set(corners(cap, cap) + [cap + 1, 2 * cap - 1, 2 * cap]))]
            ops = []
            for r in range(rounds):
                ops.append(["push", fresh()])
                if r % every == every - 1:
                    ops += reads[(r // every) % 2::2] + [[("slices", "iter", "len", "slicesmut")[(r // every) % 4]]]
            ops += [["iter"], ["iterloop", 2 * min(cap, 20) + 1], ["setfirst", (first + cap // 2) % cap], ["push", fresh()], ["iter"]]
            out.append(build(dict(kind="F", store=k % 5, first=first, data=data, ops=ops)))
            k += 1
    return out


def gen_cases(rng, tier):
    items = []
    counter = [100]

    def fresh():
        counter[0] += 1
        return counter[0]

    # 0. every capacity of CAPSET, every (corner) fill level / first index, indices wrapping at least twice
    items += capwrap_cases(fresh)
    N_CAPWRAP[0] = len(items)

    # 1. exhaustive one/two-step from every raw state (valid and just-invalid) of capacities 0..CAP
    CAP = 6 if tier == "quick" else 8
    store = 0
    for cap in range(0, CAP + 1):
        data = [10 * (i + 1) for i in range(cap)]
        for start in range(0, cap + 2):
            for ln in range(0, cap + 2):
                ops = []
                for name in B_OPS:
                    if name in ("get", "idx", "iternth"):
                        ops += [[name, i] for i in range(0, cap + 2)]
                    elif name in ("set", "idxset"):
                        continue
                    elif name == "push":
                        continue
                    elif name in ("map", "mapslices", "drain", "extend", "pop", "drainnth", "drainskip"):
                        continue
                    else:
                        ops.append([name])
                # read-only sweep, then each mutating op followed by full observation
                items.append(build(dict(kind="B", store=store % 5, start=start, len=ln, data=data, ops=ops)))
                store += 1
                obs_all = [["iter"], ["slices"], ["len"], ["full"], ["empty"]] + [["get", i] for i in range(cap + 1)]
                muts = [["push", 7], ["pop"], ["map", 1000000], ["mapslices", 2000000], ["extend", 1, 2, 3],
                        ["extend"] + list(range(1, cap + 3)), ["drainlen"]]
                muts += [["drain", k] for k in range(0, cap + 2)]
                muts += [["drainnth", k] for k in range(0, cap + 1)] + [["drainskip", k] for k in range(0, cap + 1)]
                muts += [["iternth", k] for k in range(0, cap + 1)] + [["iterrev"], ["iterlast"]]
                muts += [["set", i, 99] for i in range(0, cap + 2)] + [["idxset", i, 98] for i in range(0, cap + 2)]
                for m in muts:
                    items.append(build(dict(kind="B", store=store % 5, start=start, len=ln, data=data,
                                            ops=[m] + obs_all)))
                    store += 1
        for first in range(0, cap + 2):
            obs_all = [["iter"], ["slices"], ["len"], ["iterloop", 2 * cap + 1]] + [["get", i] for i in range(2 * cap + 1)]
            muts = [["push", 7], ["setfirst", cap], ["map", 1000000], ["extend"] + list(range(1, cap + 3)), ["slicesmut"]]
            muts += [["setfirst", i] for i in range(0, 2 * cap + 2)]
            muts += [["set", i, 99] for i in range(0, 2 * cap + 1)] + [["idxset", i, 98] for i in range(0, cap + 1)]
            muts += [["idx", i] for i in range(0, 2 * cap + 1)]
            for m in muts:
                items.append(build(dict(kind="F", store=store % 5, first=first, data=data, ops=[m] + obs_all)))
                store += 1
    # 1b. the safe constructors: FromIterator / From give an empty buffer over the collected storage
    #     (start 0, len 0), from_full a full one (start 0, len n); Fixed: first 0.  cap 0 must panic.
    obs_all = [["iter"], ["slices"], ["len"], ["full"], ["empty"], ["maxlen"], ["push", 7], ["push", 8], ["iter"], ["pop"], ["len"]]
    for cap in range(0, 6):
        data = [10 * (i + 1) for i in range(cap)]
        for kind, (st, ln) in ((5, (0, 0)), (6, (0, cap)), (7, (0, 0)), (8, (0, 0))):
            items.append(build(dict(kind="B", store=kind, start=st, len=ln, data=data, ops=obs_all)))
        for kind in (5, 6, 7):
            items.append(build(dict(kind="F", store=kind, first=0, data=data,
                                    ops=[["len"], ["iter"], ["push", 7], ["get", 0], ["iter"], ["slices"]])))
    # 1c. indices up to usize::MAX from every valid state (defect F9: `first + index` overflowed in Fixed::get;
    #     Bounded must answer None / panic "index out of range" without computing start + index)
    U = 2 ** 64
    for cap in range(1, 6):
        data = [10 * (i + 1) for i in range(cap)]
        huge = sorted({U - 1 - j for j in range(0, 2 * cap + 2)} | {2 ** 63 - 1, 2 ** 63, 2 ** 63 + 1, 2 ** 32, 2 ** 62 + cap}
                      | {U - cap * k for k in (1, 2, 3)})
        for first in range(0, cap):
            for chunk in (huge[:len(huge) // 2], huge[len(huge) // 2:]):
                ops = [["get", i] for i in chunk] + [["idx", i] for i in chunk[:4]]
                ops += [["set", chunk[0], 91], ["iter"], ["idxset", chunk[-1], 92], ["iter"], ["setfirst", chunk[1]], ["iter"],
                        ["get", chunk[2]]]
                items.append(build(dict(kind="F", store=store % 5, first=first, data=data, ops=ops)))
                store += 1
        for start in range(0, cap):
            for ln in range(0, cap + 1):
                for i in huge[-3:] + [2 ** 63, 2 ** 32]:
                    for m in (["get", i], ["set", i, 93], ["idx", i], ["idxset", i, 94]):
                        items.append(build(dict(kind="B", store=store % 5, start=start, len=ln, data=data,
                                                ops=[m, ["iter"], ["len"]])))
                        store += 1
    n_exh = len(items)
    # 2. random histories from random raw states
    n_rand = 1300 if tier == "quick" else 30000
    for k in range(n_rand):
        r = rng.fork(f"hist{k}")
        kind = "B" if r.chance(3, 5) else "F"
        cap = r.choice([1, 1, 2, 2, 3, 3, 4, 5, 6, 7, 8, 9, 13, 16, 31, 64, 10, 12, 15, 24, 48])
        if tier == "thorough" and r.chance(1, 20):
            cap = r.range(65, 300)
        data = [fresh() for _ in range(cap)]
        nops = r.choice([3, 8, 20, 40, 40, 80, 200 if tier == "thorough" else 100])
        ops = [rand_op(r, kind, cap, fresh) for _ in range(nops)]
        valid = not r.chance(1, 25)
        if kind == "B":
            start = r.below(cap) if valid else r.range(0, cap + 1)
            ln = r.range(0, cap) if valid else r.range(0, cap + 2)
            items.append(build(dict(kind="B", store=r.below(5), start=start, len=ln, data=data, ops=ops)))
        else:
            first = r.below(cap) if valid else r.range(0, cap + 1)
            items.append(build(dict(kind="F", store=r.below(5), first=first, data=data, ops=ops)))
    return items, n_exh


def nontrivial(item, obs_line):
    """state-dependent branch exercised: an evicting push (tag 1 after push), a slice pair with both
    parts non-empty (wrapped view), or a Fixed buffer with first != 0."""
    if item["kind"] == "F":
        return item.get("first", 0) != 0 and len(item["data"]) > 1
    obs = obs_line.split(";")
    for o, ob in zip(item["ops"], obs):
        t = ob.split()
        if o[0] == "push" and t and t[0] == "1":
            return True
        if o[0] in ("slices", "slicesmut") and t and t[0] == "6" and 0 < int(t[1]) < len(t) - 2:
            return True
    return False


def load_corpus():
    d = os.path.join(F.VERIF, "corpus", PROP)
    items = []
    if os.path.isdir(d):
        for fn in sorted(os.listdir(d)):
            if fn.endswith(".json"):
                items.append(build(json.load(open(os.path.join(d, fn)))))
    return items


def main(rep, tier, seed):
    rng = F.Rng(seed)
    info = F.standard_proof_phase(rep, PROP)
    ok, blog, binpath = F.harness_build("c06")
    if not ok:
        rep.violation("harness_build", {"kind": "harness does not build against /repo", "log": blog[-4000:]}, no_input=True)
        return finish(rep, info, 0, 0, {}, [])
    corpus = load_corpus()
    items, n_exh = gen_cases(rng, tier)
    items = corpus + items
    outl, bad, errors = F.correspond(binpath, items, HEADER, CHECK, "c06")
    for name, msg in errors:
        rep.violation("correspondence_error_" + name.replace("/", "_"), {"kind": "correspondence could not be evaluated", "where": name, "log": msg}, no_input=True)
    # the same cases in the release and overflow-checked-release profiles: observations must not depend on the profile
    pdiffs, perrs = F.profile_diff("c06", items, outl, profiles=("release", "relchk")) if not errors else ([], [])
    for name, msg in perrs:
        rep.violation("profile_" + name, {"kind": "harness could not be built/run in another profile", "log": msg}, no_input=True)
    for idx, prof, line in pdiffs[:3]:
        it = items[idx]
        rep.violation(f"profile_{prof}_case{idx}", {
            "kind": f"the crate behaves differently in the {prof} build profile than in the dev profile (the proved model has no profile dependence)",
            "case": {k: it[k] for k in ("kind", "store", "start", "len", "first", "data", "ops") if k in it},
            "harness_line": it["line"], "dev_observations": outl[idx], f"{prof}_observations": line})
    hist = {}
    for it in items:
        for o in it["ops"]:
            key = it["kind"] + ":" + o[0]
            hist[key] = hist.get(key, 0) + 1
    nontriv = len({it["line"] for it, o in zip(items, outl) if nontrivial(it, o)}) if not errors else 0
    panics = sum(o.count("8 ") for o in outl)
    for idx in bad[:3]:
        it = items[idx]

        def fails(c):
            o, b, e = F.correspond(binpath, [c], HEADER, CHECK, "c06_shrink")
            return bool(b) and not e

        small = F.shrink_ops(it, build, fails)
        rc, out, _ = F.run_bin(binpath, [small["line"]])
        _, model = F.coq_eval("c06", HEADER, f"run_case ({small['coq']})")
        rep.violation(f"case{idx}", {
            "kind": "model/implementation disagreement: dasp_ring_buffer does not behave as the ideal queue/delay line the proved model refines",
            "case": {k: small[k] for k in ("kind", "store", "start", "len", "first", "data", "ops") if k in small},
            "harness_line": small["line"], "implementation_observations": out, "model_observations": model[-3000:],
            "original_case_index": idx, "replay": f"./check.py C06 --replay <this file>"})
    dist = {"ops_histogram": hist, "exhaustive_small_state_cases": n_exh - N_CAPWRAP[0], "capwrap_cases": N_CAPWRAP[0], "capwrap_capacities": list(CAPSET), "random_histories": len(items) - n_exh - len(corpus),
            "corpus_cases": len(corpus), "panic_observations": panics, "profiles": ["dev (model compared)", "release (diffed against dev)", "relchk (diffed against dev)"], "profile_differences": len(pdiffs)}
    samples = [items[i]["line"] for i in (0, n_exh // 2, len(items) - 1)]
    return finish(rep, info, len(items), nontriv, dist, samples, bad)


def finish(rep, info, n, nontriv, dist, samples, bad=()):
    th = info.get("theorems", [])
    cov = {
        "obligations": max(1, len(th)), "discharged": len(th) if info.get("coq_ok") else 0,
        "checker_cmd": "make -f Makefile.coq props/C06.vo (coqc 8.16.1, full .vo) + Print Assumptions audit",
        "trusted_base": F.TRUSTED_COMMON + ["axioms: none (every theorem of props/C06.v is closed under the global context)",
                                           "modelled, not verified: Rust slices as lists, mem::replace/ptr::read/ptr::write as list updates; usize as nat in the refinement theorems, with the 64-bit reading of every index addition proved free of overflow in valid states for indices up to usize::MAX (c06_index_arith_no_overflow), slice lengths assumed <= 2^63 (true of every non-zero-sized element type)"],
        "theorems": th, "axioms_reported": info.get("axioms", []),
        "evaluations": n, "distinct_nontrivial": nontriv,
        "rule": "the capwrap family (30 capacities 1..257 covering 1, 2, powers of two and their neighbours, even non-powers of two, odd composites and primes x every/corner fill level (Bounded) and first index (Fixed), 2 cap + 3 items passed through so that the indices wrap at least twice, reads at corner indices), every raw (start,len)/(first) state of capacities 0..6 (quick) x each operation followed by a full observation sweep, plus random histories (1300 quick, capacities 1..64) from random raw states over 5 storage kinds (Vec, Box<[T]>, &mut [T], [T; N], Vec with spare capacity); non-trivial = an evicting push or a wrapped slice pair occurs (Bounded), first != 0 (Fixed)",
        "samples": samples, "input_distribution": dist, "disagreements": len(bad),
        "explanation": "theorems: refinement of the model to the ideal queue/delay line for all capacities, states and histories; tie: the model's executable definitions run by coqc on the same cases as the real crate, all observations compared exactly",
    }
    return rep.finish("proof", cov, ["Rust slices are modelled as lists; usize as unbounded nat in the refinement, machine reading of the index additions in Ring/IndexArith.v (slice length <= 2^63)",
                                    "the harness observes through the public API only (from_raw_parts gives arbitrary raw states)"])


def replay(path):
    j = json.load(open(path))
    it = build(j["case"])
    ok, blog, binpath = F.harness_build("c06")
    rc, out, _ = F.run_bin(binpath, [it["line"]])
    _, model = F.coq_eval("c06", HEADER, f"run_case ({it['coq']})")
    print("case:", it["line"])
    print("implementation:", out)
    print("model:", model)
    o, bad, errs = F.correspond(binpath, [it], HEADER, CHECK, "c06_replay")
    print("AGREE" if not bad and not errs else "DISAGREE")
    return 1 if bad or errs else 0
