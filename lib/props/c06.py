"""C06 — ring buffers are FIFO queues / delay lines.
Proof: coq/props/C06.v (refinement of the Bounded/Fixed models to ideal queue / delay line,
every capacity, every valid state, every history).
Tie 1 (translator): translate/ring2coq.py regenerates coq/gen/RingGen.v from
dasp_ring_buffer/src/lib.rs on every run (one Gallina definition per method of Fixed, Bounded,
DrainBounded); Ring/RingGenEquiv.v proves every generated definition equal to the hand model's
on all inputs, so the refinement theorems are theorems about the regenerated model.  The same translation
with every usize `+` read as a checked 64-bit addition (coq/gen/RingGenCk.v, modulus M abstract) is proved equal
to the unbounded one in every valid state over at most M/2 elements (c06_gen_no_index_overflow): no index
addition of the source can overflow, for any argument.
Tie 2 (correspondence): the model's executable definitions (Ring/RingRun.v, evaluated by coqc)
against dasp_ring_buffer on the same operation sequences from arbitrary valid (and invalid) raw states.
When the translator rejects the source or the equivalence no longer compiles (DESIGN 5.1/5.3) the
correspondence is the search for a failing input: hand model vs crate, then the regenerated model
(Ring/RingGenRun.v) vs crate and vs hand model, and the 64-bit reading vs the unbounded reading on a scaled-down
machine (Ring/RingGenCkRun.v: modulus 2*capacity, all valid states of capacities 1..3); a failing input gives VIOLATION with a replay file,
none gives a VIOLATION ending no-failing-input-found that names the lemma / the translator error.

Harmless rewrites of the source (decided and tested): the equivalence proofs split on every test and close the
leaves with lia/congruence after bringing commuted sums and differently written indices to one spelling, so
operands of `+` swapped, `a >= b` written `b <= a`, a temporary more or less, comments and layout still PASS.
A rewrite that is equal only by an arithmetic identity the proofs do not know (`(first + i % n) % n` for
`(first + i) % n` -- which is NOT harmless at 64 bits, defect F9) is reported as a VIOLATION ending
no-failing-input-found that names the lemma: the hand model / proof has to be looked at by a person.

TESTING ONLY: DASP_RING_RS=<file> makes the translator read that file instead of /repo's lib.rs.  The
harness is still built against /repo, so only the translator side sees the change -- unless
DASP_RING_HARNESS=scratch is also set: then a copy of dasp_ring_buffer with that lib.rs and a
one-binary copy of the harness are built under out/c06_scratch (never touches /repo)."""
import json, os, re, shutil, sys, time
import framework as F
sys.path.insert(0, os.path.join(F.VERIF, "translate"))
import ring2coq as T  # noqa: E402

PROP = "C06"
META = dict(
    technique="Coq refinement proof (model -> ideal bounded queue / delay line) + model regenerated from the source by a translator and proved equal to the hand model + coqc-evaluated model vs crate correspondence",
    text="Machine-checked (Coq 8.16.1) refinement of a model of Bounded/Fixed, written after the source with the same index arithmetic, to an ideal capacity-bounded queue and an ideal delay line: every operation from every valid (start,len)/first state of every capacity, hence every history; no UB, no unprescribed panic. Two ties to the source. (1) translate/ring2coq.py, a strict translator for the Rust subset the method bodies use, regenerates coq/gen/RingGen.v from dasp_ring_buffer/src/lib.rs on every run (every method of Fixed, Bounded, DrainBounded; anything outside its grammar, a new/missing method, a non-identity Slice impl is an error), and Coq proves each generated definition equal to the hand model's on all inputs (c06_gen_bounded_agrees, c06_gen_fixed_agrees), so the refinement theorems are about the regenerated model; the same translation with usize `+` read as checked 64-bit addition (coq/gen/RingGenCk.v) is proved to agree with it in every valid state for every argument (c06_gen_no_index_overflow: no index addition of the source can overflow). (2) The model's executable definitions are run inside coqc on the same operation sequences as the real crate (every raw state of small capacities x every operation, random histories) and all observations compared exactly; this also is the search for a failing input when (1) breaks.",
    note="Trusted: Coq kernel; translate/ring2coq.py and the vocabulary Ring/RingPrim.v it translates into (Rust slices as lists, &mut [T] as index ranges, &mut T as an index, usize as nat, mem::replace/ptr::read/write as list updates) validated only through the correspondence; the caller-side glue of Ring/RingGenGlue.v; harness + python generators. Axioms: none.",
    design="6/C06")
HEADER = "From Dasp Require Import Ring.RingRun."
CHECK = "check"
GEN_HEADER = "From Dasp Require Import Ring.RingRun Ring.RingGenRun."
TEST_RING = os.environ.get("DASP_RING_RS")            # TESTING ONLY, see module docstring
TEST_HARNESS = os.environ.get("DASP_RING_HARNESS") == "scratch" and bool(TEST_RING)
RING_SRC = TEST_RING or os.path.join(F.REPO, "dasp_ring_buffer", "src", "lib.rs")

B_OPS = ["push", "pop", "get", "set", "idx", "idxset", "slices", "slicesmut", "iter", "map", "mapslices",
         "drain", "drainlen", "extend", "len", "empty", "full", "maxlen", "drainnth", "drainskip", "iternth", "iterrev", "iterlast"]
F_OPS = ["push", "get", "idx", "set", "idxset", "setfirst", "slices", "slicesmut", "iter", "iterloop", "map",
         "extend", "len"]


def coq_op(o):
    k, a = o[0], o[1:]
    z = F.zlit
    return {
        "push": lambda: f"ZPush {z(a[0])}", "pop": lambda: "ZPop", "get": lambda: f"ZGet {z(a[0])}",
        "set": lambda: f"ZSet {z(a[0])} {z(a[1])}", "idx": lambda: f"ZIdx {z(a[0])}",
        "idxset": lambda: f"ZIdxSet {z(a[0])} {z(a[1])}", "slices": lambda: "ZSlices", "slicesmut": lambda: "ZSlices",
        "iter": lambda: "ZIter", "map": lambda: f"ZMap {z(a[0])}", "mapslices": lambda: f"ZMap {z(a[0])}",
        "drain": lambda: f"ZDrain {z(a[0])}", "drainlen": lambda: "ZDrainLen",
        "extend": lambda: f"ZExtend {F.zlist(a)}", "len": lambda: "ZLen", "empty": lambda: "ZEmpty",
        "full": lambda: "ZFull", "maxlen": lambda: "ZMaxLen", "setfirst": lambda: f"ZSetFirst {z(a[0])}",
        "iterloop": lambda: f"ZIterLoop {z(a[0])}",
        "drainnth": lambda: f"ZDrainNth {z(a[0])}", "drainskip": lambda: f"ZDrainNth {z(a[0])}",
        "iternth": lambda: f"ZIterNth {z(a[0])}", "iterrev": lambda: "ZIterRev", "iterlast": lambda: "ZIterLast",
    }[k]()


INDEX_OPS = ("get", "set", "idx", "idxset", "setfirst")


def wire(o):
    """harness line form of one op: the harness parses i64 and casts the index `as usize`, so an index at or above
    2^63 travels as its two's-complement negative (usize::MAX = -1); the Coq side receives the true value"""
    if o[0] in INDEX_OPS and o[1] >= 2 ** 63:
        return [o[0], o[1] - 2 ** 64] + list(o[2:])
    return o


def coq_gop(o):
    """the same op for the runner of the GENERATED model (Ring/RingGenRun.v): the `_mut` accessors are routed
    to the generated `_mut` methods"""
    if o[0] == "slicesmut":
        return "GSlicesMut"
    if o[0] == "mapslices":
        return f"GMapSlices {F.zlit(o[1])}"
    return f"G ({coq_op(o)})"


def build(item, ops=None):
    it = dict(item)
    if ops is not None:
        it["ops"] = ops
    ops_txt = " , ".join(" ".join(str(t) for t in wire(o)) for o in it["ops"])
    ops_coq = "[" + "; ".join(coq_op(o) for o in it["ops"]) + "]"
    gops_coq = "[" + "; ".join(coq_gop(o) for o in it["ops"]) + "]"
    if it["kind"] == "B":
        it["line"] = f"B {it['store']} {it['start']} {it['len']} {' '.join(map(str, it['data']))} ; {ops_txt}"
        it["coq"] = f"BCase {F.zlit(it['start'])} {F.zlit(it['len'])} {F.zlist(it['data'])} {ops_coq}"
        it["gcoq"] = f"GBCase {F.zlit(it['start'])} {F.zlit(it['len'])} {F.zlist(it['data'])} {gops_coq}"
    else:
        it["line"] = f"F {it['store']} {it['first']} {' '.join(map(str, it['data']))} ; {ops_txt}"
        it["coq"] = f"FCase {F.zlit(it['first'])} {F.zlist(it['data'])} {ops_coq}"
        it["gcoq"] = f"GFCase {F.zlit(it['first'])} {F.zlist(it['data'])} {gops_coq}"
    return it


def rand_op(rng, kind, cap, fresh):
    name = rng.choice(B_OPS if kind == "B" else F_OPS)
    idx = lambda: rng.choice([0, 1, max(0, cap - 1), cap, cap + 1, rng.below(2 * cap + 2), rng.below(cap + 1),
                              rng.below(2 * cap + 2), rng.below(cap + 1), 2 ** 64 - 1 - rng.below(2 * cap + 2)])
    if name in ("push",):
        return [name, fresh()]
    if name in ("get", "idx", "setfirst"):
        return [name, idx()]
    if name in ("set", "idxset"):
        return [name, idx(), fresh()]
    if name in ("map", "mapslices"):
        return [name, rng.range(1, 9) * 1000000]
    if name in ("drain", "iterloop"):
        return [name, rng.below(2 * cap + 3)]
    if name in ("drainnth", "drainskip", "iternth"):
        return [name, rng.below(cap + 2)]
    if name == "extend":
        return [name] + [fresh() for _ in range(rng.below(cap + 3))]
    return [name]


# S-C12 (round 3): capacities with every residue structure an index shortcut could depend on (1, 2, powers of two
# and their neighbours, even non-powers of two, odd composites, primes) -- `& (cap - 1)` for `% cap` is right for
# powers of two only, a single conditional subtraction only for one wrap, ...
CAPSET = (1, 2, 3, 4, 5, 6, 7, 8, 9, 10, 12, 15, 16, 17, 24, 31, 32, 33, 48, 63, 64, 65, 96, 100, 127, 128, 129,
          255, 256, 257)


N_CAPWRAP = [0]


def capwrap_cases(fresh):
    """deterministic: every capacity of CAPSET x fill levels (every level up to capacity 10; corner levels
    0,1,2,3,cap/2,cap-2,cap-1,cap up to 65; 0,1,cap/2,cap-1,cap above) held while 2 cap + 3 items pass through, so
    start and start + len wrap at least twice; reads at the corner indices on the way and when start == cap - 1.
    Bounded: push+pop below capacity (the not-full path; above capacity 65 every other stretch of 8 items goes through
    extend + drain in blocks of 4), evicting pushes at capacity.  Fixed: 2 cap + 3 pushes from (corner) `first`
    indices, reads at indices up to 2 cap (they wrap)."""
    def corners(cap, top, level=0):
        if cap <= 10:
            return list(range(top + 1))
        c = ({0, 1, 2, 3, cap // 2, cap - 2, cap - 1, cap}, {0, 1, cap // 2, cap - 1, cap}, {0, cap // 2, cap - 1})[level]
        return sorted(v for v in c if v <= top)
    out, k = [], 0
    for cap in CAPSET:
        data = [fresh() for _ in range(cap)]
        rounds = 2 * cap + 3
        every = max(1, rounds // 5)
        big = cap > 65
        starts = corners(cap, cap - 1)
        for fill in corners(cap, cap, 1 if big else 0):
            cur = starts[k % len(starts)]
            reads = [[("get", "idx")[(k + i) % 2], i] for i in corners(cap, cap) if i < fill or i == fill == 0]
            ops, r, nread, swept = [], 0, 0, False
            while r < rounds:
                if big and (r // 8) % 2 == 1 and fill + 4 <= cap:
                    m = min(4, rounds - r)
                    ops += [["extend"] + [fresh() for _ in range(m)], ["drain", m]]
                else:
                    m = 1
                    ops += [["push", fresh()]] if fill == cap else [["push", fresh()], ["pop"]]
                r += m
                cur = (cur + m) % cap
                if r >= (nread + 1) * every:
                    ops += reads[nread % 2::2] + [[("slices", "slicesmut", "len", "full")[nread % 4]]]
                    nread += 1
                if not swept and cur >= cap - min(cap, 4):      # the live region is about to pass the end of the storage
                    ops += reads + [["slices"]]
                    swept = True
            ops += [["iter"], ["extend"] + [fresh() for _ in range(min(cap, 5) + 2)], ["slices"], ["drain", fill // 2],
                    ["push", fresh()], ["iter"], ["drainlen"]]
            out.append(build(dict(kind="B", store=k % 5, start=starts[k % len(starts)], len=fill, data=data, ops=ops)))
            k += 1
        for first in corners(cap, cap - 1, 2 if big else (1 if cap > 10 else 0)):
            reads = [[("get", "idx")[(k + i) % 2], i] for i in sorted(set(corners(cap, cap) + [cap + 1, 2 * cap - 1, 2 * cap]))]
            ops = []
            for r in range(rounds):
                ops.append(["push", fresh()])
                if r % every == every - 1:
                    ops += reads[(r // every) % 2::2] + [[("slices", "iter", "len", "slicesmut")[(r // every) % 4]]]
            ops += [["iter"], ["iterloop", 2 * min(cap, 20) + 1], ["setfirst", (first + cap // 2) % cap], ["push", fresh()], ["iter"]]
            out.append(build(dict(kind="F", store=k % 5, first=first, data=data, ops=ops)))
            k += 1
    return out


def gen_cases(rng, tier):
    items = []
    counter = [100]

    def fresh():
        counter[0] += 1
        return counter[0]

    # 0. every capacity of CAPSET, every (corner) fill level / first index, indices wrapping at least twice
    items += capwrap_cases(fresh)
    N_CAPWRAP[0] = len(items)

    # 1. exhaustive one/two-step from every raw state (valid and just-invalid) of capacities 0..CAP
    CAP = 6 if tier == "quick" else 8
    store = 0
    for cap in range(0, CAP + 1):
        data = [10 * (i + 1) for i in range(cap)]
        for start in range(0, cap + 2):
            for ln in range(0, cap + 2):
                ops = []
                for name in B_OPS:
                    if name in ("get", "idx", "iternth"):
                        ops += [[name, i] for i in range(0, cap + 2)]
                    elif name in ("set", "idxset"):
                        continue
                    elif name == "push":
                        continue
                    elif name in ("map", "mapslices", "drain", "extend", "pop", "drainnth", "drainskip"):
                        continue
                    else:
                        ops.append([name])
                # read-only sweep, then each mutating op followed by full observation
                items.append(build(dict(kind="B", store=store % 5, start=start, len=ln, data=data, ops=ops)))
                store += 1
                obs_all = [["iter"], ["slices"], ["len"], ["full"], ["empty"]] + [["get", i] for i in range(cap + 1)]
                muts = [["push", 7], ["pop"], ["map", 1000000], ["mapslices", 2000000], ["extend", 1, 2, 3],
                        ["extend"] + list(range(1, cap + 3)), ["drainlen"]]
                muts += [["drain", k] for k in range(0, cap + 2)]
                muts += [["drainnth", k] for k in range(0, cap + 1)] + [["drainskip", k] for k in range(0, cap + 1)]
                muts += [["iternth", k] for k in range(0, cap + 1)] + [["iterrev"], ["iterlast"]]
                muts += [["set", i, 99] for i in range(0, cap + 2)] + [["idxset", i, 98] for i in range(0, cap + 2)]
                for m in muts:
                    items.append(build(dict(kind="B", store=store % 5, start=start, len=ln, data=data,
                                            ops=[m] + obs_all)))
                    store += 1
        for first in range(0, cap + 2):
            obs_all = [["iter"], ["slices"], ["len"], ["iterloop", 2 * cap + 1]] + [["get", i] for i in range(2 * cap + 1)]
            muts = [["push", 7], ["setfirst", cap], ["map", 1000000], ["extend"] + list(range(1, cap + 3)), ["slicesmut"]]
            muts += [["setfirst", i] for i in range(0, 2 * cap + 2)]
            muts += [["set", i, 99] for i in range(0, 2 * cap + 1)] + [["idxset", i, 98] for i in range(0, cap + 1)]
            muts += [["idx", i] for i in range(0, 2 * cap + 1)]
            for m in muts:
                items.append(build(dict(kind="F", store=store % 5, first=first, data=data, ops=[m] + obs_all)))
                store += 1
    # 1b. the safe constructors: FromIterator / From give an empty buffer over the collected storage
    #     (start 0, len 0), from_full a full one (start 0, len n); Fixed: first 0.  cap 0 must panic.
    obs_all = [["iter"], ["slices"], ["len"], ["full"], ["empty"], ["maxlen"], ["push", 7], ["push", 8], ["iter"], ["pop"], ["len"]]
    for cap in range(0, 6):
        data = [10 * (i + 1) for i in range(cap)]
        for kind, (st, ln) in ((5, (0, 0)), (6, (0, cap)), (7, (0, 0)), (8, (0, 0))):
            items.append(build(dict(kind="B", store=kind, start=st, len=ln, data=data, ops=obs_all)))
        for kind in (5, 6, 7):
            items.append(build(dict(kind="F", store=kind, first=0, data=data,
                                    ops=[["len"], ["iter"], ["push", 7], ["get", 0], ["iter"], ["slices"]])))
    # 1c. indices up to usize::MAX from every valid state (defect F9: `first + index` overflowed in Fixed::get;
    #     Bounded must answer None / panic "index out of range" without computing start + index)
    U = 2 ** 64
    for cap in range(1, 6):
        data = [10 * (i + 1) for i in range(cap)]
        huge = sorted({U - 1 - j for j in range(0, 2 * cap + 2)} | {2 ** 63 - 1, 2 ** 63, 2 ** 63 + 1, 2 ** 32, 2 ** 62 + cap}
                      | {U - cap * k for k in (1, 2, 3)})
        for first in range(0, cap):
            for chunk in (huge[:len(huge) // 2], huge[len(huge) // 2:]):
                ops = [["get", i] for i in chunk] + [["idx", i] for i in chunk[:4]]
                ops += [["set", chunk[0], 91], ["iter"], ["idxset", chunk[-1], 92], ["iter"], ["setfirst", chunk[1]], ["iter"],
                        ["get", chunk[2]]]
                items.append(build(dict(kind="F", store=store % 5, first=first, data=data, ops=ops)))
                store += 1
        for start in range(0, cap):
            for ln in range(0, cap + 1):
                for i in huge[-3:] + [2 ** 63, 2 ** 32]:
                    for m in (["get", i], ["set", i, 93], ["idx", i], ["idxset", i, 94]):
                        items.append(build(dict(kind="B", store=store % 5, start=start, len=ln, data=data,
                                                ops=[m, ["iter"], ["len"]])))
                        store += 1
    n_exh = len(items)
    # 2. random histories from random raw states
    n_rand = 1300 if tier == "quick" else 30000
    for k in range(n_rand):
        r = rng.fork(f"hist{k}")
        kind = "B" if r.chance(3, 5) else "F"
        cap = r.choice([1, 1, 2, 2, 3, 3, 4, 5, 6, 7, 8, 9, 13, 16, 31, 64, 10, 12, 15, 24, 48])
        if tier == "thorough" and r.chance(1, 20):
            cap = r.range(65, 300)
        data = [fresh() for _ in range(cap)]
        nops = r.choice([3, 8, 20, 40, 40, 80, 200 if tier == "thorough" else 100])
        ops = [rand_op(r, kind, cap, fresh) for _ in range(nops)]
        valid = not r.chance(1, 25)
        if kind == "B":
            start = r.below(cap) if valid else r.range(0, cap + 1)
            ln = r.range(0, cap) if valid else r.range(0, cap + 2)
            items.append(build(dict(kind="B", store=r.below(5), start=start, len=ln, data=data, ops=ops)))
        else:
            first = r.below(cap) if valid else r.range(0, cap + 1)
            items.append(build(dict(kind="F", store=r.below(5), first=first, data=data, ops=ops)))
    return items, n_exh


def nontrivial(item, obs_line):
    """state-dependent branch exercised: an evicting push (tag 1 after push), a slice pair with both
    parts non-empty (wrapped view), or a Fixed buffer with first != 0."""
    if item["kind"] == "F":
        return item.get("first", 0) != 0 and len(item["data"]) > 1
    obs = obs_line.split(";")
    for o, ob in zip(item["ops"], obs):
        t = ob.split()
        if o[0] == "push" and t and t[0] == "1":
            return True
        if o[0] in ("slices", "slicesmut") and t and t[0] == "6" and 0 < int(t[1]) < len(t) - 2:
            return True
    return False


def load_corpus():
    d = os.path.join(F.VERIF, "corpus", PROP)
    items = []
    if os.path.isdir(d):
        for fn in sorted(os.listdir(d)):
            if fn.endswith(".json"):
                items.append(build(json.load(open(os.path.join(d, fn)))))
    return items


# ---------------------------------------------------------------------------
# tie 1: regenerate the model from the source, build the proofs, find what broke


def regenerate():
    """coq/gen/RingGen.v from the current source (written only if changed). -> (names, changed, error)"""
    try:
        names, changed = T.generate(RING_SRC)
        return names, changed, None
    except T.TranslateError as e:
        return None, False, str(e)


def broken_lemma(log):
    """every error `make` reported: file, line, enclosing lemma (files of the translator tie first)"""
    found = []
    for m in re.finditer(r'File "\./([^"]+)", line (\d+), characters[^\n]*\n((?:(?!File "|make).*\n){0,6})', log):
        path, line = m.group(1), int(m.group(2))
        lemma = None
        try:
            src = open(os.path.join(F.COQ, path)).read().split("\n")
            for l in range(min(line, len(src)) - 1, -1, -1):
                mm = re.match(r"\s*(?:Lemma|Theorem|Example|Definition|Fixpoint)\s+([\w']+)", src[l])
                if mm:
                    lemma = mm.group(1)
                    break
        except OSError:
            pass
        found.append(dict(file="coq/" + path, line=line, lemma=lemma, message=" ".join(m.group(3).split())[:400]))
    if not found:
        return dict(file=None, line=None, lemma=None, message=log[-1500:], all=[])
    rank = lambda f: 0 if "gen/RingGen" in f["file"] else 1 if "RingGenEquiv" in f["file"] or "RingGenGlue" in f["file"] else 2 if "RingGen" in f["file"] else 3
    found.sort(key=rank)
    return dict(found[0], all=[f"{f['file']}:{f['line']} {f['lemma']}" for f in found])


def proof_phase(rep, terr):
    """-> info; info['broken'] (dict) is set when the translator tie or a proof broke: the caller then runs
    the search and registers the violation"""
    t = time.time()
    info = {"coq_ok": False, "theorems": [], "axioms": [], "coq_s": None, "broken": None}
    if terr is not None:
        info["broken"] = dict(stage="translator", message="the model cannot be regenerated from the source: " + terr,
                              source=RING_SRC)
        info["coq_s"] = round(time.time() - t, 1)
        return info
    ok, log = F.coq_prop_build(PROP)
    info["coq_ok"] = ok
    if not ok:
        # name the FIRST thing that broke along the translator tie (make -j reports whatever failed first)
        bl = None
        for tgt in ("gen/RingGen.vo", "gen/RingGenCk.vo", "theories/Ring/RingGenEquiv.vo", "theories/Ring/RingGenCkEquiv.vo"):
            ok2, log2 = F.coq_make(tgt)
            if not ok2:
                bl = broken_lemma(log2)
                break
        if bl is None:
            bl = broken_lemma(log)
        f = bl.get("file") or ""
        if "gen/RingGen.v" in f:
            stage, what = "generated_model", "the model regenerated from the source does not type-check in Coq (the body of a method no longer has the representation its declared Rust type needs)"
        elif "gen/RingGenCk.v" in f:
            stage, what = "generated_model", "the 64-bit reading of the model regenerated from the source (gen/RingGenCk.v) does not type-check in Coq"
        elif "RingGenCkEquiv" in f:
            stage, what = "index_overflow", f"an index addition of the regenerated source can overflow usize in a valid state (or is no longer provably free of it): lemma {bl.get('lemma')}"
        elif "RingGenEquiv" in f or "RingGenGlue" in f:
            stage, what = "equivalence", f"the method regenerated from the source is no longer provably equal to the hand model: lemma {bl.get('lemma')}"
        else:
            stage, what = "proof", f"proof obligation no longer checks: {bl.get('lemma')}"
        info["broken"] = dict(stage=stage, message=what, broken_lemma=bl.get("lemma"), file=bl.get("file"), line=bl.get("line"),
                              coq_message=bl.get("message"), all_broken=bl.get("all", []), target="coq/props/C06.vo",
                              source=RING_SRC)
        info["coq_s"] = round(time.time() - t, 1)
        return info
    problems, ainfo = F.coq_audit(PROP, log, frozenset())
    info.update(ainfo)
    info["coq_s"] = round(time.time() - t, 1)
    if problems:
        rep.violation("audit", {"kind": "audit of the Coq development failed", "problems": problems}, no_input=True)
    return info


def scratch_harness():
    """TESTING ONLY (DASP_RING_HARNESS=scratch): dasp_ring_buffer with lib.rs replaced by DASP_RING_RS and a
    one-binary copy of the harness, under out/c06_scratch.  -> {profile: path} or (None, log)"""
    root = F.ensure_dir(os.path.join(F.OUT, "c06_scratch"))
    rb = os.path.join(root, "dasp_ring_buffer")
    if os.path.exists(rb):
        shutil.rmtree(rb)
    shutil.copytree(os.path.join(F.REPO, "dasp_ring_buffer"), rb)
    shutil.copy(TEST_RING, os.path.join(rb, "src", "lib.rs"))
    h = os.path.join(root, "harness")
    F.ensure_dir(os.path.join(h, "src", "bin"))
    shutil.copy(os.path.join(F.HARNESS, "src", "lib.rs"), os.path.join(h, "src", "lib.rs"))
    shutil.copy(os.path.join(F.HARNESS, "src", "bin", "c06.rs"), os.path.join(h, "src", "bin", "c06.rs"))
    F.write_if_changed(os.path.join(h, "Cargo.toml"),
                       '[package]\nname = "dasp_verif_harness"\nversion = "0.0.0"\nedition = "2018"\npublish = false\n\n[workspace]\n\n'
                       f'[dependencies]\ndasp_ring_buffer = {{ path = "{rb}" }}\n\n'
                       '[profile.dev]\nopt-level = 1\ndebug = false\noverflow-checks = true\ndebug-assertions = true\n')
    env = {"RUSTFLAGS": f"--cfg {F.GUARD}", "CARGO_TARGET_DIR": os.path.join(h, "target")}
    rc, out = F.sh(["cargo", "build", "--offline", "--quiet", "--bin", "c06"], cwd=h, env=env, timeout=1500)
    path = os.path.join(h, "target", "debug", "c06")
    return (rc == 0 and os.path.exists(path)), out, path


def case_of(it):
    return {k: it[k] for k in ("kind", "store", "start", "len", "first", "data", "ops") if k in it}


def gen_search(rep, binpath, items, outl, broken):
    """the regenerated model (Ring/RingGenRun.v) on the correspondence cases: against the crate's observations
    and against the hand model.  -> (n_vs_crate, n_vs_hand, note) and registers a VIOLATION with replay for
    the first failing input"""
    ok, log = F.coq_make("theories/Ring/RingGenRun.vo")
    if not ok:
        return None, None, "the regenerated model does not compile, it cannot be run: " + " ".join(log[-600:].split())
    # the regenerated model is run WITHOUT the index normalisation of Ring/RingRun.v (proved invisible for the hand
    # model only): cases with an index too large for a unary nat stay out
    small = lambda it: all(not (o[0] in INDEX_OPS and o[1] > 4096) for o in it["ops"])
    keep = [i for i, it in enumerate(items) if small(it)]
    items, outl = [items[i] for i in keep], [outl[i] for i in keep]
    terms = [f"({it['gcoq']}, {F.zlistlist(F.norm_obs_line(o))})" for it, o in zip(items, outl)]
    bad_any, e1 = F.coq_check_cases("c06_gen", GEN_HEADER, "both_gen", terms)
    if e1:
        return None, None, "the regenerated model could not be evaluated: " + str(e1[0])[:600]
    sub = [terms[i] for i in bad_any]
    bc, e1 = F.coq_check_cases("c06_gen_crate", GEN_HEADER, "check_gen", sub)
    bh, e2 = F.coq_check_cases("c06_gen_hand", GEN_HEADER, "agree_gen", sub)
    if e1 or e2:
        return None, None, "the regenerated model could not be evaluated: " + str((e1 + e2)[0])[:600]
    bad_crate, bad_hand = [bad_any[i] for i in bc], [bad_any[i] for i in bh]
    for tag, bad, fn, what in (("crate", bad_crate, "check_gen", "the crate"), ("hand", bad_hand, "agree_gen", "the hand model")):
        if not bad:
            continue
        idx = bad[0]
        it = items[idx]

        def fails(c):
            rc, o, _ = F.run_bin(binpath, [c["line"]])
            if rc != 0 or len(o) != 1:
                return False
            b, e = F.coq_check_cases("c06_gen_shrink", GEN_HEADER, fn, [f"({c['gcoq']}, {F.zlistlist(F.norm_obs_line(o[0]))})"])
            return bool(b) and not e

        small = F.shrink_ops(it, build, fails)
        rc, out, _ = F.run_bin(binpath, [small["line"]])
        _, gmodel = F.coq_eval("c06", GEN_HEADER, f"gen_run_case ({small['gcoq']})")
        _, hmodel = F.coq_eval("c06", GEN_HEADER, f"run_case ({small['coq']})")
        rep.violation(f"generated_vs_{tag}_case{idx}", {
            "kind": f"the model regenerated from {RING_SRC} disagrees with {what} on this case "
                    "(the source no longer computes what the proved model computes; or a translator fault)",
            "why": broken, "case": case_of(small), "model": "generated", "against": tag,
            "harness_line": small["line"], "implementation_observations": out,
            "generated_model_observations": gmodel[-3000:], "hand_model_observations": hmodel[-3000:],
            "failing_cases_in_this_run": len(bad), "cases_run_on_the_generated_model": len(items),
            "replay": "./check.py C06 --replay <this file>"})
        break
    return len(bad_crate), len(bad_hand), None


CK_METHODS = {1: "Bounded::push", 2: "Bounded::pop", 3: "Bounded::get", 4: "Bounded::get_mut",
              11: "Fixed::push", 12: "Fixed::get", 13: "Fixed::get_mut"}
CK_HEADER = "From Dasp Require Import Ring.RingGenCkRun."


def ck_hits():
    """Ring/RingGenCkRun.v: 64-bit reading vs unbounded reading of the regenerated methods on a scaled-down machine
    (modulus 2 * capacity, every valid state of capacities 1..3, every argument below the modulus)"""
    ok, log = F.coq_make("theories/Ring/RingGenCkRun.vo")
    if not ok:
        return None, "the 64-bit reading of the regenerated model does not compile: " + " ".join(log[-500:].split())
    rc, out = F.coq_eval("c06_ck", CK_HEADER, "scaled_down_hits")
    if rc != 0:
        return None, out[-600:]
    rows = [[int(x) for x in re.findall(r"-?\d+", g)] for g in re.findall(r"\[([^\[\]]*)\]", out.split(":")[0])]
    hits = []
    for r in rows:
        if len(r) < 4:
            continue
        if r[0] < 10:
            h = dict(method=CK_METHODS.get(r[0], str(r[0])), modulus=r[1], start=r[2], len=r[3], capacity=r[4])
            if len(r) > 5:
                h["index"] = r[5]
        else:
            h = dict(method=CK_METHODS.get(r[0], str(r[0])), modulus=r[1], first=r[2], capacity=r[3])
            if len(r) > 4:
                h["index"] = r[4]
        hits.append(h)
    return hits, None


def ck_search(rep, broken):
    hits, note = ck_hits()
    if hits:
        h = min(hits, key=lambda h: (h["capacity"], h.get("index", 0)))
        rep.violation("index_overflow_scaled_down", {
            "kind": f"{h['method']} as regenerated from {RING_SRC}: on a machine whose usize has modulus {h['modulus']} "
                    f"(storage of {h['capacity']} <= modulus/2 elements, valid state) an index addition reaches the modulus "
                    "-- overflow panic with overflow checks, a wrapped (wrong) index without.  At modulus 2^64 the same "
                    "arithmetic needs an argument near usize::MAX.",
            "why": broken, "model": "generated_ck", "witness": h, "all_witnesses": len(hits),
            "coq": "Eval vm_compute in scaled_down_hits.  (* Ring/RingGenCkRun.v; rows: method code, modulus, state, [index] *)",
            "replay": "./check.py C06 --replay <this file>"})
    return hits, note


# ---------------------------------------------------------------------------


def main(rep, tier, seed):
    rng = F.Rng(seed)
    t0 = time.time()
    names, regenerated, terr = regenerate()
    tinfo = {"source": RING_SRC, "generated_files": ["coq/gen/RingGen.v", "coq/gen/RingGenCk.v"], "rewritten": list(regenerated or []),
             "definitions": len(names or []), "translate_s": round(time.time() - t0, 2), "error": terr}
    if terr is None:
        # self-test of "never silently skipped": single-token edits of the method bodies must be rejected or change the output
        try:
            sens = T.sensitivity(open(RING_SRC).read())
        except (T.TranslateError, OSError) as e:
            sens = dict(sites=0, tried=0, rejected=0, changed=0, ignored=[f"self-test failed: {e}"])
        tinfo["sensitivity_self_test"] = dict(single_token_edits=sens["tried"], rejected=sens["rejected"],
                                              change_the_generated_model=sens["changed"], ignored=len(sens["ignored"]))
        tinfo["translate_s"] = round(time.time() - t0, 2)
        if sens["ignored"]:
            rep.violation("translator_insensitive", {"kind": "translate/ring2coq.py ignores part of a method body: an edit of the source leaves the generated model unchanged",
                                                    "edits": sens["ignored"][:20]}, no_input=True)
    if TEST_RING:
        rep.notes.append(f"note: DASP_RING_RS={TEST_RING} (testing mode: the translator reads this file instead of /repo's lib.rs; "
                         + ("the harness is a scratch build of the same file under out/c06_scratch)" if TEST_HARNESS
                            else "the harness is still built against /repo, only the translator side sees the change)"))
    info = proof_phase(rep, terr)
    info["translator"] = tinfo
    broken = info.get("broken")
    if TEST_HARNESS:
        ok, blog, binpath = scratch_harness()
    else:
        ok, blog, binpath = F.harness_build("c06")
    if not ok:
        rep.violation("harness_build", {"kind": "harness does not build against /repo", "log": blog[-4000:]}, no_input=True)
        if broken:
            rep.violation("translator_tie_broken", dict(kind=broken["message"], **broken), no_input=True)
        return finish(rep, info, 0, 0, {}, [])
    corpus = load_corpus()
    items, n_exh = gen_cases(rng, tier)
    items = corpus + items
    outl, bad, errors = F.correspond(binpath, items, HEADER, CHECK, "c06")
    for name, msg in errors:
        rep.violation("correspondence_error_" + name.replace("/", "_"), {"kind": "correspondence could not be evaluated", "where": name, "log": msg}, no_input=True)
    # the same cases in the release and overflow-checked-release profiles: observations must not depend on the profile
    pdiffs, perrs = F.profile_diff("c06", items, outl, profiles=("release", "relchk")) if not errors and not TEST_HARNESS else ([], [])
    for name, msg in perrs:
        rep.violation("profile_" + name, {"kind": "harness could not be built/run in another profile", "log": msg}, no_input=True)
    for idx, prof, line in pdiffs[:3]:
        it = items[idx]
        rep.violation(f"profile_{prof}_case{idx}", {
            "kind": f"the crate behaves differently in the {prof} build profile than in the dev profile (the proved model has no profile dependence)",
            "case": case_of(it),
            "harness_line": it["line"], "dev_observations": outl[idx], f"{prof}_observations": line})
    hist = {}
    for it in items:
        for o in it["ops"]:
            key = it["kind"] + ":" + o[0]
            hist[key] = hist.get(key, 0) + 1
    nontriv = len({it["line"] for it, o in zip(items, outl) if nontrivial(it, o)}) if not errors else 0
    panics = sum(o.count("8 ") for o in outl)
    for idx in bad[:3]:
        it = items[idx]

        def fails(c):
            o, b, e = F.correspond(binpath, [c], HEADER, CHECK, "c06_shrink")
            return bool(b) and not e

        small = F.shrink_ops(it, build, fails)
        rc, out, _ = F.run_bin(binpath, [small["line"]])
        _, model = F.coq_eval("c06", HEADER, f"run_case ({small['coq']})")
        rep.violation(f"case{idx}", {
            "kind": "model/implementation disagreement: dasp_ring_buffer does not behave as the ideal queue/delay line the proved model refines",
            "case": case_of(small), **({"why": broken} if broken else {}),
            "harness_line": small["line"], "implementation_observations": out, "model_observations": model[-3000:],
            "original_case_index": idx, "replay": f"./check.py C06 --replay <this file>"})
    # the translator tie broke: the correspondence above was the search at implementation level; now the
    # regenerated model itself (when there is one) on the same cases
    search = None
    if broken:
        search = {"hand_model_vs_crate_failing": len(bad), "cases": len(items)}
        found = bool(bad)
        if broken["stage"] in ("equivalence", "proof") and not errors:
            nc, nh, note = gen_search(rep, binpath, items, outl, broken)
            search.update(generated_vs_crate_failing=nc, generated_vs_hand_failing=nh, note=note)
            found = found or bool(nc) or bool(nh)
        if broken["stage"] == "index_overflow" or (broken["stage"] in ("equivalence", "proof") and not found):
            # (the 64-bit lemmas come after the equivalence in the build: when that one broke they were not attempted)
            hits, note = ck_search(rep, broken)
            search.update(scaled_down_overflow_witnesses=(len(hits) if hits is not None else None), note=note)
            found = found or bool(hits)
        if not found:
            rep.violation("translator_tie_broken", dict(
                kind=broken["message"] + " -- and no failing input was found: the hand model still agrees with the crate on every case"
                     + (", and so does the regenerated model" if search.get("generated_vs_crate_failing") == 0 else ""),
                search=search, **broken), no_input=True)
        info["search"] = search
    elif tier == "thorough" and not errors and not bad:
        # the search tool itself is exercised while nothing is broken: the runner of the generated model
        # (Ring/RingGenRun.v, `_mut` operations routed to the generated `_mut` methods) must agree everywhere
        nc, nh, note = gen_search(rep, binpath, items, outl, dict(stage="none", message="self-test of the generated-model runner: the equivalence is proved, yet the runner of the generated model disagrees (fault in Ring/RingGenRun.v or lib/props/c06.py)"))
        info["generated_runner_self_test"] = dict(generated_vs_crate_failing=nc, generated_vs_hand_failing=nh, note=note)
        if note:
            rep.violation("generated_runner", {"kind": "the runner of the generated model could not be evaluated", "log": note}, no_input=True)
    dist = {"ops_histogram": hist, "exhaustive_small_state_cases": n_exh - N_CAPWRAP[0], "capwrap_cases": N_CAPWRAP[0], "capwrap_capacities": list(CAPSET), "random_histories": len(items) - n_exh - len(corpus),
            "corpus_cases": len(corpus), "panic_observations": panics, "profiles": ["dev (model compared)", "release (diffed against dev)", "relchk (diffed against dev)"], "profile_differences": len(pdiffs)}
    samples = [items[i]["line"] for i in (0, n_exh // 2, len(items) - 1)]
    return finish(rep, info, len(items), nontriv, dist, samples, bad)


def finish(rep, info, n, nontriv, dist, samples, bad=()):
    th = info.get("theorems", [])
    cov = {
        "obligations": max(1, len(th)), "discharged": len(th) if info.get("coq_ok") else 0,
        "checker_cmd": "translate/ring2coq.py /repo/dasp_ring_buffer/src/lib.rs > coq/gen/RingGen.v, coq/gen/RingGenCk.v; make -f Makefile.coq props/C06.vo (coqc 8.16.1, full .vo) + Print Assumptions audit",
        "trusted_base": F.TRUSTED_COMMON + ["axioms: none (every theorem of props/C06.v is closed under the global context)",
                                           "translate/ring2coq.py (Rust method bodies -> Gallina: evaluation order, control flow, state threading) and the vocabulary Ring/RingPrim.v it translates into; validated through the correspondence of the (proved equal) hand model",
                                           "modelled, not verified: Rust slices as lists, &mut [T] as an (offset, length) range and &mut T as an index into self.data, mem::replace/ptr::read/ptr::write as list updates; the caller-side glue of Ring/RingGenGlue.v (store through a returned reference, visiting an IterMut, draining); usize as nat in the refinement theorems and in the generated model, with the 64-bit reading of every index addition proved free of overflow in valid states for indices up to usize::MAX (c06_index_arith_no_overflow), slice lengths assumed <= 2^63 (true of every non-zero-sized element type)"],
        "theorems": th, "axioms_reported": info.get("axioms", []),
        "translator": info.get("translator", {}), "translator_tie_broken": info.get("broken"), "search": info.get("search"),
        "generated_runner_self_test": info.get("generated_runner_self_test"),
        "evaluations": n, "distinct_nontrivial": nontriv,
        "rule": "the capwrap family (30 capacities 1..257 covering 1, 2, powers of two and their neighbours, even non-powers of two, odd composites and primes x every/corner fill level (Bounded) and first index (Fixed), 2 cap + 3 items passed through so that the indices wrap at least twice, reads at corner indices), every raw (start,len)/(first) state of capacities 0..6 (quick) x each operation followed by a full observation sweep, plus random histories (1300 quick, capacities 1..64) from random raw states over 5 storage kinds (Vec, Box<[T]>, &mut [T], [T; N], Vec with spare capacity); non-trivial = an evicting push or a wrapped slice pair occurs (Bounded), first != 0 (Fixed)",
        "samples": samples, "input_distribution": dist, "disagreements": len(bad),
        "explanation": "theorems: refinement of the model to the ideal queue/delay line for all capacities, states and histories, and equality of every method regenerated from the source with the hand model's on all inputs; ties: the model regenerated by the translator on this run (proved equal), and the model's executable definitions run by coqc on the same cases as the real crate, all observations compared exactly",
    }
    return rep.finish("proof", cov, ["Rust slices are modelled as lists; usize as unbounded nat in the refinement, machine reading of the index additions in Ring/IndexArith.v (slice length <= 2^63)",
                                    "the translator is faithful (validated by the correspondence, not proved)",
                                    "the harness observes through the public API only (from_raw_parts gives arbitrary raw states)"])


def replay(path):
    j = json.load(open(path))
    if j.get("model") == "generated_ck":
        names, regenerated, terr = regenerate()
        if terr:
            print("translator:", terr)
            return 1
        hits, note = ck_hits()
        print("scaled-down witnesses (64-bit reading vs unbounded reading of the regenerated methods):", hits if hits is not None else note)
        print("DISAGREE" if hits or hits is None else "AGREE")
        return 1 if hits or hits is None else 0
    if "case" not in j:
        print("this replay file names a broken lemma / translator error and has no input; re-run ./check.py C06")
        print(json.dumps({k: j.get(k) for k in ("kind", "stage", "broken_lemma", "file", "line", "coq_message", "message")}, indent=1))
        return 1
    it = build(j["case"])
    if TEST_HARNESS:
        ok, blog, binpath = scratch_harness()
    else:
        ok, blog, binpath = F.harness_build("c06")
    rc, out, _ = F.run_bin(binpath, [it["line"]])
    print("case:", it["line"])
    print("implementation:", out)
    if j.get("model") == "generated":
        names, regenerated, terr = regenerate()
        if terr:
            print("translator:", terr)
            return 1
        okb, logb = F.coq_make("theories/Ring/RingGenRun.vo")
        _, gmodel = F.coq_eval("c06", GEN_HEADER, f"gen_run_case ({it['gcoq']})")
        _, hmodel = F.coq_eval("c06", GEN_HEADER, f"run_case ({it['coq']})")
        print("generated model:", gmodel)
        print("hand model:", hmodel)
        fn = "agree_gen" if j.get("against") == "hand" else "check_gen"
        bad, errs = F.coq_check_cases("c06_replay", GEN_HEADER, fn, [f"({it['gcoq']}, {F.zlistlist(F.norm_obs_line(out[0]))})"])
    else:
        _, model = F.coq_eval("c06", HEADER, f"run_case ({it['coq']})")
        print("model:", model)
        o, bad, errs = F.correspond(binpath, [it], HEADER, CHECK, "c06_replay")
    print("AGREE" if not bad and not errs else "DISAGREE")
    return 1 if bad or errs else 0
