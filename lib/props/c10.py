"""C10 — sample<->frame slice views are lossless, in-place and total; slice ops are safe.
Proof: coq/props/C10.v (for every N >= 1, every list: view succeeds iff N | L, L/N frames, frame i
channel c = cell i*N+c of the same memory, round trips, write-through, boxed ownership hand-over
over a ledger, zip_map = map2 / mismatch = assert panic with the destination untouched, derived ops).
Tie: correspondence between the model's executable definitions (Frame/SliceRun.v, evaluated by coqc)
and dasp_slice's public API for N = 1..=32 x L = 0..3N+1 x {u8,i16,f32,I24,u64}: Some/None, lengths,
contents, pointer identity as same/different, stores through mutable views seen in the original,
live-heap-byte deltas around boxed conversions (counting GlobalAlloc), and every length pair <= 6
of the two-slice operations with the destination before/after a caught panic."""
import json, os
import framework as F
import floatbase

PROP = "C10"
META = dict(
    technique="Coq proof over a memory/reference/ownership-ledger model of dasp_slice + coqc-evaluated model vs crate correspondence (pointer identity, live heap bytes, panics observed)",
    text="Machine-checked (Coq 8.16.1) theorems about a model of dasp_slice written after the source (references = data pointer + length over a flat allocation, raw-parts reinterpretation = UB when out of extent, Box hand-over = forget/from_raw/drop on an ownership ledger, zip_map loop with unchecked accesses): for every N >= 1 and every length, the frame view exists iff N | L, has L/N frames, frame i channel c is cell i*N+c of the same allocation, both round trips are the identity, a store through a view is the store at the flat index, boxed conversion reuses the one block (same address, same bytes) and a failed one frees it, zip_map_in_place = map2 and a length mismatch is an assert panic with the destination untouched, derived ops are the element-wise frame op for every frame operation. Tied to the crate by running the same cases through the 32 macro-generated impls x 5 sample formats and comparing Some/None, lengths, contents, pointer identity, live heap bytes and panic/destination snapshots exactly.",
    note="Trusted: Coq kernel; the hand-written model (slices as address+length over a list, usize as nat, the ledger as the meaning of forget/from_raw/drop) validated only through the correspondence (pointer identity and freeing are observed, not proved about rustc); harness + python generators; Base/Float.v for the f32 add/mul of the per-channel-gain cases (validated against rustc by lib/floatbase.py). Axioms: none.",
    design="6/C10")
HEADER = "From Dasp Require Import Frame.SliceRun."
CHECK = "check"

FMT_NAMES = ["u8", "i16", "f32", "I24", "u64"]
FMT_SIZE = [1, 2, 4, 4, 8]
OP_NAMES = ["equilibrium", "map_in_place", "zip_map_in_place", "write", "add_in_place", "add_in_place_with_amp_per_channel"]
ZFMT_NAMES = ["[i32;2]", "[f32;2]", "[u8;2]", "f32(mono)"]
# (op, zfmt) combinations the harness implements
TWO_SLICE = [(2, 0), (3, 0), (4, 0), (3, 1), (4, 1), (5, 1), (3, 2), (3, 3), (4, 3), (5, 3)]
ONE_SLICE = [(0, 0), (1, 0), (0, 1), (0, 2), (0, 3)]


def sample_value(r, fmt):
    if fmt == 0:
        return r.choice([0, 1, 127, 128, 255, r.below(256), r.below(256)])
    if fmt == 1:
        return r.choice([-32768, -1, 0, 1, 32767, r.range(-32768, 32767), r.range(-32768, 32767)])
    if fmt == 2:  # raw f32 bit patterns, NaN payloads and signs included: a view must not touch them
        return r.choice([0, 0x80000000, 0x3F800000, 0x7F800000, 0x7FC00001, 0xFFFFFFFF, 0x00000001,
                         r.below(1 << 32), r.below(1 << 32), r.below(1 << 32)])
    if fmt == 3:
        return r.choice([-8388608, -1, 0, 1, 8388607, r.range(-8388608, 8388607), r.range(-8388608, 8388607)])
    return r.choice([0, 1, (1 << 63) - 1, r.below(1 << 63), r.below(1 << 63), r.below(1 << 32)])


def f32_amp(r):
    """finite f32 bit patterns of moderate magnitude (sums and products stay finite or overflow to inf;
    NaN results are canonicalised on both sides)"""
    return r.choice([0, 0x80000000, 0x3F800000, 0xBF800000, 0x3F000000, 0x3E99999A, 0x40490FDB, 0x7F7FFFFF,
                     0x00000001, 0x00800000, (r.below(2) << 31) | (r.range(100, 150) << 23) | r.below(1 << 23),
                     (r.below(2) << 31) | (r.range(100, 150) << 23) | r.below(1 << 23)])


def build(item):
    it = dict(item)
    k = it["kind"]
    J = lambda xs: " ".join(str(x) for x in xs)
    if k == "V":
        it["line"] = f"V {it['fmt']} {it['N']} ; {J(it['data'])} ; {J(it['w1'])} ; {J(it['w2'])} ; {J(it['s1'])} ; {J(it['s2'])}"
        it["coq"] = (f"CView {F.zlit(it['N'])} {F.zlist(it['data'])} {F.zlist(it['w1'])} {F.zlist(it['w2'])} "
                     f"{F.zlist(it['s1'])} {F.zlist(it['s2'])}")
    elif k == "B":
        it["line"] = f"B {it['fmt']} {it['N']} ; {J(it['data'])}"
        it["coq"] = f"CBoxed {F.zlit(it['N'])} {F.zlit(FMT_SIZE[it['fmt']])} {F.zlist(it['data'])}"
    else:
        fl = lambda fs: [x for f in fs for x in f]
        it["line"] = f"Z {it['op']} {it['fmt']} {it['k']} ; {J(fl(it['a']))} ; {J(fl(it['b']))} ; {J(it['amp'])}"
        it["coq"] = (f"COp {F.zlit(it['op'])} {F.zlit(it['fmt'])} {F.zlistlist(it['a'])} {F.zlistlist(it['b'])} "
                     f"{F.zlist(it['amp'])} {F.zlit(it['k'])}")
    return it


def view_case(r, fmt, N, L):
    data = [sample_value(r, fmt) for _ in range(L)]
    K = L // N

    def fwrite():
        wi = r.below(K) if K and not r.chance(1, 8) else K          # K = one past the last frame -> index panic
        wc = r.below(N) if not r.chance(1, 10) else N
        return [wi, wc, sample_value(r, fmt)]

    def swrite():
        sj = r.below(K * N) if K and not r.chance(1, 8) else K * N
        return [sj, sample_value(r, fmt)]

    return build(dict(kind="V", fmt=fmt, N=N, data=data, w1=fwrite(), w2=fwrite(), s1=swrite(), s2=swrite()))


def op_values(r, zfmt, n):
    if zfmt == 0:
        return [[r.range(-1000, 1000), r.range(-1000, 1000)] for _ in range(n)]
    if zfmt == 1:
        return [[f32_amp(r), f32_amp(r)] for _ in range(n)]
    if zfmt == 3:
        return [[f32_amp(r)] for _ in range(n)]
    return [[r.below(256), r.below(256)] for _ in range(n)]


def amp_for(r, zf):
    return [f32_amp(r), f32_amp(r)] if zf == 1 else [f32_amp(r)] if zf == 3 else [0, 0]


def gen_cases(rng, tier):
    items = []
    fmts_all = list(range(5))
    # 1. views and boxed conversions: every N, every L in 0..3N+1
    for N in range(1, 33):
        for L in range(0, 3 * N + 2):
            r = rng.fork(f"v{N}_{L}")
            if tier == "quick":
                vf = [(N + L) % 5]
                bf = [(N + 2 * L + 1) % 5]
            else:
                vf, bf = fmts_all, fmts_all
            for fmt in vf:
                items.append(view_case(r, fmt, N, L))
            for fmt in bf:
                items.append(build(dict(kind="B", fmt=fmt, N=N, data=[sample_value(r, fmt) for _ in range(L)])))
    # a few long slices (lengths well beyond 3N+1) per tier
    for j in range(24 if tier == "quick" else 240):
        r = rng.fork(f"long{j}")
        N = r.range(1, 32)
        top = 12 if tier == "quick" else 24
        L = r.choice([N * r.range(4, top), N * r.range(4, top) + r.range(1, max(1, N - 1)), r.range(100, 400 if tier == "quick" else 800)])
        fmt = r.below(5)
        if r.chance(1, 2):
            items.append(view_case(r, fmt, N, L))
        else:
            items.append(build(dict(kind="B", fmt=fmt, N=N, data=[sample_value(r, fmt) for _ in range(L)])))
    n_grid = len(items)
    # 2. in-place operations: every pair of lengths 0..6 for the two-slice operations
    reps = 1 if tier == "quick" else 6
    for rep_i in range(reps):
        for (op, zf) in TWO_SLICE:
            for la in range(0, 7):
                for lb in range(0, 7):
                    r = rng.fork(f"z{rep_i}_{op}_{zf}_{la}_{lb}")
                    items.append(build(dict(kind="Z", op=op, fmt=zf, k=0, a=op_values(r, zf, la), b=op_values(r, zf, lb),
                                            amp=amp_for(r, zf))))
        for (op, zf) in ONE_SLICE:
            for la in range(0, 7):
                r = rng.fork(f"o{rep_i}_{op}_{zf}_{la}")
                items.append(build(dict(kind="Z", op=op, fmt=zf, k=r.range(-50, 50), a=op_values(r, zf, la), b=[], amp=[0, 0])))
    if tier == "thorough":  # longer equal/mismatched pairs
        for j in range(400):
            r = rng.fork(f"zl{j}")
            op, zf = r.choice(TWO_SLICE)
            la = r.range(0, 60)
            lb = la if r.chance(1, 2) else r.range(0, 60)
            items.append(build(dict(kind="Z", op=op, fmt=zf, k=0, a=op_values(r, zf, la), b=op_values(r, zf, lb),
                                    amp=amp_for(r, zf))))
    return items, n_grid


def nontrivial(it, obs_line):
    """a state-dependent branch is exercised: the divisibility test fails with N >= 2 (V, B), a store
    through a mutable view completed (V: an observation `7`), or the two slices differ in length (Z)."""
    if it["kind"] in ("V", "B"):
        N, L = it["N"], len(it["data"])
        if N >= 2 and L % N != 0:
            return True
        if it["kind"] == "V":
            return "7" in obs_line.split(";")
        return False
    return (it["op"], it["fmt"]) in TWO_SLICE and len(it["a"]) != len(it["b"])


def load_corpus():
    d = os.path.join(F.VERIF, "corpus", PROP)
    items = []
    if os.path.isdir(d):
        for fn in sorted(os.listdir(d)):
            if fn.endswith(".json"):
                items.append(build(json.load(open(os.path.join(d, fn)))))
    return items


def case_fields(it):
    return {k: it[k] for k in ("kind", "fmt", "N", "data", "w1", "w2", "s1", "s2", "op", "k", "a", "b", "amp") if k in it}


def shrink(it, fails):
    """value-magnitude then length shrinking (the structure of a case is fixed by (kind, N, L))"""
    cur = it
    cands = []
    if it["kind"] in ("V", "B"):
        N, L = it["N"], len(it["data"])
        small = dict(case_fields(it), data=[(i + 1) % 100 for i in range(L)])
        cands.append(small)
        for L2 in sorted({L % N, N + L % N, 2 * N + L % N}):
            if L2 < L:
                c = dict(small, data=small["data"][:L2])
                if it["kind"] == "V":
                    K2 = L2 // N
                    c.update(w1=[min(it["w1"][0], K2), it["w1"][1], 99], w2=[min(it["w2"][0], K2), it["w2"][1], 98],
                             s1=[min(it["s1"][0], K2 * N), 97], s2=[min(it["s2"][0], K2 * N), 96])
                cands.append(c)
    else:
        if it["fmt"] in (0, 2):
            cands.append(dict(case_fields(it), a=[[i + 1, -(i + 1)] for i in range(len(it["a"]))],
                              b=[[10 * (i + 1), 7] for i in range(len(it["b"]))]))
    for c in cands:
        b = build(c)
        if fails(b):
            cur = b
    return cur


def correspond(binpath, items, tag):
    """F.correspond with two differences that only concern resources: the cases are dealt to the coqc
    shards in a strided order (so that the few long slices do not end up in one multi-megabyte file) and
    in smaller files; a shard whose coqc process died (out of memory on a loaded machine) is retried once
    in small pieces.  Verdicts are per case and identical to F.correspond's."""
    rc, outl, err = F.run_bin_parallel(binpath, [it["line"] for it in items])
    if rc != 0 or len(outl) != len(items):
        return outl, [], [("harness", f"rc={rc} lines={len(outl)}/{len(items)} stderr={err[-1500:]}")]
    terms = []
    for it, o in zip(items, outl):
        try:
            terms.append(f"({it['coq']}, {F.zlistlist(F.norm_obs_line(o))})")
        except ValueError:
            return outl, [], [("harness", f"unparsable observation line {o[:200]!r} for {it['line'][:200]!r}")]
    n = len(terms)
    S = 97
    order = [i for r in range(S) for i in range(r, n, S)]
    per_file = 120
    bad_p, errs = F.coq_check_cases(tag, HEADER, CHECK, [terms[i] for i in order], per_file=per_file)
    bad = [order[k] for k in bad_p]
    nfiles = max(1, min(max(F.NCPU, (n + per_file - 1) // per_file), n))
    step = (n + nfiles - 1) // nfiles if n else 1
    errors = []
    for name, msg in errs:
        try:
            k0 = int(name.split("_")[1])
        except (IndexError, ValueError):
            errors.append((name, msg))
            continue
        part = order[k0:k0 + step]
        b2, e2 = F.coq_check_cases(tag + "_retry", HEADER, CHECK, [terms[i] for i in part], shards=1, per_file=20)
        bad += [part[k] for k in b2]
        errors += [(name + "/" + nm, m) for nm, m in e2]
    return outl, sorted(bad), errors


def main(rep, tier, seed):
    rng = F.Rng(seed)
    info = F.standard_proof_phase(rep, PROP)
    ok, blog, binpath = F.harness_build("c10")
    if not ok:
        rep.violation("harness_build", {"kind": "harness does not build against /repo", "log": blog[-4000:]}, no_input=True)
        return finish(rep, info, 0, 0, {}, [])
    fb_n, fb_bad, fb_err = floatbase.run(rng.fork("floatbase"), 300 if tier == "quick" else 3000)
    for name, msg in fb_err:
        rep.violation("floatbase_error", {"kind": "float base could not be validated", "where": name, "log": msg}, no_input=True)
    if fb_bad:
        rep.violation("floatbase", {"kind": "Base/Float.v disagrees with rustc on an IEEE operation (model base, not dasp)",
                                    "cases": fb_bad[:5]}, no_input=True)
    corpus = load_corpus()
    items, n_grid = gen_cases(rng, tier)
    items = corpus + items
    outl, bad, errors = correspond(binpath, items, "c10")
    # the same cases in the release and overflow-checked-release profiles: C10's observations (incl. the
    # length-mismatch panics, which are plain assert!s) must not depend on the build profile
    pdiffs, perrs = F.profile_diff("c10", items, outl, profiles=("release", "relchk")) if not errors else ([], [])
    for name, msg in perrs:
        rep.violation("profile_" + name, {"kind": "harness could not be built/run in another profile", "log": msg}, no_input=True)
    for idx, prof, line in pdiffs[:3]:
        rep.violation(f"profile_{prof}_case{idx}", {
            "kind": f"the crate behaves differently in the {prof} build profile than in the dev profile (the proved model has no profile dependence; e.g. a length check that only exists under debug assertions)",
            "harness_line": items[idx]["line"], "dev_observations": outl[idx], f"{prof}_observations": line})
    for name, msg in errors:
        rep.violation("correspondence_error_" + name.replace("/", "_"),
                      {"kind": "correspondence could not be evaluated", "where": name, "log": msg}, no_input=True)
    hist = {"kind": {}, "format": {}, "N": {}, "divisible": {"yes": 0, "no": 0}, "op": {}, "pair": {"equal": 0, "mismatched": 0},
            "stores_through_views": 0, "index_panics_through_views": 0, "assert_panics": 0, "boxed_failures_freed": 0}
    for it, o in zip(items, outl if not errors else [""] * len(items)):
        hist["kind"][it["kind"]] = hist["kind"].get(it["kind"], 0) + 1
        if it["kind"] in ("V", "B"):
            fk = it["kind"] + ":" + FMT_NAMES[it["fmt"]]
            hist["format"][fk] = hist["format"].get(fk, 0) + 1
            hist["N"][str(it["N"])] = hist["N"].get(str(it["N"]), 0) + 1
            hist["divisible"]["yes" if len(it["data"]) % it["N"] == 0 else "no"] += 1
            parts = o.split(";")
            if it["kind"] == "V":
                hist["stores_through_views"] += parts.count("7")
                hist["index_panics_through_views"] += parts.count("8 2")
            else:
                hist["boxed_failures_freed"] += sum(1 for p in parts if p.startswith("0 -"))
        else:
            ok_ = OP_NAMES[it["op"]] + ":" + ZFMT_NAMES[it["fmt"]]
            hist["op"][ok_] = hist["op"].get(ok_, 0) + 1
            if (it["op"], it["fmt"]) in TWO_SLICE:
                hist["pair"]["equal" if len(it["a"]) == len(it["b"]) else "mismatched"] += 1
            hist["assert_panics"] += o.split(";").count("8 3")
    nontriv = len({it["line"] for it, o in zip(items, outl) if nontrivial(it, o)}) if not errors else 0
    for idx in bad[:3]:
        it = items[idx]

        def fails(c):
            o, b, e = F.correspond(binpath, [c], HEADER, CHECK, "c10_shrink")
            return bool(b) and not e

        small = shrink(it, fails)
        rc, out, _ = F.run_bin(binpath, [small["line"]])
        _, model = F.coq_eval("c10", HEADER, f"run_case ({small['coq']})")
        rep.violation(f"case{idx}", {
            "kind": "model/implementation disagreement: dasp_slice does not behave as the proved model of the slice views / in-place operations",
            "case": case_fields(small), "harness_line": small["line"], "implementation_observations": out,
            "model_observations": model[-3000:], "original_case_index": idx,
            "replay": "./check.py C10 --replay <this file>"})
    dist = dict(hist, grid_and_long_cases=n_grid, op_cases=len(items) - n_grid - len(corpus), corpus_cases=len(corpus),
                floatbase_cases=fb_n, floatbase_disagreements=len(fb_bad))
    samples = [items[i]["line"][:300] for i in (len(corpus) + 9, len(corpus) + n_grid // 2, len(items) - 1) if i < len(items)]
    return finish(rep, info, len(items), nontriv, dist, samples, bad)


def finish(rep, info, n, nontriv, dist, samples, bad=()):
    th = info.get("theorems", [])
    cov = {
        "obligations": max(1, len(th)), "discharged": len(th) if info.get("coq_ok") else 0,
        "checker_cmd": "make -f Makefile.coq props/C10.vo (coqc 8.16.1, full .vo) + Print Assumptions audit",
        "trusted_base": F.TRUSTED_COMMON + [
            "axioms: none (every theorem of props/C10.v is closed under the global context)",
            "modelled, not verified: a slice reference as (address, length) over a list of cells, usize as nat (no length near 2^64), "
            "mem::forget / Box::from_raw / drop as transitions of an ownership ledger; pointer identity and freeing are tied to the "
            "crate only by the observations (same/different data pointer, live heap bytes from a counting GlobalAlloc)",
            "Base/Float.v (Flocq BinarySingleNaN) for f32 add/mul in the add_in_place cases, validated against rustc by lib/floatbase.py"],
        "theorems": th, "axioms_reported": info.get("axioms", []),
        "evaluations": n, "distinct_nontrivial": nontriv,
        "rule": "every N in 1..=32 x every L in 0..3N+1 for the view case and the boxed case (quick: one of the 5 sample formats per (N,L), "
                "rotating so that every N meets every format and both divisible and non-divisible L; thorough: all 5), plus long slices; "
                "every (op, frame format) x every length pair 0..6 x 0..6; non-trivial = N >= 2 and L not a multiple of N (the divisibility "
                "test fails), or a store through a mutable view completed, or the two slices of a two-slice operation differ in length",
        "samples": samples, "input_distribution": dist, "disagreements": len(bad),
        "explanation": "theorems: for all N >= 1 and all lists, over an explicit memory/reference/ledger model; tie: the model's executable "
                       "definitions run by coqc on the same cases as the real crate, all observations compared exactly",
    }
    return rep.finish("proof", cov, ["slice references are modelled as (address, length) over a flat list of cells, usize as unbounded nat",
                                    "the ownership ledger is a model of the unsafe code's intent, tied by observing pointer identity and live heap bytes",
                                    "the frame operations (add_amp, mul_amp, EQUILIBRIUM, closures) are parameters of the in-place-op theorems"])


def replay(path):
    j = json.load(open(path))
    it = build(j["case"])
    ok, blog, binpath = F.harness_build("c10")
    rc, out, _ = F.run_bin(binpath, [it["line"]])
    _, model = F.coq_eval("c10", HEADER, f"run_case ({it['coq']})")
    print("case:", it["line"])
    print("implementation:", out)
    print("model:", model)
    o, bad, errs = F.correspond(binpath, [it], HEADER, CHECK, "c10_replay")
    print("AGREE" if not bad and not errs else "DISAGREE")
    return 1 if bad or errs else 0
