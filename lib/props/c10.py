"""C10 — sample<->frame slice views are lossless, in-place and total; slice ops are safe.
Proof: coq/props/C10.v (for every N >= 1, every list: view succeeds iff N | L, L/N frames, frame i
channel c = cell i*N+c of the same memory, round trips, write-through, boxed ownership hand-over
over a ledger, zip_map = map2 / mismatch = assert panic with the destination untouched, derived ops).
Tie: correspondence between the model's executable definitions (Frame/SliceRun.v, evaluated by coqc)
and dasp_slice's public API for N = 1..=32 x L = 0..3N+1 x {u8,i16,f32,I24,u64}: Some/None, lengths,
contents, pointer identity as same/different, stores through mutable views seen in the original,
live-heap-byte deltas around boxed conversions (counting GlobalAlloc), and every length pair <= 6
of the two-slice operations with the destination before/after a caught panic.
`W` cases: every in-place operation over ALL FOURTEEN sample formats x {bare sample, [S;2], [S;3]} with the C03 model
of the frame operations (Sample/SampleOps.v, Frame/FrameOps.v) as the element-wise reference (Frame/SliceRunW.v over
the fallible loops of Frame/SliceFallible.v): every special-cased gain (0, -0, 1, -1, 0.5, 2, 1 +- ulp) on all
channels and mixed per channel x boundary-structured and off-float-grid samples, in the dev build (Checked model),
the release build (Wrapping model) and relchk.  `I` cases: the identity impls and the free-function boxed forms."""
import json, os, struct, time
import framework as F
import floatbase

PROP = "C10"
META = dict(
    technique="Coq proof over a memory/reference/ownership-ledger model of dasp_slice + coqc-evaluated model vs crate correspondence (pointer identity, live heap bytes, panics observed)",
    text="Machine-checked (Coq 8.16.1) theorems about a model of dasp_slice written after the source (references = data pointer + length over a flat allocation, raw-parts reinterpretation = UB when out of extent, Box hand-over = forget/from_raw/drop on an ownership ledger, zip_map loop with unchecked accesses): for every N >= 1 and every length, the frame view exists iff N | L, has L/N frames, frame i channel c is cell i*N+c of the same allocation, both round trips are the identity, a store through a view is the store at the flat index, boxed conversion reuses the one block (same address, same bytes) and a failed one frees it, zip_map_in_place = map2 and a length mismatch is an assert panic with the destination untouched, derived ops are the element-wise frame op for every frame operation. Tied to the crate by running the same cases through the 32 macro-generated impls x 5 sample formats and comparing Some/None, lengths, contents, pointer identity, live heap bytes and panic/destination snapshots exactly. The in-place operations are also proved for a frame operation that can panic (overflow-checked add_amp): the walk stores results front to back, the first panic leaves its frame and all later ones untouched, a total operation gives back the pure model; these run over all 14 sample formats x 3 frame shapes with the C03 model of add_amp/mul_amp/scale_amp/offset_amp as the element-wise reference, for every special-cased gain (0, -0, 1, -1, 0.5, 2, 1 +- ulp; all channels equal and mixed) x boundary-structured and off-float-grid samples, in dev (Checked), release (Wrapping) and relchk builds.",
    note="Trusted: Coq kernel; the hand-written model (slices as address+length over a list, usize as nat, the ledger as the meaning of forget/from_raw/drop) validated only through the correspondence (pointer identity and freeing are observed, not proved about rustc); harness + python generators; Base/Float.v for the f32 add/mul of the per-channel-gain cases (validated against rustc by lib/floatbase.py); for the W cases the C03 model of the sample operations (generated conversions of C01/C02, companion table, I24/I48 operator model of C15) is the reference for the element-wise frame operation - C10 checks that the slice operations ARE that element-wise operation, C03 checks the operation itself. Axioms: none.",
    design="6/C10")
HEADER = "From Dasp Require Import Frame.SliceRun Frame.SliceRunW."
CHECK = "checkx"

FMT_NAMES = ["u8", "i16", "f32", "I24", "u64"]
FMT_SIZE = [1, 2, 4, 4, 8]
OP_NAMES = ["equilibrium", "map_in_place", "zip_map_in_place", "write", "add_in_place", "add_in_place_with_amp_per_channel"]
ZFMT_NAMES = ["[i32;2]", "[f32;2]", "[u8;2]", "f32(mono)"]
# (op, zfmt) combinations the harness implements
TWO_SLICE = [(2, 0), (3, 0), (4, 0), (3, 1), (4, 1), (5, 1), (3, 2), (3, 3), (4, 3), (5, 3)]
ONE_SLICE = [(0, 0), (1, 0), (0, 1), (0, 2), (0, 3)]


def sample_value(r, fmt):
    if fmt == 0:
        return r.choice([0, 1, 127, 128, 255, r.below(256), r.below(256)])
    if fmt == 1:
        return r.choice([-32768, -1, 0, 1, 32767, r.range(-32768, 32767), r.range(-32768, 32767)])
    if fmt == 2:  # raw f32 bit patterns, NaN payloads and signs included: a view must not touch them
        return r.choice([0, 0x80000000, 0x3F800000, 0x7F800000, 0x7FC00001, 0xFFFFFFFF, 0x00000001,
                         r.below(1 << 32), r.below(1 << 32), r.below(1 << 32)])
    if fmt == 3:
        return r.choice([-8388608, -1, 0, 1, 8388607, r.range(-8388608, 8388607), r.range(-8388608, 8388607)])
    return r.choice([0, 1, (1 << 63) - 1, r.below(1 << 63), r.below(1 << 63), r.below(1 << 32)])


def f32_amp(r):
    """finite f32 bit patterns of moderate magnitude (sums and products stay finite or overflow to inf;
    NaN results are canonicalised on both sides)"""
    return r.choice([0, 0x80000000, 0x3F800000, 0xBF800000, 0x3F000000, 0x3E99999A, 0x40490FDB, 0x7F7FFFFF,
                     0x00000001, 0x00800000, (r.below(2) << 31) | (r.range(100, 150) << 23) | r.below(1 << 23),
                     (r.below(2) << 31) | (r.range(100, 150) << 23) | r.below(1 << 23)])


# ---------------------------------------------------------------------------
# `W` cases: the in-place operations over EVERY sample format (codes of Sample/SampleFmt.v = C03's), frames = the
# bare sample / [S; 2] / [S; 3], with the special-cased gains x boundary-structured and off-float-grid values
W_NAMES = ["i8", "i16", "I24", "i32", "I48", "i64", "u8", "u16", "U24", "u32", "U48", "u64", "f32", "f64"]
W_BITS = [8, 16, 24, 32, 48, 64, 8, 16, 24, 32, 48, 64, 32, 64]
W_SIGNED = [0, 1, 2, 3, 4, 5, 0, 1, 3, 3, 5, 5, 12, 13]      # code of the Signed companion (impl_sample! table)
W_SHAPES = [0, 2, 3]                                          # 0 = the bare sample type is the frame
W_WIDE = (3, 5, 9, 11)                                        # more value bits than the Float companion's mantissa
W_RELCHK_AS_RELEASE = (2, 4)                                  # `+` of I24/I48 is gated on cfg!(debug_assertions)


def w_range(c):
    b = W_BITS[c]
    return (-(1 << (b - 1)), (1 << (b - 1)) - 1) if c < 6 else (0, (1 << b) - 1)


def w_half(c):
    return 0 if c < 6 else 1 << (W_BITS[c] - 1)


def w_fw(c):
    """width of the Float companion of the Signed companion of format c"""
    return 64 if W_SIGNED[c] in (4, 5, 13) else 32


def fbits(w, x):
    return struct.unpack("<I", struct.pack("<f", x))[0] if w == 32 else struct.unpack("<Q", struct.pack("<d", x))[0]


def w_mant(w):
    return 24 if w == 32 else 53


def w_int_val(r, c):
    """boundary-structured value of integer format c: range ends, equilibrium +-1, equilibrium +- 2^k +- 1,
    values OFF the grid of the float companion (a high bit plus low bits), small, uniform"""
    lo, hi = w_range(c)
    h, b = w_half(c), W_BITS[c]
    k = r.below(12)
    if k < 2:
        v = r.choice([lo, lo + 1, hi - 1, hi, h, h - 1, h + 1])
    elif k < 4:
        v = h + r.choice([1, -1]) * (1 << r.below(b)) + r.choice([-1, 0, 1])
    elif k < 7:
        e = r.range(min(b - 2, 20), b - 2)
        v = h + r.choice([1, -1]) * ((1 << e) + 2 * r.below(1 << min(e, 12)) + 1)
    elif k < 9:
        v = h + r.range(-9, 9)
    else:
        v = r.range(lo, hi)
    return min(hi, max(lo, v))


W_FSPECIAL = [0.0, -0.0, 1.0, -1.0, 0.5, -0.5, 0.25, 2.0, -2.0, 0.999, 1e-3, -1e-3, 3.0, 0.75]


def w_float_val(r, w, wild=True):
    """bit pattern of an f32/f64: mostly [-1, 1), specials, a few arbitrary patterns (inf, NaN, subnormal)"""
    k = r.below(20)
    mw, bias = (23, 127) if w == 32 else (52, 1023)
    if k < 5:
        return fbits(w, r.choice(W_FSPECIAL))
    if k < 7:
        return (fbits(w, 1.0) - 1) | (r.below(2) << (w - 1))          # +-(1 - ulp)
    if k < 16 or not wild:
        e = bias - 1 - r.below(r.choice([3, 12, 30]))
        return (r.below(2) << (w - 1)) | (e << mw) | r.below(1 << mw)
    if k < 18:
        return (r.below(2) << (w - 1)) | ((bias + r.range(-3, 3)) << mw) | r.below(1 << mw)
    if k == 18:
        return r.choice([0x7F800000, 0xFF800000, 0x7FC00000, 1, 0x00800000] if w == 32 else
                        [0x7FF0000000000000, 0xFFF0000000000000, 0x7FF8000000000000, 1, 0x0010000000000000])
    return r.below(1 << w)


def w_val(r, c):
    return w_float_val(r, W_BITS[c]) if c >= 12 else w_int_val(r, c)


def w_a_val(r, c):
    """destination samples: half of them near the equilibrium (the sum is then b x gain itself and seldom overflows)"""
    if c >= 12:
        return w_float_val(r, W_BITS[c])
    lo, hi = w_range(c)
    k = r.below(4)
    if k < 2:
        return min(hi, max(lo, w_half(c) + r.range(-9, 9)))
    return w_int_val(r, c) if k == 2 else r.range(lo, hi)


def w_frames(r, c, nch, n, gen):
    return [[gen(r, c) for _ in range(nch)] for _ in range(n)]


def w_gain_patterns(r, c, nch):
    """(name, amp frame): every special-cased gain on ALL channels, special gains mixed per channel, random"""
    w = w_fw(c)
    one = fbits(w, 1.0)
    sp = [("all_1", 1.0), ("all_0", 0.0), ("all_-1", -1.0), ("all_0.5", 0.5), ("all_-0", -0.0), ("all_2", 2.0)]
    pats = [(nm, [fbits(w, g)] * nch) for nm, g in sp]
    pats.append(("all_1-ulp", [one - 1] * nch))
    pats.append(("all_1+ulp", [one + 1] * nch))
    if nch >= 2:
        for nm, others in (("mixed_1_0.5", [0.5]), ("mixed_1_0", [0.0]), ("mixed_1_-1", [-1.0])):
            amp = [one] * nch
            amp[r.below(nch)] = fbits(w, others[0])
            pats.append((nm, amp))
        amp = [one] * nch
        amp[r.below(nch)] = one - 1
        pats.append(("mixed_1_1-ulp", amp))
        pats.append(("mixed_specials", [fbits(w, r.choice([0.0, 1.0, -1.0, 0.5, 2.0, 0.25])) for _ in range(nch)]))
    else:
        pats.append(("one_0.25", [fbits(w, 0.25)]))
    pats.append(("random", [w_float_val(r, w, wild=False) for _ in range(nch)]))
    pats.append(("random_wild", [w_float_val(r, w) for _ in range(nch)]))
    return pats


def w_hot_values(c):
    """source samples a special-cased gain is most likely to get wrong: the range ends (negation, doubling,
    saturation), +-1 and +-3 (halving of odd values), values with more significant bits than the float companion
    holds (c is the code of the Signed format the values belong to)"""
    if c >= 12:
        w = W_BITS[c]
        inf = 0x7F800000 if w == 32 else 0x7FF0000000000000
        nan = 0x7FC00000 if w == 32 else 0x7FF8000000000000
        return [fbits(w, x) for x in (1.0, -1.0, 0.5, -0.75, 1e-3)] + [fbits(w, 1.0) - 1, (fbits(w, 1.0) + 1) | (1 << (w - 1)),
                                                                       inf, inf | (1 << (w - 1)), nan, 1]
    lo, hi = w_range(c)
    b = W_BITS[c]
    e = min(b - 2, w_mant(64 if c in (4, 5) else 32))
    return [lo, hi, lo + 1, hi - 1, -1, 1, -3, 3, (1 << e) + 1, -(1 << e) - 1, (1 << (b - 2)) + 3, -(1 << (b - 2)) - 5]


def w_hot_pair(c, nch, j):
    """first frame pair of a gain case: destination AT the equilibrium (the sum is then the scaled source itself and
    cannot overflow, whatever the gain), source = hot values rotating with the case counter j"""
    sg = W_SIGNED[c]
    hot = w_hot_values(sg)
    eq = 0 if c >= 12 else w_half(c)
    return [eq] * nch, [hot[(j + ch) % len(hot)] for ch in range(nch)]


def w_item(mode, op, c, shape, a, b, amp, k, family):
    return build(dict(kind="W", mode=mode, op=op, fmt=c, shape=shape, a=a, b=b, amp=amp, k=k, family=family))


def gen_w_cases(rng, tier):
    """mode 0 (dev) items; the release-mode twins are made from them by `with_mode`"""
    items = []
    hot_j = 0
    reps = 1 if tier == "quick" else 5
    for rep_i in range(reps):
        for c in range(14):
            sg = W_SIGNED[c]
            for shape in W_SHAPES:
                nch = max(1, shape)
                r = rng.fork(f"w{rep_i}_{c}_{shape}")
                # wide formats (the float companion cannot hold every sample) get every pattern twice
                rounds = 2 if c in W_WIDE else 1
                for rd in range(rounds):
                    for nm, amp in w_gain_patterns(r, c, nch):
                        n = r.range(1, 2)
                        a, b = w_frames(r, c, nch, n, w_a_val), w_frames(r, sg, nch, n, w_val)
                        if (hot_j + rd) % 2 == 0:
                            a[0], b[0] = w_hot_pair(c, nch, hot_j)
                        if c >= 12 and nm in ("all_0", "all_-0"):     # 0 x inf, 0 x NaN: a muted source is not "nothing"
                            hv = w_hot_values(c)
                            a[0], b[0] = [0] * nch, [hv[7 + (hot_j + ch) % 3] for ch in range(nch)]
                        hot_j += 1
                        items.append(w_item(0, 5, c, shape, a, b, amp, 0, "amp:" + nm))
                    for nm, amp in w_gain_patterns(r, c, 1)[:4] + w_gain_patterns(r, c, 1)[-2:-1]:
                        n = r.range(1, 2)
                        a, b = w_frames(r, c, nch, n, w_a_val), w_frames(r, sg, nch, n, w_val)
                        if (hot_j + rd) % 2 == 0:
                            a[0], b[0] = w_hot_pair(c, nch, hot_j)
                        hot_j += 1
                        items.append(w_item(0, 2, c, shape, a, b, amp, 0, "zipscale:" + (nm[4:] if nm.startswith("all_") else nm)))
                # add_in_place: b boundary-structured; b = 0; a at the range ends (overflow in the checked build)
                n = r.range(1, 3)
                items.append(w_item(0, 4, c, shape, w_frames(r, c, nch, n, w_a_val), w_frames(r, sg, nch, n, w_val), [], 0, "add"))
                items.append(w_item(0, 4, c, shape, w_frames(r, c, nch, n, w_val), w_frames(r, sg, nch, n, w_val), [], 0, "add_boundary"))
                zero = 0
                items.append(w_item(0, 4, c, shape, w_frames(r, c, nch, n, w_val), [[zero] * nch for _ in range(n)], [], 0, "add_zero"))
                # write (both slices of FA's format), equilibrium, map_in_place with offset_amp(k)
                n = r.range(1, 3)
                items.append(w_item(0, 3, c, shape, w_frames(r, c, nch, n, w_val), w_frames(r, c, nch, n, w_val), [], 0, "write"))
                items.append(w_item(0, 0, c, shape, w_frames(r, c, nch, r.range(1, 3), w_val), [], [], 0, "equilibrium"))
                for kk in ([0, 1, -1, w_int_val(r, sg)] if c < 12 else [0, fbits(W_BITS[c], 1.0), w_float_val(r, W_BITS[c])]):
                    items.append(w_item(0, 1, c, shape, w_frames(r, c, nch, r.range(1, 3), w_a_val), [], [], kk, "map_offset"))
                # length mismatch through the generic instances (the assert is before the loop for every format)
                # (with a special-cased gain: an early-out for a gain must not come before the assert)
                for op in (5, r.choice([2, 3, 4])):
                    la = r.range(0, 3)
                    lb = la + r.choice([1, 2]) if r.chance(1, 2) or la == 0 else la - 1
                    nm, amp = r.choice(w_gain_patterns(r, c, nch)[:6])
                    items.append(w_item(0, op, c, shape, w_frames(r, c, nch, la, w_a_val),
                                        w_frames(r, c if op == 3 else sg, nch, lb, w_val), amp, 0, "mismatch:" + nm))
    # longer slices (a shortcut may sit behind a length threshold): the wide formats and f32, stereo, unity / mixed gains
    for rep_i in range(reps):
        for c in W_WIDE + (12,):
            sg, w = W_SIGNED[c], w_fw(c)
            for n in (9, 33) if tier == "quick" else (9, 33, 64, 130):
                r = rng.fork(f"wl{rep_i}_{c}_{n}")
                near = lambda r_, c_: w_float_val(r_, W_BITS[c_]) if c_ >= 12 else w_half(c_) + r_.range(-9, 9)
                for nm, amp in (("all_1", [fbits(w, 1.0)] * 2), ("mixed_1_0.5", [fbits(w, 1.0), fbits(w, 0.5)])):
                    items.append(w_item(0, 5, c, 2, w_frames(r, c, 2, n, near), w_frames(r, sg, 2, n, w_val), amp, 0, f"long{n}:" + nm))
    return items


def with_mode(it, mode):
    return build(dict(case_fields(it), mode=mode, family=it.get("family", "")))


def w_offgrid_unity(it):
    """the feature the round-3 seed needed: unity gain on EVERY channel, a wide format, a source sample that the float
    companion cannot represent"""
    if it["kind"] != "W" or it["op"] not in (2, 5) or it["fmt"] not in W_WIDE or len(it["a"]) != len(it["b"]):
        return False
    w = w_fw(it["fmt"])
    amp = it["amp"] if it["op"] == 5 else it["amp"][:1]
    if any(g != fbits(w, 1.0) for g in amp):
        return False
    m = w_mant(w)

    def off(v):
        v = abs(v)
        return v != 0 and v.bit_length() - (v & -v).bit_length() + 1 > m
    return any(off(v) for f in it["b"] for v in f)


def build(item):
    it = dict(item)
    k = it["kind"]
    J = lambda xs: " ".join(str(x) for x in xs)
    if k == "V":
        it["line"] = f"V {it['fmt']} {it['N']} ; {J(it['data'])} ; {J(it['w1'])} ; {J(it['w2'])} ; {J(it['s1'])} ; {J(it['s2'])}"
        it["coq"] = (f"CView {F.zlit(it['N'])} {F.zlist(it['data'])} {F.zlist(it['w1'])} {F.zlist(it['w2'])} "
                     f"{F.zlist(it['s1'])} {F.zlist(it['s2'])}")
    elif k == "B":
        it["line"] = f"B {it['fmt']} {it['N']} ; {J(it['data'])}"
        it["coq"] = f"CBoxed {F.zlit(it['N'])} {F.zlit(FMT_SIZE[it['fmt']])} {F.zlist(it['data'])}"
    elif k == "I":
        it["line"] = f"I {it['fmt']} ; {J(it['data'])}"
        it["coq"] = f"XI {F.zlit(FMT_SIZE[it['fmt']])} {F.zlist(it['data'])}"
        return it
    elif k == "W":
        fl = lambda fs: [x for f in fs for x in f]
        it["line"] = f"W {it['op']} {it['fmt']} {it['shape']} ; {J(fl(it['a']))} ; {J(fl(it['b']))} ; {J(it['amp'])} ; {it['k']}"
        it["coq"] = (f"XW {F.zlit(it['mode'])} {F.zlit(it['op'])} {F.zlit(it['fmt'])} {F.zlit(it['shape'])} "
                     f"{F.zlistlist(it['a'])} {F.zlistlist(it['b'])} {F.zlist(it['amp'])} {F.zlit(it['k'])}")
        return it
    else:
        fl = lambda fs: [x for f in fs for x in f]
        it["line"] = f"Z {it['op']} {it['fmt']} {it['k']} ; {J(fl(it['a']))} ; {J(fl(it['b']))} ; {J(it['amp'])}"
        it["coq"] = (f"COp {F.zlit(it['op'])} {F.zlit(it['fmt'])} {F.zlistlist(it['a'])} {F.zlistlist(it['b'])} "
                     f"{F.zlist(it['amp'])} {F.zlit(it['k'])}")
    it["coq"] = "XZ (" + it["coq"] + ")"
    return it


def view_case(r, fmt, N, L):
    data = [sample_value(r, fmt) for _ in range(L)]
    K = L // N

    def fwrite():
        wi = r.below(K) if K and not r.chance(1, 8) else K          # K = one past the last frame -> index panic
        wc = r.below(N) if not r.chance(1, 10) else N
        return [wi, wc, sample_value(r, fmt)]

    def swrite():
        sj = r.below(K * N) if K and not r.chance(1, 8) else K * N
        return [sj, sample_value(r, fmt)]

    return build(dict(kind="V", fmt=fmt, N=N, data=data, w1=fwrite(), w2=fwrite(), s1=swrite(), s2=swrite()))


def op_values(r, zfmt, n):
    if zfmt == 0:
        return [[r.range(-1000, 1000), r.range(-1000, 1000)] for _ in range(n)]
    if zfmt == 1:
        return [[f32_amp(r), f32_amp(r)] for _ in range(n)]
    if zfmt == 3:
        return [[f32_amp(r)] for _ in range(n)]
    return [[r.below(256), r.below(256)] for _ in range(n)]


def amp_for(r, zf):
    return [f32_amp(r), f32_amp(r)] if zf == 1 else [f32_amp(r)] if zf == 3 else [0, 0]


def gen_cases(rng, tier):
    items = []
    fmts_all = list(range(5))
    # 1. views and boxed conversions: every N, every L in 0..3N+1
    for N in range(1, 33):
        for L in range(0, 3 * N + 2):
            r = rng.fork(f"v{N}_{L}")
            if tier == "quick":
                vf = [(N + L) % 5]
                bf = [(N + 2 * L + 1) % 5]
            else:
                vf, bf = fmts_all, fmts_all
            for fmt in vf:
                items.append(view_case(r, fmt, N, L))
            for fmt in bf:
                items.append(build(dict(kind="B", fmt=fmt, N=N, data=[sample_value(r, fmt) for _ in range(L)])))
    # a few long slices (lengths well beyond 3N+1) per tier
    for j in range(24 if tier == "quick" else 240):
        r = rng.fork(f"long{j}")
        N = r.range(1, 32)
        top = 12 if tier == "quick" else 24
        L = r.choice([N * r.range(4, top), N * r.range(4, top) + r.range(1, max(1, N - 1)), r.range(100, 400 if tier == "quick" else 800)])
        fmt = r.below(5)
        if r.chance(1, 2):
            items.append(view_case(r, fmt, N, L))
        else:
            items.append(build(dict(kind="B", fmt=fmt, N=N, data=[sample_value(r, fmt) for _ in range(L)])))
    # the identity impls (samples as samples, frames as frames; shared, mutable, boxed) and the free-function forms
    # to_boxed_frame_slice / to_boxed_sample_slice: every format x L = 0..7 (and a few longer)
    for fmt in fmts_all:
        for L in list(range(0, 8)) + ([33, 64] if tier == "quick" else [33, 64, 127, 256]):
            r = rng.fork(f"i{fmt}_{L}")
            items.append(build(dict(kind="I", fmt=fmt, data=[sample_value(r, fmt) for _ in range(L)])))
    n_grid = len(items)
    # 2. in-place operations: every pair of lengths 0..6 for the two-slice operations
    reps = 1 if tier == "quick" else 6
    for rep_i in range(reps):
        for (op, zf) in TWO_SLICE:
            for la in range(0, 7):
                for lb in range(0, 7):
                    r = rng.fork(f"z{rep_i}_{op}_{zf}_{la}_{lb}")
                    items.append(build(dict(kind="Z", op=op, fmt=zf, k=0, a=op_values(r, zf, la), b=op_values(r, zf, lb),
                                            amp=amp_for(r, zf))))
        for (op, zf) in ONE_SLICE:
            for la in range(0, 7):
                r = rng.fork(f"o{rep_i}_{op}_{zf}_{la}")
                items.append(build(dict(kind="Z", op=op, fmt=zf, k=r.range(-50, 50), a=op_values(r, zf, la), b=[], amp=[0, 0])))
    if tier == "thorough":  # longer equal/mismatched pairs
        for j in range(400):
            r = rng.fork(f"zl{j}")
            op, zf = r.choice(TWO_SLICE)
            la = r.range(0, 60)
            lb = la if r.chance(1, 2) else r.range(0, 60)
            items.append(build(dict(kind="Z", op=op, fmt=zf, k=0, a=op_values(r, zf, la), b=op_values(r, zf, lb),
                                    amp=amp_for(r, zf))))
    return items, n_grid


def nontrivial(it, obs_line):
    """a state-dependent branch is exercised: the divisibility test fails with N >= 2 (V, B), a store
    through a mutable view completed (V: an observation `7`), or the two slices differ in length (Z), or (W) the
    operation changed the destination / panicked."""
    if it["kind"] in ("V", "B"):
        N, L = it["N"], len(it["data"])
        if N >= 2 and L % N != 0:
            return True
        if it["kind"] == "V":
            return "7" in obs_line.split(";")
        return False
    if it["kind"] == "I":
        return len(it["data"]) % 2 == 1       # the N = 2 free-function boxed conversion fails and frees
    if it["kind"] == "W":   # the frame operation changed the destination, or it panicked, or the assert fired
        parts = obs_line.split(";")
        return len(parts) == 3 and (parts[1].startswith("8") or parts[0] != parts[2])
    return (it["op"], it["fmt"]) in TWO_SLICE and len(it["a"]) != len(it["b"])


def load_corpus():
    d = os.path.join(F.VERIF, "corpus", PROP)
    items = []
    if os.path.isdir(d):
        for fn in sorted(os.listdir(d)):
            if fn.endswith(".json"):
                c = json.load(open(os.path.join(d, fn)))
                if c.get("kind") == "W":
                    c["mode"] = 0        # every W case is run in both modes (dev: 0, release: its mode-1 twin)
                items.append(build(c))
    return items


def case_fields(it):
    return {k: it[k] for k in ("kind", "fmt", "N", "data", "w1", "w2", "s1", "s2", "op", "k", "a", "b", "amp", "mode", "shape") if k in it}


def shrink(it, fails):
    """value-magnitude then length shrinking (the structure of a case is fixed by (kind, N, L))"""
    cur = it
    cands = []
    if it["kind"] in ("V", "B"):
        N, L = it["N"], len(it["data"])
        small = dict(case_fields(it), data=[(i + 1) % 100 for i in range(L)])
        cands.append(small)
        for L2 in sorted({L % N, N + L % N, 2 * N + L % N}):
            if L2 < L:
                c = dict(small, data=small["data"][:L2])
                if it["kind"] == "V":
                    K2 = L2 // N
                    c.update(w1=[min(it["w1"][0], K2), it["w1"][1], 99], w2=[min(it["w2"][0], K2), it["w2"][1], 98],
                             s1=[min(it["s1"][0], K2 * N), 97], s2=[min(it["s2"][0], K2 * N), 96])
                cands.append(c)
    elif it["kind"] == "I":
        for L2 in (0, 1, 2, 3):
            if L2 < len(it["data"]):
                c = build(dict(case_fields(it), data=[(i + 1) % 100 for i in range(L2)]))
                if fails(c):
                    return c
        return cur
    elif it["kind"] == "W":
        # one frame pair at a time (the operations are element-wise), then one channel at a time made neutral
        if len(it["a"]) == len(it["b"]) and len(it["a"]) > 1:
            for i in range(len(it["a"])):
                cands.append(dict(case_fields(it), a=[it["a"][i]], b=[it["b"][i]]))
        elif not it["b"] and len(it["a"]) > 1:
            for i in range(len(it["a"])):
                cands.append(dict(case_fields(it), a=[it["a"][i]]))
        for c in cands:
            b = build(c)
            if fails(b):
                return b
        return cur
    else:
        if it["fmt"] in (0, 2):
            cands.append(dict(case_fields(it), a=[[i + 1, -(i + 1)] for i in range(len(it["a"]))],
                              b=[[10 * (i + 1), 7] for i in range(len(it["b"]))]))
    for c in cands:
        b = build(c)
        if fails(b):
            cur = b
    return cur


def correspond(binpath, items, tag, extra=()):
    """F.correspond with two differences that only concern resources: the cases are dealt to the coqc
    shards in a strided order (so that the few long slices do not end up in one multi-megabyte file) and
    in smaller files; a shard whose coqc process died (out of memory on a loaded machine) is retried once
    in small pieces.  Verdicts are per case and identical to F.correspond's.
    extra = [(item, observation line)] already run elsewhere (the release-build twins of W cases): they join the
    same coqc batch; their indices in the returned list continue after those of `items`."""
    rc, outl, err = F.run_bin_parallel(binpath, [it["line"] for it in items])
    if rc != 0 or len(outl) != len(items):
        return outl, [], [("harness", f"rc={rc} lines={len(outl)}/{len(items)} stderr={err[-1500:]}")]
    if callable(extra):
        extra = extra(outl)
    terms = []
    for it, o in list(zip(items, outl)) + list(extra):
        try:
            terms.append(f"({it['coq']}, {F.zlistlist(F.norm_obs_line(o))})")
        except ValueError:
            return outl, [], [("harness", f"unparsable observation line {o[:200]!r} for {it['line'][:200]!r}")]
    n = len(terms)
    S = 97
    order = [i for r in range(S) for i in range(r, n, S)]
    per_file = 120
    bad_p, errs = F.coq_check_cases(tag, HEADER, CHECK, [terms[i] for i in order], per_file=per_file)
    bad = [order[k] for k in bad_p]
    nfiles = max(1, min(max(F.NCPU, (n + per_file - 1) // per_file), n))
    step = (n + nfiles - 1) // nfiles if n else 1
    errors = []
    for name, msg in errs:
        try:
            k0 = int(name.split("_")[1])
        except (IndexError, ValueError):
            errors.append((name, msg))
            continue
        part = order[k0:k0 + step]
        b2, e2 = F.coq_check_cases(tag + "_retry", HEADER, CHECK, [terms[i] for i in part], shards=1, per_file=20)
        bad += [part[k] for k in b2]
        errors += [(name + "/" + nm, m) for nm, m in e2]
    return outl, sorted(bad), errors


def main(rep, tier, seed):
    rng = F.Rng(seed)
    t0 = time.time()
    times = {}

    def lap(name):
        nonlocal t0
        times[name] = round(time.time() - t0, 1)
        t0 = time.time()

    info = F.standard_proof_phase(rep, PROP)
    lap("proof_phase")
    ok, blog, binpath = F.harness_build("c10")
    if not ok:
        rep.violation("harness_build", {"kind": "harness does not build against /repo", "log": blog[-4000:]}, no_input=True)
        return finish(rep, info, 0, 0, {}, [])
    fb_n, fb_bad, fb_err = floatbase.run(rng.fork("floatbase"), 300 if tier == "quick" else 3000)
    for name, msg in fb_err:
        rep.violation("floatbase_error", {"kind": "float base could not be validated", "where": name, "log": msg}, no_input=True)
    if fb_bad:
        rep.violation("floatbase", {"kind": "Base/Float.v disagrees with rustc on an IEEE operation (model base, not dasp)",
                                    "cases": fb_bad[:5]}, no_input=True)
    lap("harness_build_and_floatbase")
    corpus = load_corpus()
    items, n_grid = gen_cases(rng, tier)
    w_items = gen_w_cases(rng.fork("wide"), tier)
    items = corpus + items + w_items
    w_idx = [i for i, it in enumerate(items) if it["kind"] == "W"]
    o_idx = [i for i, it in enumerate(items) if it["kind"] != "W"]
    # The W cases depend on the build profile only through overflow: an overflowing `+` panics with overflow checks
    # and wraps without.  dev build: compared with the model in Checked mode.  release build: a case that did not
    # panic in the dev build must give the dev observation (no overflow = nothing for the profile to change; a
    # difference is reported), a case that did is compared with the model in Wrapping mode (its mode-1 twin joins
    # the same coqc batch).  relchk (optimised, overflow checks on, debug assertions off) must behave as dev, except
    # I24/I48 whose operators are gated on cfg!(debug_assertions): after a dev panic, as release.
    rel_items, rel_src, outl_rel, outl_chk = [], [], [], []
    wstats = {"release_cases": 0, "release_cases_vs_wrapping_model": 0, "release_differences": 0, "relchk_cases": 0, "relchk_differences": 0}
    bin_rel = bin_chk = None
    if w_idx:
        okr, logr, bin_rel = F.harness_build("c10", profile="release")
        okc, logc, bin_chk = F.harness_build("c10", profile="relchk")
        if not okr or not okc:
            rep.violation("profile_harness_build", {"kind": "harness could not be built in the release / relchk profile",
                                                    "log": (logr if not okr else logc)[-3000:]}, no_input=True)
            bin_rel = bin_chk = None

    def dev_panicked(o):
        return o.split(";")[1:2] != ["7"]

    def release_twins(outl_dev):
        if not bin_rel:
            return []
        rc, o_rel, err = F.run_bin_parallel(bin_rel, [items[i]["line"] for i in w_idx])
        if rc != 0 or len(o_rel) != len(w_idx):
            rep.violation("profile_release_run", {"kind": "release harness run incomplete", "log": err[-1500:]}, no_input=True)
            return []
        outl_rel.extend(o_rel)
        for j, i in enumerate(w_idx):
            if dev_panicked(outl_dev[i]):
                rel_items.append(with_mode(items[i], 1))
                rel_src.append(j)
        return [(it, o_rel[j]) for it, j in zip(rel_items, rel_src)]

    lap("generation_and_profile_builds")
    outl, bad_all, errors = correspond(binpath, items, "c10", extra=release_twins)
    lap("dev_and_release_runs_and_coqc_batch")
    bad = [i for i in bad_all if i < len(items)]
    bad_rel = [i - len(items) for i in bad_all if i >= len(items)]
    wstats["release_cases"] = len(outl_rel)
    wstats["release_cases_vs_wrapping_model"] = len(rel_items)
    # the V/B/I/Z cases in the release and overflow-checked-release profiles: their observations (incl. the
    # length-mismatch panics, which are plain assert!s) must not depend on the build profile
    pdiffs, perrs = ([], [])
    if not errors:
        pd, perrs = F.profile_diff("c10", [items[i] for i in o_idx], [outl[i] for i in o_idx], profiles=("release", "relchk"))
        pdiffs = [(o_idx[j], prof, line) for j, prof, line in pd]
    for name, msg in perrs:
        rep.violation("profile_" + name, {"kind": "harness could not be built/run in another profile", "log": msg}, no_input=True)
    for idx, prof, line in pdiffs[:3]:
        rep.violation(f"profile_{prof}_case{idx}", {
            "kind": f"the crate behaves differently in the {prof} build profile than in the dev profile (the proved model has no profile dependence; e.g. a length check that only exists under debug assertions)",
            "harness_line": items[idx]["line"], "dev_observations": outl[idx], f"{prof}_observations": line})
    if not errors and outl_rel:
        shown = 0
        for j, i in enumerate(w_idx):
            if not dev_panicked(outl[i]) and outl_rel[j] != outl[i]:
                wstats["release_differences"] += 1
                if shown < 3:
                    shown += 1
                    rep.violation(f"profile_release_case{i}", {
                        "kind": "an in-place operation that completes without a panic in the dev build (where it agrees with the model) gives "
                                "a different result in the release build",
                        "case": case_fields(with_mode(items[i], 1)), "harness_line": items[i]["line"],
                        "dev_observations": outl[i], "release_observations": outl_rel[j],
                        "replay": "./check.py C10 --replay <this file>   (release build against the Wrapping model)"})
        rc, o_chk, err = F.run_bin_parallel(bin_chk, [items[i]["line"] for i in w_idx])
        if rc != 0 or len(o_chk) != len(w_idx):
            rep.violation("profile_relchk_run", {"kind": "relchk harness run incomplete", "log": err[-1500:]}, no_input=True)
        else:
            outl_chk = o_chk
            wstats["relchk_cases"] = len(w_idx)
            shown = 0
            for j, i in enumerate(w_idx):
                # I24/I48: no panic in the dev build = no profile can differ; otherwise the operators wrap as in
                # release, unless the representation-type `+` itself overflows (possible only for out-of-range
                # inner values, which a saturating float conversion of a huge product yields): that is rustc's
                # overflow panic, in this profile only, and the model has no such third mode - status accepted
                as_rel = items[i]["fmt"] in W_RELCHK_AS_RELEASE and dev_panicked(outl[i])
                expect = outl_rel[j] if as_rel else outl[i]
                if as_rel and outl_chk[j] != expect and outl_chk[j].split(";")[:2] == [expect.split(";")[0], "8 1"]:
                    wstats["relchk_only_representation_overflow_panics"] = wstats.get("relchk_only_representation_overflow_panics", 0) + 1
                    continue
                if outl_chk[j] != expect:
                    wstats["relchk_differences"] += 1
                    if shown < 3:
                        shown += 1
                        rep.violation(f"profile_relchk_case{i}", {
                            "kind": "in the optimised build with overflow checks (relchk) an in-place operation behaves neither as in the "
                                    "build it must agree with (dev for the primitive formats, release for I24/I48 after a dev panic) nor as the model",
                            "case": case_fields(items[i]), "harness_line": items[i]["line"],
                            "expected_observations (" + ("release" if as_rel else "dev") + " build)": expect,
                            "relchk_observations": outl_chk[j],
                            "replay": f"echo '<harness_line>' | harness/target/relchk/c10"})
    for name, msg in errors:
        rep.violation("correspondence_error_" + name.replace("/", "_"),
                      {"kind": "correspondence could not be evaluated", "where": name, "log": msg}, no_input=True)
    lap("profile_diffs")
    hist = {"kind": {}, "format": {}, "N": {}, "divisible": {"yes": 0, "no": 0}, "op": {}, "pair": {"equal": 0, "mismatched": 0},
            "stores_through_views": 0, "index_panics_through_views": 0, "assert_panics": 0, "boxed_failures_freed": 0,
            "wide": {"unity_gain_all_channels_x_wide_format_x_off_grid_source": 0, "dev_overflow_panics_inside_the_frame_operation": 0}}
    for it, o in zip(items, outl if not errors else [""] * len(items)):
        hist["kind"][it["kind"]] = hist["kind"].get(it["kind"], 0) + 1
        if it["kind"] == "I":
            hist["format"]["I:" + FMT_NAMES[it["fmt"]]] = hist["format"].get("I:" + FMT_NAMES[it["fmt"]], 0) + 1
            hist["boxed_failures_freed"] += sum(1 for p in o.split(";") if p.startswith("0 -"))
        elif it["kind"] in ("V", "B"):
            fk = it["kind"] + ":" + FMT_NAMES[it["fmt"]]
            hist["format"][fk] = hist["format"].get(fk, 0) + 1
            hist["N"][str(it["N"])] = hist["N"].get(str(it["N"]), 0) + 1
            hist["divisible"]["yes" if len(it["data"]) % it["N"] == 0 else "no"] += 1
            parts = o.split(";")
            if it["kind"] == "V":
                hist["stores_through_views"] += parts.count("7")
                hist["index_panics_through_views"] += parts.count("8 2")
            else:
                hist["boxed_failures_freed"] += sum(1 for p in parts if p.startswith("0 -"))
        elif it["kind"] == "W":
            hw = hist["wide"]
            for key in ("op:" + OP_NAMES[it["op"]], "format:" + W_NAMES[it["fmt"]], "shape:" + ("bare" if it["shape"] == 0 else f"[S;{it['shape']}]"),
                        "family:" + it.get("family", "corpus")):
                hw[key] = hw.get(key, 0) + 1
            if w_offgrid_unity(it):
                hw["unity_gain_all_channels_x_wide_format_x_off_grid_source"] += 1
            st = o.split(";")[1] if o.count(";") == 2 else ""
            if st.startswith("8 1") or st.startswith("8 4"):
                hw["dev_overflow_panics_inside_the_frame_operation"] += 1
            hist["assert_panics"] += int(st == "8 3")
        else:
            ok_ = OP_NAMES[it["op"]] + ":" + ZFMT_NAMES[it["fmt"]]
            hist["op"][ok_] = hist["op"].get(ok_, 0) + 1
            if (it["op"], it["fmt"]) in TWO_SLICE:
                hist["pair"]["equal" if len(it["a"]) == len(it["b"]) else "mismatched"] += 1
            hist["assert_panics"] += o.split(";").count("8 3")
    hist["wide"].update(wstats)
    nontriv = len({it["line"] for it, o in zip(items, outl) if nontrivial(it, o)}) if not errors else 0
    def report(tagp, bp, its, bads, profile):
        for idx in bads[:3]:
            it = its[idx]

            def fails(c):
                o, b, e = F.correspond(bp, [c], HEADER, CHECK, "c10_shrink")
                return bool(b) and not e

            small = shrink(it, fails)
            rc, out, _ = F.run_bin(bp, [small["line"]])
            _, model = F.coq_eval("c10", HEADER, f"run_xcase ({small['coq']})")
            rep.violation(f"{tagp}{idx}", {
                "kind": "model/implementation disagreement: dasp_slice does not behave as the proved model of the slice views / in-place operations",
                "build_profile": profile,
                "case": case_fields(small), "harness_line": small["line"], "implementation_observations": out,
                "model_observations": model[-3000:], "original_case_index": idx,
                "replay": "./check.py C10 --replay <this file>"})

    report("case", binpath, items, bad, "dev")
    if bad_rel:
        report("release_case", bin_rel, rel_items, bad_rel, "release")
    dist = dict(hist, grid_and_long_cases=n_grid, op_cases=len(items) - n_grid - len(corpus) - len(w_items), wide_format_op_cases=len(w_items),
                corpus_cases=len(corpus), timing_s=times,
                floatbase_cases=fb_n, floatbase_disagreements=len(fb_bad))
    samples = [items[i]["line"][:300] for i in (len(corpus) + 9, len(corpus) + n_grid // 2, len(items) - 1) if i < len(items)]
    wi = [i for i in w_idx if w_offgrid_unity(items[i])]
    if wi:
        samples.append(items[wi[0]]["line"][:300])
    return finish(rep, info, len(items) + len(outl_rel) + len(outl_chk), nontriv, dist, samples, list(bad) + list(bad_rel))


def finish(rep, info, n, nontriv, dist, samples, bad=()):
    th = info.get("theorems", [])
    cov = {
        "obligations": max(1, len(th)), "discharged": len(th) if info.get("coq_ok") else 0,
        "checker_cmd": "make -f Makefile.coq props/C10.vo (coqc 8.16.1, full .vo) + Print Assumptions audit",
        "trusted_base": F.TRUSTED_COMMON + [
            "axioms: none (every theorem of props/C10.v is closed under the global context)",
            "modelled, not verified: a slice reference as (address, length) over a list of cells, usize as nat (no length near 2^64), "
            "mem::forget / Box::from_raw / drop as transitions of an ownership ledger; pointer identity and freeing are tied to the "
            "crate only by the observations (same/different data pointer, live heap bytes from a counting GlobalAlloc)",
            "Base/Float.v (Flocq BinarySingleNaN) for f32 add/mul in the add_in_place cases, validated against rustc by lib/floatbase.py",
            "W cases: the C03 model of Sample::{add_amp, mul_amp} / Frame::{add_amp, mul_amp, scale_amp, offset_amp, EQUILIBRIUM} (Sample/SampleOps.v, "
            "Frame/FrameOps.v, generated conversion and companion tables) as the element-wise reference; validated by C03's own correspondence"],
        "theorems": th, "axioms_reported": info.get("axioms", []),
        "evaluations": n, "distinct_nontrivial": nontriv,
        "rule": "every N in 1..=32 x every L in 0..3N+1 for the view case and the boxed case (quick: one of the 5 sample formats per (N,L), "
                "rotating so that every N meets every format and both divisible and non-divisible L; thorough: all 5), plus long slices; "
                "every (op, frame format) x every length pair 0..6 x 0..6; the identity impls + free-function boxed forms for every format x L = 0..7, 33, 64; "
                "W: every one of the 14 sample formats x {bare, [S;2], [S;3]} x {add_in_place_with_amp_per_channel with each special gain "
                "(1, 0, -1, 0.5, -0, 2, 1-ulp, 1+ulp) on ALL channels, special gains mixed per channel, random gains; zip_map_in_place with an "
                "add_amp(scale_amp(g)) closure for g in 1, 0, -1, 0.5, random; add_in_place (plain, range ends, zero source); write; equilibrium; "
                "map_in_place with offset_amp(k); two length mismatches under a special gain}; in half of the gain cases the first frame pair is (equilibrium, hot source values: range ends, +-1, +-3, 2^mantissa + 1, ...) so that the scaled source is observed unmasked; the 32/64-bit formats and f32 also with 9 and 33 stereo frames under unity and mixed gains, samples from the boundary-structured set (MIN, MAX, equilibrium +-1, "
                "+-2^k +-1, values off the float companion's grid, small, uniform), 1..2 frames (1..3 for the gain-free operations); each W case in dev vs the Checked model, in release vs the dev "
                "observation when the dev build did not panic and vs the Wrapping model when it did, and in relchk vs dev (I24/I48 with a dev panic: vs release); the 32/64-bit formats get every gain pattern twice. "
                "non-trivial = N >= 2 and L not a multiple of N (the divisibility "
                "test fails), or a store through a mutable view completed, or the two slices of a two-slice operation differ in length, or a W case whose "
                "operation changed the destination or panicked, or an I case of odd length (the N = 2 boxed conversion fails and frees)",
        "samples": samples, "input_distribution": dist, "disagreements": len(bad),
        "explanation": "theorems: for all N >= 1 and all lists, over an explicit memory/reference/ledger model; tie: the model's executable "
                       "definitions run by coqc on the same cases as the real crate, all observations compared exactly",
    }
    return rep.finish("proof", cov, ["slice references are modelled as (address, length) over a flat list of cells, usize as unbounded nat",
                                    "the ownership ledger is a model of the unsafe code's intent, tied by observing pointer identity and live heap bytes",
                                    "the frame operations (add_amp, mul_amp, EQUILIBRIUM, closures) are parameters of the in-place-op theorems"])


def replay(path):
    j = json.load(open(path))
    it = build(j["case"])
    prof = "release" if it["kind"] == "W" and it.get("mode") == 1 else None
    ok, blog, binpath = F.harness_build("c10", profile=prof) if prof else F.harness_build("c10")
    rc, out, _ = F.run_bin(binpath, [it["line"]])
    _, model = F.coq_eval("c10", HEADER, f"run_xcase ({it['coq']})")
    print("case:", it["line"], f"(build profile: {prof or 'dev'})")
    print("implementation:", out)
    print("model:", model)
    o, bad, errs = F.correspond(binpath, [it], HEADER, CHECK, "c10_replay")
    print("AGREE" if not bad and not errs else "DISAGREE")
    return 1 if bad or errs else 0
