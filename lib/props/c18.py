"""C18 — sinc interpolation is transparent on the sample grid, linear and finite.

PROVED (coq/props/C18.v, every depth >= 1, every idx <= depth, every buffer content):
  structural safety (max_depth = min(idx+1, depth); `nl - n` never underflows; every tap index is in range
  after Fixed's wrap; interpolate/next_source_frame/reset return Ok), and over the reals with the true
  sin, cos, pi: x = 0 reads exactly frames[idx]; through the Converter at ratio exactly 1 output j is
  source frame j - depth (zero padding before); interpolate is linear in the buffered frames; reset
  returns to the initial silent state; on a primed constant buffer (c, ..., c) interpolate returns c times the
  sum of the 2*depth Hann-windowed sinc weights (any depth), and for depth 4..16 that sum is within 1/100 of 1 at
  every fractional position (Interval, one lemma per depth): constant input reproduced within 1 %.
TESTED numerically here (not proved; they are facts about glibc's sin/cos and about rounding):
  the 1e-12 bound of the ratio-1 clause, linearity within rounding, finiteness, constant input within 1 %
  once the buffer is full for depth > 16 and, for every depth >= 4, in the rounded evaluation with libm.
TIE: the Coq model (Dsp/Sinc.v) is run inside coqc on IEEE binary64 (Dsp/SincRun.v) with sin/cos taken
  from the implementation as data (the harness answers the oracle queries with f64::sin/f64::cos) and
  compared bit for bit with the crate on small cases; a second, literal python transcription of the model
  (lib/c18_model.py) is compared bit for bit with the crate on all cases (depth 1..64) — on the small
  cases all three agree."""
import json, math, os
import framework as F
import floatbase
import c18_model as M

PROP = "C18"
META = dict(
    technique="Coq proof over R (true sin/cos/pi; Interval for the 1 % constant clause, depths 4..16) + structural safety proof for every depth; coqc-evaluated IEEE model with libm values passed in as data vs crate, bit for bit; numeric verdicts for the rounding-dependent clauses",
    text="Machine-checked (Coq 8.16.1): for every depth >= 1 and every reachable index the kernel half-width is min(idx+1, depth), the unsigned subtraction nl-n cannot underflow, every tap index is in range after the ring buffer's wrap, and over the reals with the true sin/cos/pi the interpolator at x = 0 returns exactly frames[idx], a converter at ratio 1 outputs source frame j-depth (zeros before), interpolation is linear in the buffered frames, reset restores the initial silent state, and (exact reals, Interval) a constant input is reproduced within 1 % at every fractional position once the buffer is primed for depth 4..16 (the model's interpolate on a constant buffer is proved equal to c times the sum of the 2*depth Hann-windowed sinc weights, for any depth; that sum is bounded per depth). The 1e-12 bound, linearity within rounding, finiteness, and the 1 % clause for depth > 16 and for the rounded evaluation depend on glibc's sin/cos and on rounding: they are TESTED (depth 1..64, fractional positions, f64/f32/i16, mono/stereo, priming phase and after reset) against the real crate.",
    note="Trusted: Coq kernel; the hand-written model validated by running it in coqc with the implementation's sin/cos values as data and comparing bit for bit; lib/c18_model.py (second transcription, compared bit for bit on all cases); Base/Float.v validated against rustc by floatbase. Axioms: the 4 standard-library axioms of Coq's classical reals (theorems over R only), and for c18_constant_1pct_small_depths the primitive 63-bit integer operations with their specification axioms used by Interval (vm_compute; no primitive floats: i_prec 40). Known finding K5: integer frames overflow in add_amp when the kernel overshoots.",
    design="6/C18")
HEADER = "From Dasp Require Import Dsp.SincRun Dsp.SincRunGen."
CHECK = "check_all"
b64 = M.bits_of_f64
b32 = M.bits_of_f32
FMT_NAMES = {c: M.FMT[c]["name"] for c in M.FMT}
INT_CODES = sorted(M.INT_FORMATS)          # 10..21: the twelve integer formats through the generated conversions
ALL_FMTS = [0, 1, 2] + INT_CODES + [22, 23]
FLOAT32, FLOAT64 = (1, 22), (0, 23)
K5 = "K5"


# ---------------------------------------------------------------------------------------------------
# case construction


def coq_op(o):
    k = o[0]
    if k == "push":
        return f"ZPush {F.zlist(o[1:])}"
    if k == "interp":
        return f"ZInterp {F.zlit(o[1])}"
    if k == "reset":
        return "ZReset"
    if k == "next":
        return "ZNext"
    if k == "ratio":
        return f"ZSetRatio {F.zlit(o[1])}"
    if k == "hz":
        return f"ZSetHz {F.zlit(o[1])} {F.zlit(o[2])}"
    if k == "srate":
        return f"ZSetSample {F.zlit(o[1])}"
    if k in CONV_PLAIN_OPS:
        return CONV_PLAIN_OPS[k]
    if k == "rebuild":
        return f"ZRebuild {o[1]} {F.zlit(o[2])} {F.zlit(o[3])}"
    raise ValueError(k)


CONV_PLAIN_OPS = {"src": "ZSource", "srcpull": "ZSrcPull", "exh": "ZIsExh", "acc": "ZAcc"}


def build(item, ops=None):
    """fills in the oracle queries (arguments at which the model calls sin/cos), the harness line and the Coq term"""
    it = dict(item)
    if ops is not None:
        it["ops"] = ops
    it["sin_args"], it["cos_args"] = M.queries(it)
    ops_txt = " , ".join(" ".join(str(t) for t in o) for o in it["ops"])
    sa, ca = " ".join(map(str, it["sin_args"])), " ".join(map(str, it["cos_args"]))
    ops_coq = "[" + "; ".join(coq_op(o) for o in it["ops"]) + "]"
    if it["kind"] == "D":
        it["line"] = f"D {it['fmt']} {it['ch']} {it['depth']} | {sa} | {ca} | {ops_txt}"
        it["coq"] = (f"DCase {it['fmt']} {it['ch']} {it['depth']} {F.zlist(it['sin_args'])} {F.zlist(it['cos_args'])} {ops_coq}")
    else:
        src = " ".join(str(z) for fr in it["source"] for z in fr)
        it["line"] = f"V {it['fmt']} {it['ch']} {it['depth']} {it['ratio']} | {src} | {sa} | {ca} | {ops_txt}"
        it["coq"] = (f"VCase {it['fmt']} {it['ch']} {it['depth']} {F.zlit(it['ratio'])} {F.zlistlist(it['source'])} "
                     f"{F.zlist(it['sin_args'])} {F.zlist(it['cos_args'])} {ops_coq}")
    return it


def rnd_unit(r):
    """a float in [-1, 1) with structure"""
    k = r.below(10)
    if k == 0:
        return r.choice([0.0, 1.0, -1.0, 0.5, -0.5, 1.0 - 2.0 ** -53, 2.0 ** -20, -2.0 ** -30])
    if k == 1:
        return (r.below(65536) - 32768) / 32768.0
    return (r.below(1 << 53) / float(1 << 53)) * 2.0 - 1.0


def amp_limit(fmt):
    """amplitude bound of the verdict streams of an integer format: a quarter of full scale (no overshoot possible:
    sum |w| < 3 is far from reached by random data; K5 is decided on the concrete evaluation anyway)"""
    return M.FMT[fmt]["half"] // 4 - 1


def rails(fmt):
    F_ = M.FMT[fmt]
    return [F_["lo"], F_["hi"], F_["lo"] + 1, F_["hi"] - 1, F_["equil"]]


def rnd_sample(r, fmt, full_scale=False, wide=False):
    """Z-level sample: f64/f32 bit pattern or integer value"""
    if M.is_int(fmt):
        F_ = M.FMT[fmt]
        if full_scale:
            return r.choice(rails(fmt)[:2] + rails(fmt)[:2] + [r.range(F_["lo"], F_["hi"])])
        lim = amp_limit(fmt)
        a = r.choice([0, 1, -1, lim, -lim, r.range(-lim, lim), r.range(-lim, lim), r.range(-min(lim, 100), min(lim, 100))])
        return a + F_["off"]
    v = rnd_unit(r)
    f64fmt = fmt in FLOAT64
    if wide and r.chance(1, 6):
        v = v * r.choice([1e-300, 1e-30, 1e6, 1e30, 1e200]) if f64fmt else v * r.choice([1e-30, 1e-6, 1e6, 1e20])
    return b64(v) if f64fmt else b32(M.round_f32(v))


def rnd_frame(r, fmt, ch, **kw):
    return [rnd_sample(r, fmt, **kw) for _ in range(ch)]


X_SPECIAL = [0.0, 0.5, 0.25, 0.75, 2.0 ** -10, 2.0 ** -52, 1.0 - 2.0 ** -53, 1.0 / 3.0, 0.1, 0.9]


def rnd_x(r):
    if r.chance(1, 3):
        return r.choice(X_SPECIAL)
    return r.below(1 << 53) / float(1 << 53)


RATIOS = [1.0, 0.5, 0.75, 1.5, 2.0, 1.0 / 3.0, 0.1, 2.5, 3.0, 44100.0 / 48000.0, 48000.0 / 44100.0]


def gen_direct(r, depth, nops, fmt=None, ch=None, full_scale=False, tag="D"):
    fmt = r.choice([0, 1, 2] + ALL_FMTS) if fmt is None else fmt
    ch = r.choice([1, 2]) if ch is None else ch
    ops = []
    for _ in range(nops):
        k = r.below(10)
        if k < 5:
            ops.append(["push"] + rnd_frame(r, fmt, ch, full_scale=full_scale, wide=True))
        elif k < 9:
            ops.append(["interp", b64(rnd_x(r))])
        else:
            ops.append(["reset"])
    return dict(kind="D", fmt=fmt, ch=ch, depth=depth, ops=ops, tag=tag)


def gen_conv(r, depth, nout, fmt=None, ch=None, ratio=None, full_scale=False, tag="V"):
    fmt = r.choice([0, 1, 2] + ALL_FMTS) if fmt is None else fmt
    ch = r.choice([1, 2]) if ch is None else ch
    ratio = (r.choice(RATIOS) if r.chance(2, 3) else 0.05 + r.below(1 << 20) / float(1 << 18)) if ratio is None else ratio
    nsrc = r.choice([0, 1, depth, 2 * depth + 1, int(nout * ratio) + 2])
    source = [rnd_frame(r, fmt, ch, full_scale=full_scale, wide=True) for _ in range(nsrc)]
    ops = []
    for _ in range(nout):
        if r.chance(1, 12):
            ops.append(["ratio", b64(r.choice(RATIOS))])
        ops.append(["next"])
    return dict(kind="V", fmt=fmt, ch=ch, depth=depth, ratio=b64(ratio), source=source, ops=ops, tag=tag)


# ---- Converter setters / accessors between outputs (coq/theories/Dsp/SincConv.v) ----
# Model semantics: a setter changes the ratio and NOTHING else, whatever the accumulator holds; source(), source_mut()
# (without a pull), is_exhausted() change nothing.  The ratios are mostly dyadic so that the accumulator visits every
# phase at the moment of a call: 0 (before the first output), fractional, exactly 1.0 (one whole source frame pending:
# the state between any two outputs at ratio 1), above 1 (integer and not).  Re-announcing the ratio already in force
# (a no-op) is generated as often as a change, through all three setters.
SET_RATIOS = [1.0, 1.0, 0.5, 0.25, 0.75, 1.5, 2.0, 2.5, 3.0, 1.25, 1.0 / 3.0, 0.1, 44100.0 / 48000.0]
HZ_BASES = [44100.0, 48000.0, 8.0, 1.0, 0.3, 96000.0, 22050.0]


def announce(r, ratio, how=None):
    """one of the three public ways of announcing `ratio`; the quotient the crate will form is checked here to be
    exactly `ratio` in binary64 (otherwise set_playback_hz_scale is used)"""
    how = r.below(3) if how is None else how
    if how == 1:
        base = r.choice(HZ_BASES)
        if M.fdiv(ratio * base, base) == ratio:
            return ["hz", b64(ratio * base), b64(base)]
    if how == 2:
        inv = M.fdiv(1.0, ratio)
        if M.fdiv(1.0, inv) == ratio:
            return ["srate", b64(inv)]
    return ["ratio", b64(ratio)]


ODD_RATES = [44100.0, 48000.0, 22254.54, 37800.0, 96000.0, 88200.0, 32000.0, 44056.0, 48000.0 * 1.001, 50400.0]
ODD_SCALES = [0.3, 0.7, 1.1, 3.0, 48000.0 / 44100.0, 1.0 / 3.0, 0.9, 2.2]


def odd_setter(r):
    """a setter with arguments whose quotient is NOT pre-checked: set_hz_to_hz over unusual rate pairs, set_sample_hz_scale
    with a scale whose reciprocal is inexact; returns (op, the ratio binary64 division gives)"""
    if r.chance(1, 2):
        a, b = r.choice(ODD_RATES), r.choice(ODD_RATES)
        return ["hz", b64(a), b64(b)], a / b
    x = r.choice(ODD_SCALES)
    return ["srate", b64(x)], 1.0 / x


def as_rebuild(o):
    return ["rebuild", 1, o[1], o[2]] if o[0] == "hz" else ["rebuild", 2, o[1], 0] if o[0] == "srate" else ["rebuild", 0, o[1], 0]


def rebuild_op(r, ratio):
    """into_source() + one of the three constructors giving `ratio` (checked as in `announce`)"""
    o = announce(r, ratio)
    if o[0] == "hz":
        return ["rebuild", 1, o[1], o[2]]
    if o[0] == "srate":
        return ["rebuild", 2, o[1], 0]
    return ["rebuild", 0, o[1], 0]


def gen_conv_ops(r, depth, nout, fmt=None, ch=None, unit=False, full_scale=False, tag="Vset"):
    """a converter driven by `next` with setter / accessor / rebuild calls between the outputs; unit: the ratio is
    exactly 1 throughout and every setter call re-announces it"""
    fmt = r.choice([0, 1, 2] + ALL_FMTS) if fmt is None else fmt
    ch = r.choice([1, 2]) if ch is None else ch
    ratio = 1.0 if unit else r.choice(SET_RATIOS)
    nsrc = r.choice([0, 1, depth, 2 * depth + 1, int(nout * ratio) + 2, int(nout * ratio) + 2])
    source = [rnd_frame(r, fmt, ch, full_scale=full_scale, wide=True) for _ in range(nsrc)]
    cur = ratio
    ops = []
    if r.chance(1, 6):                        # constructed through one of the other constructors
        ops.append(rebuild_op(r, cur))
    for _ in range(nout):
        if r.chance(3, 5):
            for _ in range(r.range(1, 2)):
                c = r.below(14)
                if c < 5:                     # the ratio in force, announced again
                    ops.append(announce(r, cur))
                elif c < 7 and not unit:      # a new ratio
                    if r.chance(1, 3):
                        o, cur = odd_setter(r)
                        ops.append(o)
                    else:
                        cur = r.choice(SET_RATIOS)
                        ops.append(announce(r, cur))
                elif c < 9:
                    ops.append(["acc"])
                elif c == 9:
                    ops.append(["src"])
                elif c == 10:
                    ops.append(["exh"])
                elif c == 11 and not unit:
                    ops.append(["srcpull"])
                elif c == 12 and not unit:
                    if r.chance(1, 2):
                        o, cur = odd_setter(r)
                        ops.append(as_rebuild(o))
                    else:
                        cur = r.choice(SET_RATIOS)
                        ops.append(rebuild_op(r, cur))
                else:
                    ops.append(announce(r, cur, how=1))
        ops.append(["next"])
    ops.append(["acc"])
    ops.append(["exh"])
    return dict(kind="V", fmt=fmt, ch=ch, depth=depth, ratio=b64(ratio), source=source, ops=ops, tag=tag)


def with_reannouncements(r, item):
    """a ratio-1 delay case with calls that must not be visible inserted between the outputs: the same rates announced
    again (all three setters), source(), is_exhausted(), the accumulator hook -- while priming, once primed and after the
    ring buffer has wrapped around"""
    d, n = item["depth"], len(item["ops"])
    at = {1, r.range(1, max(1, d)), d + r.range(1, d + 2), 2 * d + r.range(1, d + 3), r.range(1, n - 1), r.range(1, n - 1)}
    ops = []
    for k in range(n):
        if k in at:
            ops.append(announce(r, 1.0, how=r.choice([0, 1, 1, 1, 2])))
            if r.chance(1, 3):
                ops.append(r.choice([["src"], ["exh"], ["acc"]]))
        ops.append(["next"])
    return dict(item, ops=ops, sub="reannounce")


def conv_op_phases(item):
    """replays the accumulator arithmetic of a converter case in binary64: for every non-`next` operation the phase of
    the accumulator at the call (zero, frac, one, above1) and whether a setter re-announces the ratio in force"""
    out = []
    if item["kind"] != "V":
        return out
    ival, ratio = 0.0, M.f64_of_bits(item["ratio"])
    for op in item["ops"]:
        k = op[0]
        if k == "next":
            if not ival < 1e6:
                break
            while ival >= 1.0:
                ival -= 1.0
            ival += ratio
            continue
        phase = "zero" if ival == 0.0 else "frac" if ival < 1.0 else "one" if ival == 1.0 else "above1"
        new = None
        if k == "ratio":
            new = M.f64_of_bits(op[1])
        elif k == "hz":
            new = M.fdiv(M.f64_of_bits(op[1]), M.f64_of_bits(op[2]))
        elif k == "srate":
            new = M.fdiv(1.0, M.f64_of_bits(op[1]))
        elif k == "rebuild":
            new = M.ctor_scale(op[1], op[2], op[3])
            out.append((k, phase, "ctor"))
            if not new > 0.0:
                break
            ival, ratio = 0.0, new
            continue
        if new is None:
            out.append((k, phase, "-"))
        else:
            out.append((k, phase, "same" if new == ratio else "new"))
            ratio = new
    return out


def level_sample(r, fmt, level):
    """float sample at an extreme level: 'tiny' (f32: peak 2^-130..2^-120, i.e. around and below MIN_POSITIVE;
    f64: subnormal) or 'huge' (f32 ~1e38, f64 ~1e300)"""
    u = rnd_unit(r)
    if fmt in FLOAT32:
        v = u * (2.0 ** -r.range(120, 130)) if level == "tiny" else u * 1e38
        return b32(M.round_f32(v))
    v = u * (2.0 ** -r.range(1023, 1060)) if level == "tiny" else u * 1e300
    return b64(v)


def rail_frame(r, fmt, ch):
    """integer frame from the rails MIN / MAX (and their neighbours) or the full range"""
    F_ = M.FMT[fmt]
    return [r.choice(rails(fmt) + rails(fmt)[:2] + [r.range(F_["lo"], F_["hi"])]) for _ in range(ch)]


def gen_coq_cases(rng, tier):
    """small cases evaluated by the Coq model (Flocq under vm_compute: ~0.6 ms per float operation)"""
    items = []
    n = 260 if tier == "quick" else 3000
    # construction of depth 0 (Fixed::from panics) and plain construction
    items.append(dict(kind="D", fmt=0, ch=1, depth=0, ops=[], tag="ctor"))
    for k in range(n):
        r = rng.fork(f"coq{k}")
        depth = r.choice([1, 1, 2, 2, 2, 3, 3, 4, 4, 5, 6] + ([7, 8] if tier == "thorough" else []))
        budget = max(2, 28 // depth)
        fs = r.chance(1, 8)
        if r.chance(1, 2):
            items.append(gen_direct(r, depth, r.range(2, 2 * budget), full_scale=fs))
        else:
            items.append(gen_conv(r, depth, r.range(2, budget), full_scale=fs))
    # the Converter's setters / accessors / constructors called between outputs, at every phase of the accumulator
    for k in range(90 if tier == "quick" else 1000):
        r = rng.fork(f"cset{k}")
        depth = r.choice([1, 1, 2, 2, 3, 4])
        items.append(gen_conv_ops(r, depth, r.range(3, max(4, 18 // depth)), unit=(k % 3 == 0), full_scale=r.chance(1, 10)))
    # a few deep ones with a single fractional evaluation in the priming phase and one primed
    for depth in ([9, 16, 32, 64] if tier == "quick" else [9, 12, 16, 24, 32, 48, 64]):
        r = rng.fork(f"deep{depth}")
        for fmt in (0, 1, 2):
            pushes = [["push"] + rnd_frame(r, fmt, 1) for _ in range(2 * depth + 1)]
            k = r.range(1, depth - 1)
            items.append(dict(kind="D", fmt=fmt, ch=1, depth=depth, tag="deep",
                              ops=pushes[:k] + [["interp", b64(rnd_x(r))]] + pushes[k:] + [["interp", b64(rnd_x(r))]]))
    # ratio 1 over the rails of every integer format (generated conversions, specification-guarded), and
    # float streams at tiny / huge levels, ratio 1 and fractional
    for fmt in [2] + INT_CODES:
        r = rng.fork(f"rail{fmt}")
        for ch in ((1, 2) if tier == "thorough" else (r.choice([1, 2]),)):
            d = r.choice([1, 2, 3])
            src = [rail_frame(r, fmt, ch) for _ in range(4)]
            items.append(dict(kind="V", fmt=fmt, ch=ch, depth=d, ratio=b64(1.0), source=src, ops=[["next"]] * (d + 5), tag="rail"))
    for fmt in (0, 1, 22, 23):
        for level in ("tiny", "huge"):
            r = rng.fork(f"lvl{fmt}{level}")
            d = r.choice([1, 2, 3])
            src = [[level_sample(r, fmt, level)] for _ in range(4)]
            items.append(dict(kind="V", fmt=fmt, ch=1, depth=d, ratio=b64(r.choice([1.0, 1.0, 0.75])), source=src,
                              ops=[["next"]] * (d + 5), tag="level"))
    return [build(it) for it in items]


def gen_py_cases(rng, tier):
    """all depths, long histories: crate vs python transcription (with the crate's sin/cos values), bit for bit"""
    items = []
    n = 500 if tier == "quick" else 6000
    for k in range(n):
        r = rng.fork(f"py{k}")
        depth = r.choice([1, 2, 3, 4, 5, 7, 8, 13, 16, 31, 32, 33, 63, 64, r.range(1, 64), r.range(1, 64)])
        fs = r.chance(1, 10)
        if r.chance(1, 2):
            items.append(gen_direct(r, depth, r.range(3, 3 * depth + 12), full_scale=fs, tag="Dpy"))
        else:
            items.append(gen_conv(r, depth, r.range(3, 2 * depth + 12), full_scale=fs, tag="Vpy"))
    for k in range(n // 4):
        r = rng.fork(f"pyset{k}")
        depth = r.choice([1, 2, 3, 4, 5, 7, 8, 13, 16, 31, 32, 33, 63, 64, r.range(1, 64), r.range(1, 64)])
        items.append(gen_conv_ops(r, depth, r.range(3, 2 * depth + 12), unit=(k % 3 == 0), full_scale=r.chance(1, 10), tag="Vsetpy"))
    return [build(it) for it in items]


# ---- verdict cases (numeric clauses) ----


def gen_delay(rng, tier):
    """ratio exactly 1, every format (hand instances 0,1,2; the twelve integer formats incl. the rails MIN / MAX;
    f32 / f64 at ordinary, tiny and huge levels), mono and stereo"""
    depths = [1, 2, 3, 4, 5, 7, 8, 16, 31, 32, 63, 64] if tier == "quick" else list(range(1, 65))
    items = []
    for i, d in enumerate(depths):
        fmts = [0, 1, 2] + ([INT_CODES[i % 12], INT_CODES[(i + 5) % 12], 22 + i % 2] if tier == "quick" else INT_CODES + [22, 23])
        for fmt in fmts:
            r = rng.fork(f"delay{d}.{fmt}")
            ch = r.choice([1, 2])
            L = d + r.range(3, 20)
            if M.is_int(fmt):
                source = [rail_frame(r, fmt, ch) for _ in range(L)]  # exact at x = 0: full scale incl. the rails
            else:
                source = [rnd_frame(r, fmt, ch) for _ in range(L)]
            items.append(dict(kind="V", fmt=fmt, ch=ch, depth=d, ratio=b64(1.0), source=source, ops=[["next"]] * (L + d + 3),
                              tag="delay"))
    # every integer format at small depths (quick: the rotation above only reaches some (format, depth) pairs)
    for fmt in INT_CODES:
        for ch in (1, 2):
            r = rng.fork(f"delayint{fmt}.{ch}")
            d = r.choice([1, 2, 3, 4, 6])
            L = d + r.range(4, 12)
            items.append(dict(kind="V", fmt=fmt, ch=ch, depth=d, ratio=b64(1.0), source=[rail_frame(r, fmt, ch) for _ in range(L)],
                              ops=[["next"]] * (L + d + 3), tag="delay"))
    # float streams whose peak is tiny (subnormal range) or huge
    for fmt in (0, 1, 22, 23):
        for level in ("tiny", "huge"):
            for d in ([1, 3, 8] if tier == "quick" else [1, 2, 3, 5, 8, 16, 33, 64]):
                r = rng.fork(f"delaylvl{fmt}.{level}.{d}")
                ch = r.choice([1, 2])
                L = d + r.range(3, 12)
                source = [[level_sample(r, fmt, level) for _ in range(ch)] for _ in range(L)]
                items.append(dict(kind="V", fmt=fmt, ch=ch, depth=d, ratio=b64(1.0), source=source, ops=[["next"]] * (L + d + 3),
                                  tag="delay", level=level))
    # the same streams once more with the unchanged rates announced again mid-stream (and the accessors called): still
    # a pure delay by exactly depth frames
    rr = rng.fork("reannounce")
    items += [with_reannouncements(rr.fork(str(i)), it) for i, it in enumerate(items) if tier != "quick" or i % 2 == 0 or it["depth"] <= 4]
    return [build(it) for it in items]


def gen_constant(rng, tier):
    depths = [4, 5, 6, 8, 16, 32, 64] if tier == "quick" else list(range(4, 65))
    items = []

    def one(d, fmt, npos):
        r = rng.fork(f"const{d}.{fmt}")
        if M.is_int(fmt):
            F_ = M.FMT[fmt]
            c = r.choice([1, -1]) * r.range(F_["half"] // 16, F_["half"] // 4) + F_["off"]
        else:
            c = rnd_sample(r, fmt)
            while M.FMT[fmt]["dec"](c) == 0:
                c = rnd_sample(r, fmt)
        xs = [(i + (r.below(1 << 20) / float(1 << 20))) / npos for i in range(npos)]  # stratified over [0,1)
        ops = [["push", c]] * (2 * d) + [["interp", b64(x)] for x in xs]
        items.append(dict(kind="D", fmt=fmt, ch=1, depth=d, ops=ops, tag="const", const=c))
    for d in depths:
        for fmt in (0, 1, 2):
            one(d, fmt, 64 if tier == "quick" else (1000 if fmt == 0 else 250))
    # the other integer formats of at least 16 bits and the generated float instances
    for d in ([4, 8, 16] if tier == "quick" else [4, 5, 8, 16, 32, 64]):
        for fmt in [c for c in INT_CODES if M.FMT[c]["bits"] >= 16] + [22, 23]:
            one(d, fmt, 16 if tier == "quick" else 100)
    return [build(it) for it in items]


SCALE_K = [2.0 ** -126, 2.0 ** -100, 2.0 ** 100]


def gen_linear(rng, tier):
    """triples F, G, H = a F + b G with the same operation skeleton (integer formats: on the amplitudes);
    plus pure scalings H = k F of float streams with k in {2^-126, 2^-100, 2^100} (b = 0)"""
    n = 60 if tier == "quick" else 600
    nscale = 24 if tier == "quick" else 240
    items = []
    for k in range(n + nscale):
        r = rng.fork(f"lin{k}")
        scaling = k >= n
        depth = r.choice([1, 2, 3, 4, 8, 16, 33, 64, r.range(1, 64)])
        fmt = r.choice([0, 1, 22, 23]) if scaling else r.choice([0, 0, 1, 2, 22, 23] + INT_CODES)
        ch = r.choice([1, 2])
        isint = M.is_int(fmt)
        if scaling:
            a, bb = SCALE_K[k % 3], 0.0
        elif isint:
            a, bb = r.choice([1, -1, 2, 3]), r.choice([1, -1, 2, -2])
        else:
            a, bb = rnd_unit(r) * 4.0, rnd_unit(r) * 4.0
        skeleton = []
        for _ in range(r.range(3, 2 * depth + 10)):
            skeleton.append("push" if r.chance(3, 5) else ("reset" if r.chance(1, 15) else "interp"))
        skeleton.append("interp")
        opsF, opsG, opsH = [], [], []
        dec, F_ = M.FMT[fmt]["dec"], M.FMT[fmt]
        f64fmt = fmt in FLOAT64
        for s in skeleton:
            if s == "push":
                if isint:
                    lim = max(1, amp_limit(fmt) // (abs(a) + abs(bb)))
                    fa = [r.range(-lim, lim) for _ in range(ch)]
                    ga = [r.range(-lim, lim) for _ in range(ch)]
                    off = F_["off"]
                    f, g = [x + off for x in fa], [y + off for y in ga]
                    h = [a * x + bb * y + off for x, y in zip(fa, ga)]
                else:
                    f, g = rnd_frame(r, fmt, ch), rnd_frame(r, fmt, ch)
                    hv = [a * dec(x) + bb * dec(y) for x, y in zip(f, g)]
                    h = [b64(v) if f64fmt else b32(M.round_f32(v)) for v in hv]
                opsF.append(["push"] + f)
                opsG.append(["push"] + g)
                opsH.append(["push"] + h)
            elif s == "interp":
                o = ["interp", b64(rnd_x(r))]
                opsF.append(o), opsG.append(o), opsH.append(o)
            else:
                opsF.append(["reset"]), opsG.append(["reset"]), opsH.append(["reset"])
        for role, ops in (("F", opsF), ("G", opsG), ("H", opsH)):
            items.append(dict(kind="D", fmt=fmt, ch=ch, depth=depth, ops=ops, tag="lin", role=role, a=a, b=bb, group=k,
                              scaling=scaling))
    return [build(it) for it in items]


def gen_reset(rng, tier):
    """history ; reset ; S   must give on S exactly what a fresh interpolator gives on S"""
    n = 40 if tier == "quick" else 400
    items = []
    for k in range(n):
        r = rng.fork(f"reset{k}")
        depth = r.choice([1, 2, 3, 4, 8, 16, 64, r.range(1, 64)])
        fmt, ch = r.choice([0, 1, 2]), r.choice([1, 2])
        hist = gen_direct(r, depth, r.range(1, 3 * depth + 5), fmt=fmt, ch=ch)["ops"]
        tail = [o for o in gen_direct(r, depth, r.range(3, 2 * depth + 8), fmt=fmt, ch=ch)["ops"] if o[0] != "reset"]
        items.append(dict(kind="D", fmt=fmt, ch=ch, depth=depth, ops=hist + [["reset"]] + tail, tag="reset", role="A",
                          ntail=len(tail), group=k))
        items.append(dict(kind="D", fmt=fmt, ch=ch, depth=depth, ops=tail, tag="reset", role="B", ntail=len(tail), group=k))
    return [build(it) for it in items]


# ---------------------------------------------------------------------------------------------------
# analysis of a case with the transcription: which interpolations are "non-trivial", tap weights


def trace(item):
    """replays the case on the transcription (libm oracles); returns per-interpolation records
    (op index, x, idx, depth, after_reset, sum |w|, ntaps)"""
    recs = []
    so, co = M.Oracle(math.sin), M.Oracle(math.cos)
    try:
        s = M.Sinc(item["fmt"], item["ch"], item["depth"], so, co)
    except M.Panic:
        return recs
    after_reset = False

    def rec(i, x):
        ws = s.weights(x)
        recs.append(dict(op=i, x=x, idx=s.idx, depth=s.depth(), after_reset=after_reset,
                         sumw=sum(abs(w) for _, w in ws), ntaps=len(ws)))
    if item["kind"] == "D":
        for i, op in enumerate(item["ops"]):
            if op[0] == "push":
                s.next_source_frame([0] * item["ch"])
            elif op[0] == "reset":
                s.reset()
                after_reset = True
            else:
                rec(i, M.f64_of_bits(op[1]))
    else:
        ival, ratio = 0.0, M.f64_of_bits(item["ratio"])
        for i, op in enumerate(item["ops"]):
            if op[0] == "ratio":
                ratio = M.f64_of_bits(op[1])
                continue
            if op[0] != "next":
                # the other Converter operations (setters: only the ratio changes; rebuild: fresh interpolator, position 0)
                if op[0] == "hz":
                    ratio = M.fdiv(M.f64_of_bits(op[1]), M.f64_of_bits(op[2]))
                elif op[0] == "srate":
                    ratio = M.fdiv(1.0, M.f64_of_bits(op[1]))
                elif op[0] == "rebuild":
                    ratio = M.ctor_scale(op[1], op[2], op[3])
                    if not ratio > 0.0:
                        break
                    s, ival = M.Sinc(item["fmt"], item["ch"], item["depth"], so, co), 0.0
                continue
            if not ival < 1e6:
                break
            while ival >= 1.0:
                s.next_source_frame([0] * item["ch"])
                ival -= 1.0
            rec(i, ival)
            ival += ratio
    return recs


def nontrivial(item, recs):
    return any(rc["depth"] >= 2 and rc["x"] != 0.0 and (0 < rc["idx"] < rc["depth"] or rc["after_reset"]) for rc in recs)


def in_k5_class(item, op_index):
    """KnownClass_int_overshoot evaluated on the concrete failing evaluation: integer frame format AND, at the
    interpolation performed by op `op_index`, some partial sum of the (exactly accumulated) taps lies outside
    the format's range.  The state before the op is replayed on the transcription."""
    fmt = item["fmt"]
    if not M.is_int(fmt):
        return False
    F_ = M.FMT[fmt]
    dec = F_["dec"]
    s = M.Sinc(fmt, item["ch"], item["depth"], M.Oracle(math.sin), M.Oracle(math.cos))
    if item["kind"] == "D":
        for op in item["ops"][:op_index]:
            if op[0] == "push":
                s.next_source_frame([dec(z) for z in op[1:]])
            elif op[0] == "reset":
                s.reset()
        x = M.f64_of_bits(item["ops"][op_index][1])
    else:
        c = M.Converter([[dec(z) for z in fr] for fr in item["source"]], s, M.f64_of_bits(item["ratio"]))
        try:
            for op in item["ops"][:op_index]:
                if op[0] == "ratio":
                    c.ratio = M.f64_of_bits(op[1])
                elif op[0] != "next":
                    M.apply_conv_op(c, op, item, s.sin_o, s.cos_o)
                    s = c.itp
                else:
                    c.next()
        except M.Panic:
            return False          # the model fails BEFORE this operation: the implementation's panic here is not the model's
        while c.ival >= 1.0:
            fr = c.src[c.pulls] if c.pulls < len(c.src) else [F_["equil"]] * item["ch"]
            c.pulls += 1
            s.next_source_frame(fr)
            c.ival -= 1.0
        x = c.ival
    return any(not (F_["lo"] <= v <= F_["hi"]) for ps in s.partial_sums(x) for v in ps)


def frames_of(item, obs):
    """decoded output frames per op index (None for non-frame observations); obs excludes the oracle rows and ctor"""
    dec = M.FMT[item["fmt"]]["dec"]
    out = {}
    for i, o in enumerate(obs):
        if o and o[0] == 1:
            vals = o[2:] if item["kind"] == "V" else o[1:]
            out[i] = [dec(z) for z in vals]
    return out


# ---------------------------------------------------------------------------------------------------


def load_corpus():
    d = os.path.join(F.VERIF, "corpus", PROP)
    items = []
    if os.path.isdir(d):
        for fn in sorted(os.listdir(d)):
            if fn.endswith(".json"):
                items.append(build(json.load(open(os.path.join(d, fn)))))
    return items


def case_public(it):
    return {k: it[k] for k in ("kind", "fmt", "ch", "depth", "ratio", "source", "ops", "tag") if k in it}


def main(rep, tier, seed):
    rng = F.Rng(seed)
    # the integer / float sample conversions of the all-formats model (Dsp/SincRunGen.v) are the GENERATED ones:
    # regenerate them from the current /repo first (translators of C01/C02/C03)
    from props import c03 as _c03
    terr, _changed = _c03.regenerate()
    if terr:
        rep.violation("translator", {"kind": "the conversion model cannot be regenerated from dasp_sample/src/conv.rs", "error": terr}, no_input=True)
    info = F.standard_proof_phase(rep, PROP, allowed_axioms=F.AX_REALS)
    ok, blog, binpath = F.harness_build("c18")
    if not ok:
        rep.violation("harness_build", {"kind": "harness does not build against /repo", "log": blog[-4000:]}, no_input=True)
        return finish(rep, info, {}, [], {})
    stats = {}
    # 0. the float base the executable model stands on
    nfb, fb_bad, fb_err = floatbase.run(rng.fork("fbase"), 150 if tier == "quick" else 2000)
    stats["floatbase_cases"], stats["floatbase_disagreements"] = nfb, len(fb_bad)
    for name, msg in fb_err:
        rep.violation("floatbase_error", {"kind": "float base validation could not run", "where": name, "log": msg}, no_input=True)
    if fb_bad:
        rep.violation("floatbase", {"kind": "Base/Float.v disagrees with rustc", "cases": fb_bad[:5]}, no_input=True)

    # 1. Coq model vs crate (small cases), bit for bit
    corpus = load_corpus()
    coq_items = corpus + gen_coq_cases(rng.fork("coq"), tier)
    outl, bad, errors = F.correspond(binpath, coq_items, HEADER, CHECK, "c18")
    rep.extra["no_std_build"] = F.nostd_phase(rep, "c18", coq_items, outl) if not errors and len(outl) == len(coq_items) else {}
    for name, msg in errors:
        rep.violation("correspondence_error_" + name.replace("/", "_"),
                      {"kind": "correspondence could not be evaluated", "where": name, "log": msg}, no_input=True)
    for idx in bad[:3]:
        it = coq_items[idx]

        def fails(c):
            o, b, e = F.correspond(binpath, [c], HEADER, CHECK, "c18_shrink")
            return bool(b) and not e

        small = F.shrink_ops(it, build, fails, max_steps=40)
        rc, out, _ = F.run_bin(binpath, [small["line"]])
        rep.violation(f"case{idx}", {
            "kind": "model/implementation disagreement: the crate does not compute what the proved sinc model computes (given the crate's own sin/cos values)",
            "case": case_public(small), "harness_line": small["line"], "implementation_observations": out,
            "original_case_index": idx, "replay": "./check.py C18 --replay <this file>"})

    # 2. all cases vs the python transcription (crate's sin/cos values), bit for bit; 3. verdicts
    groups = dict(coq=coq_items, py=gen_py_cases(rng.fork("py"), tier), delay=gen_delay(rng.fork("delay"), tier),
                  const=gen_constant(rng.fork("const"), tier), lin=gen_linear(rng.fork("lin"), tier),
                  reset=gen_reset(rng.fork("reset"), tier))
    items = [it for g in groups.values() for it in g]
    rc, lines, err = F.run_bin_parallel(binpath, [it["line"] for it in items])
    if rc != 0 or len(lines) != len(items):
        rep.violation("harness_run", {"kind": "harness failed", "rc": rc, "stderr": err[-2000:]}, no_input=True)
        return finish(rep, info, stats, [], {})
    py_bad, overshoot, outside, nontriv, nviol = [], [], [], set(), 0
    hist = {}
    decoded = []
    maxima = dict(delay_err_rel=0.0, const_dev_rel=0.0, lin_err_over_tol=0.0, const_dev_rel_i16=0.0)
    n_interp = 0
    for it, line in zip(items, lines):
        obs = F.norm_obs_line(line)
        sin_v, cos_v, rest = obs[0], obs[1], obs[2:]
        st, ct = dict(zip(it["sin_args"], sin_v)), dict(zip(it["cos_args"], cos_v))
        ref = M.run_case(it, M.Oracle(None, st), M.Oracle(None, ct))
        if ref != rest:
            py_bad.append((it, rest, ref))
        recs = trace(it)
        n_interp += len(recs)
        if nontrivial(it, recs):
            nontriv.add(it["line"])
        key = f"{it['tag']}:{FMT_NAMES[it['fmt']]}x{it['ch']}"
        hist[key] = hist.get(key, 0) + 1
        hist[f"depth:{min(64, 1 << (max(1, it['depth']) - 1).bit_length())}"] = hist.get(f"depth:{min(64, 1 << (max(1, it['depth']) - 1).bit_length())}", 0) + 1
        for i, o in enumerate(rest[1:]):
            if o[:2] == [8, 1]:
                (overshoot if in_k5_class(it, i) else outside).append(it)
                break
        decoded.append((it, rest[1:], recs))  # rest[0] is the constructor observation
        # finiteness (float formats, finite input <= 1e300 in magnitude)
        if not M.is_int(it["fmt"]):
            for fr in frames_of(it, rest[1:]).values():
                if not all(math.isfinite(v) for v in fr):
                    nviol += 1
                    if nviol <= 3:
                        rep.violation(f"finite{nviol}", {"kind": "non-finite output for finite input", "case": case_public(it),
                                                        "harness_line": it["line"], "implementation_observations": line})
    for it, got, ref in py_bad[:3]:
        nviol += 1
        rep.violation(f"pycase{nviol}", {
            "kind": "implementation disagrees with the transcription of the model (crate's sin/cos values supplied)",
            "case": case_public(it), "harness_line": it["line"], "implementation_observations": got, "model_observations": ref})

    # integer overshoot = known finding class K5, decided on each concrete panicking evaluation
    for it in outside[:2]:
        nviol += 1
        rep.violation(f"overflow{nviol}", {"kind": "overflow panic outside the integer-overshoot class", "case": case_public(it),
                                          "harness_line": it["line"]})
    if overshoot:
        if any(e.get("id") == K5 and e.get("kind") == "known" for e in F.known_findings(PROP)):
            rep.known_finding(f"{K5} integer frames: add_amp overflows (debug panic 'attempt to add with overflow', release wrap) when a "
                              f"partial sum of the windowed-sinc taps leaves the sample range; {len(overshoot)} cases in the class "
                              f"(model and crate agree on the panic), e.g. `{overshoot[0]['line'][:160]}`")
        else:
            it = overshoot[0]
            rep.violation("int_overshoot", {"kind": "integer frames: add_amp overflow panic when the windowed-sinc sum overshoots the sample range (class K5, not listed in KNOWN_FINDINGS.json)",
                                            "case": case_public(it), "harness_line": it["line"]})

    # ---- verdicts ----
    verdicts = dict(delay=0, const=0, lin=0, reset=0)
    failures = []
    for it, obs, recs in decoded:
        if it["tag"] == "delay":
            fmt = it["fmt"]
            F_ = M.FMT[fmt]
            dec = F_["dec"]
            isint = M.is_int(fmt)
            off = F_["off"] if isint else 0
            src = [[dec(z) for z in fr] for fr in it["source"]]
            peak = max([abs(v - off) for fr in src for v in fr] + [0.0])      # peak AMPLITUDE
            # integer formats of at most 48 bits (every amplitude is a binary64 number): bit-exact, rails included;
            # 64-bit integers and floats: 1e-12 of the peak amplitude
            exact = isint and F_["bits"] <= 48
            d = it["depth"]
            j = -1
            for i, o in enumerate(obs):
                if it["ops"][i][0] != "next":
                    # a call that must not be visible (same rates announced again, accessor): it may not fail
                    if o[0] == 8:
                        failures.append(("delay", it, f"op {i} {it['ops'][i]} is {o}"))
                        break
                    continue
                j += 1
                verdicts["delay"] += 1
                if o[:2] == [8, 1] and in_k5_class(it, i):
                    break                                                   # known finding K5 (64-bit integers at the rails)
                if o[0] != 1:
                    failures.append(("delay", it, f"output {j} is {o}"))
                    break
                want = src[j - d] if d <= j < d + len(src) else [F_["equil"]] * it["ch"]
                got = [dec(z) for z in o[2:]]
                e = max(abs(g - w) for g, w in zip(got, want))
                if peak > 0:
                    maxima["delay_err_rel"] = max(maxima["delay_err_rel"], e / peak)
                if o[1] != j or (e != 0 if exact else e > 1e-12 * peak):
                    failures.append(("delay", it, f"output {j}: got {got} pulls {o[1]}, want {want} pulls {j}, peak amplitude {peak}"))
                    break
        elif it["tag"] == "const":
            isint = M.is_int(it["fmt"])
            off = M.FMT[it["fmt"]]["off"] if isint else 0
            c = M.FMT[it["fmt"]]["dec"](it["const"]) - off           # amplitude
            lsb = 2 * it["depth"] if isint else 0   # every integer tap is truncated toward zero: < 1 LSB each
            for i, fr in frames_of(it, obs).items():
                verdicts["const"] += 1
                dev = abs((fr[0] - off) - c)
                keym = "const_dev_rel_i16" if isint else "const_dev_rel"
                maxima[keym] = max(maxima[keym], dev / abs(c))
                if not dev <= 0.01 * abs(c) + lsb:
                    failures.append(("const", it, f"op {i}: got {fr[0]} for constant {c} (deviation {dev / abs(c):.4%})"))
                    break
    lin_groups, reset_groups = {}, {}
    for it, obs, recs in decoded:
        if it["tag"] == "lin":
            lin_groups.setdefault(it["group"], {})[it["role"]] = (it, obs, recs)
        if it["tag"] == "reset":
            reset_groups.setdefault(it["group"], {})[it["role"]] = (it, obs, recs)
    for g in lin_groups.values():
        (itF, oF, rF), (itG, oG, _), (itH, oH, _) = g["F"], g["G"], g["H"]
        a, bb, fmt = itF["a"], itF["b"], itF["fmt"]
        dec = M.FMT[fmt]["dec"]
        off = M.FMT[fmt]["off"] if M.is_int(fmt) else 0      # integer formats: linear in the amplitudes
        peakF = max([abs(dec(z) - off) for o in itF["ops"] if o[0] == "push" for z in o[1:]] + [0.0])
        peakG = max([abs(dec(z) - off) for o in itG["ops"] if o[0] == "push" for z in o[1:]] + [0.0])
        fF, fG, fH = frames_of(itF, oF), frames_of(itG, oG), frames_of(itH, oH)
        byop = {rc["op"]: rc for rc in rF}
        for i in fH:
            verdicts["lin"] += 1
            rc_ = byop[i]
            scale = (abs(a) * peakF + abs(bb) * peakG) * max(1.0, rc_["sumw"])
            if fmt in FLOAT64:
                tol = 1e-12 * scale + (8 * rc_["ntaps"] + 4) * 2.0 ** -1074
            elif fmt in FLOAT32:   # relative rounding of every product / sum, absolute 2^-149 in the subnormal range
                tol = (8 * rc_["ntaps"] + 4) * (2.0 ** -24 * scale + 2.0 ** -149)
            else:   # < 1 LSB truncation per tap and evaluation; 64-bit integers also round to binary64 (2^-53 relative)
                tol = (1 + abs(a) + abs(bb)) * rc_["ntaps"]
                if M.FMT[fmt]["bits"] > 53:
                    tol += (8 * rc_["ntaps"] + 4) * 2.0 ** -53 * scale
            if i not in fF or i not in fG:
                failures.append(("lin", itH, f"op {i}: no frame from F or G"))
                break
            e = max(abs((h - off) - (a * (f - off) + bb * (g_ - off))) for h, f, g_ in zip(fH[i], fF[i], fG[i]))
            if tol > 0:
                maxima["lin_err_over_tol"] = max(maxima["lin_err_over_tol"], e / tol)
                if itH.get("scaling"):
                    maxima["scaling_err_over_tol"] = max(maxima.get("scaling_err_over_tol", 0.0), e / tol)
            if not e <= tol:
                failures.append(("lin", itH, f"op {i}: |H - (aF+bG)| = {e} > {tol} (a={a}, b={bb})"))
                break
    for g in reset_groups.values():
        (itA, oA, _), (itB, oB, _) = g["A"], g["B"]
        verdicts["reset"] += 1
        nt = itA["ntail"]
        if oA[len(oA) - nt:] != oB[len(oB) - nt:] or len(oB) != nt:
            failures.append(("reset", itA, "after reset the interpolator does not behave as a fresh one"))
    for kind, it, msg in failures[:4]:
        nviol += 1
        rep.violation(f"verdict_{kind}{nviol}", {"kind": f"numeric verdict failed: {kind}", "what": msg, "case": case_public(it),
                                                 "harness_line": it["line"], "replay": "./check.py C18 --replay <this file>"})
    # Converter operations between outputs: which operation met which phase of the accumulator (all generated cases)
    conv_ops = {}
    for it in items:
        for k, phase, what in conv_op_phases(it):
            key = f"{k}:{phase}" + ("" if what == "-" else f":{what}")
            conv_ops[key] = conv_ops.get(key, 0) + 1
    stats["converter_ops_by_accumulator_phase"] = dict(sorted(conv_ops.items()))
    stats["delay_cases_with_reannouncements"] = sum(1 for it in groups["delay"] if it.get("sub") == "reannounce")
    stats.update(dict(coq_evaluated_cases=len(coq_items), coq_disagreements=len(bad), corpus_cases=len(corpus),
                      transcription_cases=len(items), transcription_disagreements=len(py_bad),
                      interpolations=n_interp, verdict_checks=verdicts, verdict_failures=len(failures),
                      maxima=maxima, integer_overshoot_cases=len(overshoot), case_histogram=hist,
                      groups={k: len(v) for k, v in groups.items()}))
    samples = [coq_items[min(5, len(coq_items) - 1)]["line"][:600], groups["delay"][0]["line"][:600], groups["lin"][-1]["line"][:600]]
    return finish(rep, info, stats, samples, dict(n=len(items), nontriv=len(nontriv), bad=len(bad) + len(py_bad)))


def finish(rep, info, stats, samples, counts):
    th = info.get("theorems", [])
    cov = {
        "obligations": max(1, len(th)), "discharged": len(th) if info.get("coq_ok") else 0,
        "checker_cmd": "make -f Makefile.coq props/C18.vo (coqc 8.16.1, full .vo) + Print Assumptions audit",
        "trusted_base": F.TRUSTED_COMMON + [
            "axioms: the standard-library axioms of Coq's classical reals (allow-list AX_REALS) for the theorems over R; the structural theorems are closed; c18_constant_1pct_small_depths additionally uses Interval 4.6.1 (bisection, Taylor models, 40-bit software floats over Coq's primitive 63-bit integers and their specification axioms, evaluated by vm_compute)",
            "modelled, not verified: usize as nat (no index near 2^64), frames as lists of equal length, Fixed ring buffer as in C06",
            "libm sin/cos are not modelled: the crate's own values are passed to the model as data; lib/c18_model.py is a second transcription compared bit for bit",
            "Base/Float.v (Flocq BinarySingleNaN) validated against rustc by lib/floatbase.py in this run",
            "formats 10..23: the model's sample conversions are the ones GENERATED from conv.rs / impl_sample! on this run (Dsp/SincRunGen.v over Sample/SampleOps.v); equilibrium, to_sample::<f64>() of every input sample and every tap accumulation are compared with their specification values (Sample/ConvSpec.v, IEEE) and a mismatch is a disagreement; the python transcription uses the specification values only"],
        "theorems": th, "axioms_reported": info.get("axioms", []),
        "proved_clauses": ["max_depth = min(idx+1, depth)", "nl - n does not underflow", "tap indices in range / no panic, no UB",
                           "x = 0 returns frames[idx] (R, true sin/cos/pi)", "ratio 1: output j = source j - depth, zeros before (R)",
                           "linearity in the buffered frames (R)", "reset = initial silent state",
                           "primed constant buffer: interpolate = c * (sum of the 2*depth weights), any depth, any x (R)",
                           "constant input within 1 % once primed, every x in [0,1), depth 4..16 (R, true sin/cos/pi; Interval)"],
        "tested_clauses": ["ratio-1 error <= 1e-12 * peak with glibc sin/cos and rounded PI", "linearity within rounding (f64 1e-12*scale, f32 (8 taps+4) ulp24*scale, i16 (1+|a|+|b|) LSB per tap)",
                           "finite output for finite input (|s| <= 1e300)", "constant input within 1 % once the buffer is full, depth >= 4 in the crate's rounded evaluation with libm (integers: + 1 LSB per tap truncation); proved on exact reals for depth 4..16 only",
                           "all fourteen sample formats (i8 i16 I24 i32 I48 i64 u8 u16 U24 u32 U48 u64 f32 f64), mono and stereo: ratio 1 reproduces the source delayed by depth BIT-EXACTLY for integer formats <= 48 bits including the rails MIN and MAX (64-bit integers and floats: 1e-12 of the peak amplitude; 64-bit rails fall in K5)",
                           "float streams with tiny (f32 peak 2^-130..2^-120, f64 subnormal) and huge (1e38 / 1e300) peaks at ratio 1 relative to their peak; scaling H = k F with k in {2^-126, 2^-100, 2^100} commutes with interpolation within rounding",
                           "Converter operations between outputs (set_hz_to_hz, set_playback_hz_scale, set_sample_hz_scale, source, source_mut().next(), is_exhausted, into_source + each of the three constructors, the accumulator hook) at every phase of the accumulator (0, fractional, exactly 1.0 pending, above 1; input_distribution.converter_ops_by_accumulator_phase), re-announcing the ratio in force as often as changing it: compared bit for bit with the model whose setters change only the ratio; the ratio-1 delay streams are run a second time with the same rates announced again mid-stream (priming, primed, after the ring wrapped) and must still be the source delayed by exactly depth"],
        "evaluations": counts.get("n", 0), "distinct_nontrivial": counts.get("nontriv", 0),
        "rule": "non-trivial = depth >= 2 and an interpolation at a fractional position (x != 0) while 0 < idx < depth (priming phase) or after a reset; distinct harness lines counted",
        "samples": samples, "input_distribution": stats, "disagreements": counts.get("bad", 0),
        "explanation": "theorems: structural safety for every depth and exact-arithmetic transparency/linearity/reset, 1 % constant reproduction for depth 4..16 on exact reals; tie: Coq model run in coqc on binary64 with the crate's sin/cos values, compared bit for bit (small cases) + python transcription compared bit for bit (all depths); rounding-dependent clauses tested numerically",
    }
    return rep.finish("proof", cov, ["usize modelled as unbounded nat; frames as lists; the Fixed ring-buffer model of C06 is reused",
                                    "the 1e-12 / finiteness / within-rounding clauses, and the 1 % clause for depth > 16 or under rounding, are tested, not proved (they depend on glibc's sin/cos)",
                                    "integer formats: amplitudes <= 8000 for the verdict clauses; full-scale integer input is known finding K5"])


def replay(path):
    j = json.load(open(path))
    it = build(j["case"])
    ok, blog, binpath = F.harness_build("c18")
    rc, out, _ = F.run_bin(binpath, [it["line"]])
    obs = F.norm_obs_line(out[0])
    st, ct = dict(zip(it["sin_args"], obs[0])), dict(zip(it["cos_args"], obs[1]))
    ref = M.run_case(it, M.Oracle(None, st), M.Oracle(None, ct))
    print("case:", it["line"])
    print("implementation:", obs[2:])
    print("transcription: ", ref)
    small = sum(1 for o in it["ops"] if o[0] in ("interp", "next")) * max(1, it["depth"]) <= 400
    badc = []
    if small:
        o, badc, errs = F.correspond(binpath, [it], HEADER, CHECK, "c18_replay")
        print("coq model:", "AGREE" if not badc and not errs else "DISAGREE")
    agree = ref == obs[2:] and not badc
    print("AGREE" if agree else "DISAGREE")
    return 0 if agree else 1
