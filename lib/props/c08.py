"""C08 — the rate converter positions and consumes source frames exactly by the rate ratio.
Proof: coq/props/C08.v (model Signal/Converter.v over a numeric record; theorems on the real-number
instance for every ratio sequence > 0, every source, floor and linear; IEEE lemmas on the binary64
instance; K3 refutation witness).  Tie: the same model instantiated with Flocq binary64 is run by
coqc on the cases the real Converter / MulHz are driven through, all observations compared exactly
(frames, pull counters, is_exhausted before each output, the accumulator bits through the hook)."""
import json, os, struct, math
import framework as F
import floatbase

PROP = "C08"
META = dict(
    technique="Coq proof over R (position/consumption/exhaustion/count theorems) + Flocq binary64 lemmas (exact loop) + coqc-evaluated binary64 model vs real Converter/MulHz correspondence",
    text="Machine-checked (Coq 8.16.1): a model of Converter::next/is_exhausted, Floor, Linear, from_iter and MulHz written after the source is proved, on real arithmetic, to produce output n at position P_n = r_0+..+r_(n-1) for every positive ratio sequence, every source and both interpolators: floor(P_n) frames pulled beyond priming in order, floor/linear values, in-interval, equilibrium past the end, ratio 1 identity, the exhaustion criterion and the output count ceil((R+1)/r) or one more (exact criterion). On IEEE binary64 the pull loop is proved exact for accumulators below 2^53; at or above 2^53 the loop never terminates (known finding K3, witness proved on the model). The same model over Flocq binary64 is run inside coqc against the real crate on f64/f32/i16/u8/[i16;2] sources of length 0..40 and dyadic, non-dyadic, >1 and per-frame varying ratios; every observation is compared bit-for-bit.",
    note="Trusted: Coq kernel + stdlib real axioms (4 allow-listed); hand-written model tied to the code only through the correspondence; Base/Float.v (validated against rustc in the same run); harness + generators. Real-arithmetic theorems do not cover float rounding of the accumulator for non-dyadic ratios (the IEEE lemmas cover exactness of the loop and dyadic sums). K3 inputs are never executed on the real code (unbounded loop).",
    design="6/C08")
HEADER = "From Dasp Require Import Signal.ConverterRun."
CHECK = "check"

FMT = {"f64": (0, 1), "f32": (1, 1), "i16": (2, 1), "u8": (3, 1), "i16x2": (2, 2)}
# the generated-conversion formats: 100 + SampleFmt.sfmt_code; (code, channels, bits, signed)
GEN_FMT = {"g_i8": (100, 1, 8, True), "g_i16": (101, 1, 16, True), "g_i24": (102, 1, 24, True), "g_i32": (103, 1, 32, True),
           "g_i48": (104, 1, 48, True), "g_i64": (105, 1, 64, True), "g_u8": (106, 1, 8, False), "g_u16": (107, 1, 16, False),
           "g_u24": (108, 1, 24, False), "g_u32": (109, 1, 32, False), "g_u48": (110, 1, 48, False), "g_u64": (111, 1, 64, False),
           "g_f32": (112, 1, 0, True), "g_f64": (113, 1, 0, True), "g_u24x2": (108, 2, 24, False), "g_u48x2": (110, 2, 48, False)}
for _k, _v in GEN_FMT.items():
    FMT[_k] = (_v[0], _v[1])


def d2b(x):
    return struct.unpack("<Q", struct.pack("<d", x))[0]


def f2b(x):
    return struct.unpack("<I", struct.pack("<f", x))[0]


def op_txt(o):
    return " ".join(str(t) for t in o)


def op_coq(o):
    k = o[0]
    if k == "n":
        return "ZNext"
    if k == "p":
        return f"ZSetPlay {F.zlit(o[1])}"
    if k == "h":
        return f"ZSetHz {F.zlit(o[1])} {F.zlit(o[2])}"
    if k == "u":
        return f"ZUntil {F.zlit(o[1])}"
    if k == "src":
        return "ZSource"
    if k == "pull":
        return "ZSrcPull"
    if k == "rb":
        return "ZRebuild (" + {"hz": lambda: f"CHz {F.zlit(o[2])} {F.zlit(o[3])}", "scale": lambda: f"CScale {F.zlit(o[2])}",
                               "sample": lambda: f"CSample {F.zlit(o[2])}"}[o[1]]() + ")"
    return f"ZSetSample {F.zlit(o[1])}"


def build(item, ops=None):
    it = dict(item)
    if ops is not None:
        it["ops"] = ops
    fmt, nch = FMT[it["fmt"]]
    flat = [s for fr in it["frames"] for s in fr]
    c = it["ctor"]
    own, tail = it.get("own", 0), it.get("tail", 0)
    it["line"] = f"{fmt} {it['itp']} {nch} {own} {tail} ; {' '.join(map(str, flat))} ; {' '.join(map(str, c))} ; " + " , ".join(op_txt(o) for o in it["ops"])
    ck = {"hz": lambda: f"CHz {F.zlit(c[1])} {F.zlit(c[2])}", "scale": lambda: f"CScale {F.zlit(c[1])}",
          "sample": lambda: f"CSample {F.zlit(c[1])}", "mul": lambda: f"CMul {F.zlist(c[1:])}"}[c[0]]()
    it["coq"] = (f"ZCase {fmt} {it['itp']} {nch} {F.zlistlist(it['frames'])} ({ck}) "
                 "[" + "; ".join(op_coq(o) for o in it["ops"]) + f"] {tail}")
    return it


def rand_sample(r, fmt):
    if fmt in GEN_FMT:
        code, _, bits, sg = GEN_FMT[fmt]
        if bits == 0:
            return rand_sample(r, "f32" if code == 112 else "f64")
        lo, hi = (-(1 << (bits - 1)), (1 << (bits - 1)) - 1) if sg else (0, (1 << bits) - 1)
        eq = 0 if sg else 1 << (bits - 1)
        k = r.below(8)
        if k == 0:
            return r.choice([lo, lo + 1, hi - 1, hi, eq, eq - 1 if eq - 1 >= lo else eq, eq + 1])
        if k == 1:
            return max(lo, min(hi, eq + r.range(-5, 5)))
        return r.range(lo, hi)
    if fmt in ("i16", "i16x2"):
        k = r.below(10)
        if k == 0:
            return r.choice([-32768, -32767, -1, 0, 1, 32766, 32767])
        return r.range(-32768, 32767)
    if fmt == "u8":
        return r.choice([0, 1, 127, 128, 129, 254, 255]) if r.chance(1, 8) else r.range(0, 255)
    if fmt == "f32":
        if r.chance(1, 30):
            return f2b(r.choice([0.0, -0.0, 1.0, -1.0, 1e-40, 3.0e30, float("inf"), 0.99999994]))
        return f2b((r.below(1 << 24) - (1 << 23)) / float(1 << 23))
    if r.chance(1, 30):
        return d2b(r.choice([0.0, -0.0, 1.0, -1.0, 5e-324, 1e300, float("-inf"), 1.0 - 2.0 ** -53]))
    return d2b((r.below(1 << 53) - (1 << 52)) / float(1 << 52))


def rand_ratio(r):
    """per-frame random ratio in (0.01, 8)"""
    return 0.01 + (r.below(1 << 30) + 1) / float(1 << 30) * 7.98


RATIO_KINDS = ["dyadic", "dyadic", "third", "tenth", "cd_dat", "2.5", "7.0001", "one", "sample", "mul", "mul", "set", "big"]


def gen_case(r, tier, k):
    fmt = r.choice(["f64", "f32", "i16", "u8", "i16x2"])
    itp = r.below(2)
    kind = RATIO_KINDS[k % len(RATIO_KINDS)] if k < 4 * len(RATIO_KINDS) else r.choice(RATIO_KINDS)
    L = r.range(0, 40)
    nmax = 80 if tier == "quick" else r.choice([80, 80, 160])
    varying = False
    ctl = None
    if kind == "dyadic":
        j = r.range(0, 4)
        m = r.range(1, 5 << j)
        ratio = m / float(1 << j)
        ctor = ["scale", d2b(ratio)] if r.chance(1, 2) else ["hz", d2b(float(m)), d2b(float(1 << j))]
    elif kind == "third":
        ratio = 1.0 / 3.0
        ctor = ["hz", d2b(1.0), d2b(3.0)]
    elif kind == "tenth":
        ratio = 0.1
        ctor = ["scale", d2b(0.1)]
    elif kind == "cd_dat":
        a, b = r.choice([(44100.0, 48000.0), (48000.0, 44100.0), (44100.0, 96000.0), (96000.0, 44100.0)])
        ratio = a / b
        ctor = ["hz", d2b(a), d2b(b)]
    elif kind == "2.5":
        ratio = 2.5
        ctor = ["scale", d2b(2.5)]
    elif kind == "7.0001":
        ratio = 7.0001
        ctor = ["scale", d2b(7.0001)]
    elif kind == "one":
        ratio = 1.0
        ctor = r.choice([["scale", d2b(1.0)], ["hz", d2b(44100.0), d2b(44100.0)], ["sample", d2b(1.0)]])
    elif kind == "sample":
        m = r.choice([2.0, 3.0, 0.5, 0.25, 48000.0 / 44100.0, 0.3])
        ratio = 1.0 / m
        ctor = ["sample", d2b(m)]
    elif kind == "big":
        ratio = r.choice([12.0, 37.5, 100.25, 999.0])
        L = r.range(0, 40)
        ctor = ["scale", d2b(ratio)]
    elif kind == "mul":
        ratio = 3.0
        varying = True
        ctor = None
    else:  # set
        ratio = rand_ratio(r)
        varying = True
        ctor = ["scale", d2b(ratio)]
    # number of outputs: enough to pass exhaustion when that fits under the cap
    need = int((L + 3) / ratio) + 4
    if need > nmax:
        L = max(0, int(nmax * ratio) - 4) if r.chance(4, 5) else L
        need = min(nmax, int((L + 3) / ratio) + 4)
    n = max(3, min(nmax, need))
    if kind == "big":
        n = r.range(3, 8)
    nchan = FMT[fmt][1]
    frames = [[rand_sample(r, fmt) for _ in range(nchan)] for _ in range(L)]
    ops = []
    if kind == "mul":
        n = min(nmax, max(4, int((L + 3) / 2.0) + 4))
        clen = n if r.chance(3, 4) else r.range(0, n)   # sometimes the control signal ends first
        ctl = [d2b(rand_ratio(r)) for _ in range(clen)]
        ctor = ["mul"] + ctl
        ops = [["n"]] * n
    elif kind == "set":
        n = min(nmax, max(4, int((L + 3) / 2.0) + 4))
        for _ in range(n):
            c = r.below(6)
            if c == 0:
                ops.append(["p", d2b(rand_ratio(r))])
            elif c == 1:
                a = rand_ratio(r)
                ops.append(["h", d2b(a * 1000.0), d2b(1000.0 * rand_ratio(r))])
            elif c == 2:
                ops.append(["s", d2b(1.0 / rand_ratio(r))])
            ops.append(["n"])
    else:
        ops = [["n"]] * n
    return build(dict(fmt=fmt, itp=itp, frames=frames, ctor=ctor, ops=ops, kind=kind, ratio=ratio, varying=varying))


# ---------------------------------------------------------------------------
# unit-ratio / integer-boundary families: ratio exactly 1.0 while the accumulator holds a
# fractional position, accumulator landing exactly on integers and just below them.
# Exactly representable values only.

UNIT_CTL = [0.25, 0.5, 0.75, 1.0, 1.0, 1.5, 2.0]
EPS40 = 2.0 ** -40
BOUNDARY_CHUNKS = [[0.5, 0.5], [0.25, 0.25, 0.25, 0.25], [1.5, 0.5], [1.0 - EPS40], [0.5, 0.5 - EPS40],
                   [1.0], [0.75, 0.25], [1.0 - EPS40, EPS40], [1.0 + EPS40], [0.5, 1.0, 0.5], [2.0], [0.25, 1.0, 1.0, 0.75]]
UNIT_FAMILIES = ["mul_unit", "set_unit", "boundary_mul", "boundary_set"]


def set_to_one(r):
    """one of the three public ways of setting the ratio to exactly 1.0"""
    c = r.below(3)
    if c == 0:
        return ["p", d2b(1.0)]
    if c == 1:
        a = r.choice([44100.0, 48000.0, 1.0, 0.3, 7.0])
        return ["h", d2b(a), d2b(a)]
    return ["s", d2b(1.0)]


def gen_unit_case(r, tier, k):
    fam = UNIT_FAMILIES[k % len(UNIT_FAMILIES)]
    itp = (k // len(UNIT_FAMILIES)) % 2          # floor AND linear for every family
    fmt = ["f64", "i16", "f32", "u8", "i16x2"][(k // (2 * len(UNIT_FAMILIES))) % 5]
    L = r.range(2, 14)
    nchan = FMT[fmt][1]
    frames = [[rand_sample(r, fmt) for _ in range(nchan)] for _ in range(L)]
    ops = []
    if fam == "mul_unit":
        n = r.range(10, 28)
        first = r.choice([0.25, 0.5, 0.75, 1.5])           # a fractional position first
        ctl = [first] + [r.choice(UNIT_CTL) for _ in range(n - 1)]
        ctor = ["mul"] + [d2b(x) for x in ctl]
        ops = [["n"]] * (n + (1 if r.chance(1, 4) else 0))
    elif fam == "set_unit":
        f = r.choice([0.5, 0.25, 0.75, 1.5, 0.375, 2.5])
        ctor = r.choice([["scale", d2b(f)], ["hz", d2b(f * 8.0), d2b(8.0)], ["sample", d2b(1.0 / f)] if f in (0.5, 0.25) else ["scale", d2b(f)]])
        for _ in range(r.range(1, 3)):                      # fractional outputs, then exactly 1.0, maybe again
            ops += [["n"]] * r.range(1, 5)
            ops.append(set_to_one(r))
            ops += [["n"]] * r.range(2, 6)
            ops.append(["p", d2b(r.choice([0.5, 0.25, 0.75, 1.5, 0.125]))])
        ops += [["n"]] * r.range(1, 4)
    else:
        seq = []
        for _ in range(r.range(3, 8)):
            seq += r.choice(BOUNDARY_CHUNKS)
        if fam == "boundary_mul":
            ctor = ["mul"] + [d2b(x) for x in seq]
            ops = [["n"]] * len(seq)
        else:
            ctor = ["scale", d2b(seq[0])]
            ops = [["n"]]
            for x in seq[1:]:
                ops += [["p", d2b(x)] if x != 1.0 else set_to_one(r), ["n"]]
            ops.append(["n"])
    return build(dict(fmt=fmt, itp=itp, frames=frames, ctor=ctor, ops=ops, kind=fam, ratio=0.5, varying=True))


# ---------------------------------------------------------------------------
# setters and accessors BETWEEN outputs, at every phase of the accumulator: the model's setter semantics is
# "only the ratio changes" (Signal/ConverterOpsProofs.v: setters_only_ratio, set_same_ratio), so announcing the
# ratio already in force is a no-op whether the accumulator holds 0, a fraction, exactly 1.0 (one whole source
# frame pending - the state between any two outputs at ratio 1) or more.  Ratios are dyadic so that the
# accumulator really visits these values; the quotient a setter will form is checked here to be exactly the
# intended ratio.  Also source() / source_mut().next() / into_source() + constructor again.

RE_RATIOS = [1.0, 1.0, 0.5, 0.25, 0.75, 1.5, 2.0, 2.5, 3.0, 1.25, 0.375]
RE_BASES = [44100.0, 48000.0, 8.0, 1.0, 0.3, 96000.0, 22050.0]


def ctor_ratio(c):
    """playback ratio a constructor / rebuild ['hz', a, b] | ['scale', m] | ['sample', m] produces (binary64)"""
    try:
        if c[0] == "hz":
            return b2d(c[1]) / b2d(c[2])
        if c[0] == "sample":
            return 1.0 / b2d(c[1])
        return b2d(c[1])
    except ZeroDivisionError:
        return float("nan")


def announce(r, ratio, how=None):
    """['p', x] | ['h', a, b] | ['s', x] setting exactly `ratio`"""
    how = r.below(3) if how is None else how
    if how == 1:
        base = r.choice(RE_BASES)
        if (ratio * base) / base == ratio:
            return ["h", d2b(ratio * base), d2b(base)]
    if how == 2 and 1.0 / (1.0 / ratio) == ratio:
        return ["s", d2b(1.0 / ratio)]
    return ["p", d2b(ratio)]


def gen_reannounce_case(r, tier, k):
    itp = k % 2
    fmt = ["f64", "i16", "f32", "u8", "i16x2", "g_u24", "g_i32"][(k // 2) % 7]
    own = [0, 0, 0, 1, 2][(k // 14) % 5]
    nchan = FMT[fmt][1]
    ratio = RE_RATIOS[(k // 2) % len(RE_RATIOS)] if k < 4 * len(RE_RATIOS) else r.choice(RE_RATIOS)
    n = r.range(6, 16)
    L = r.choice([int(n * ratio) + 3, int(n * ratio) + 3, r.range(0, 6), int(n * ratio) // 2])
    frames = [[rand_sample(r, fmt) for _ in range(nchan)] for _ in range(L)]
    a = announce(r, ratio)
    ctor = {"p": lambda: ["scale", a[1]], "h": lambda: ["hz", a[1], a[2]], "s": lambda: ["sample", a[1]]}[a[0]]()
    cur = ratio
    ops = []
    for _ in range(n):
        if r.chance(3, 5):
            for _ in range(r.range(1, 2)):
                c = r.below(14)
                if c < 7:                      # the ratio in force, announced again (all three setters)
                    ops.append(announce(r, cur))
                elif c < 9:                    # a new ratio
                    cur = r.choice(RE_RATIOS)
                    ops.append(announce(r, cur))
                elif c < 11:
                    ops.append(["src"])
                elif c == 11:
                    ops.append(["pull"])
                elif c == 12:
                    cur = r.choice(RE_RATIOS)
                    a = announce(r, cur)
                    ops.append(["rb"] + {"p": lambda: ["scale", a[1]], "h": lambda: ["hz", a[1], a[2]], "s": lambda: ["sample", a[1]]}[a[0]]())
                else:
                    ops.append(announce(r, cur, how=1))
        ops.append(["n"])
    ops.append(["src"])
    return build(dict(fmt=fmt, itp=itp, frames=frames, ctor=ctor, ops=ops, kind="reannounce", ratio=ratio, varying=True,
                      own=own, tail=(r.range(1, 2) if own else 0)))


def op_phases(item):
    """replays the accumulator in binary64: (operation, phase of the accumulator at the call, same/new ratio) for every
    setter / accessor / rebuild of a Converter case"""
    out = []
    if item["ctor"][0] == "mul":
        return out
    ratio = ctor_ratio(item["ctor"])
    if not (ratio > 0.0) or ratio > 1e6:
        return out
    v = 0.0
    for o in item["ops"]:
        k = o[0]
        if k == "n":
            if not (abs(v) < 1e9):
                break
            while v >= 1.0:
                v -= 1.0
            v += ratio
            continue
        if k == "u":
            break
        phase = "zero" if v == 0.0 else "frac" if v < 1.0 else "one" if v == 1.0 else "above1"
        if k in ("src", "pull"):
            out.append((k, phase, "-"))
            continue
        if k == "rb":
            out.append((k, phase, "ctor"))
            ratio, v = ctor_ratio(o[1:]), 0.0
            if not (ratio > 0.0):
                break
            continue
        new = ctor_ratio({"p": ["scale", o[1]], "h": ["hz"] + o[1:], "s": ["sample", o[1]]}[k])
        out.append((k, phase, "same" if new == ratio else "new"))
        ratio = new
    return out


def b2d(b):
    return struct.unpack("<d", struct.pack("<Q", b))[0]


def unit_feature(item):
    """replays the accumulator arithmetic of the case in binary64 (python floats) and returns
    (outputs with ratio == 1.0 while the accumulator's fraction != 0,
     outputs before which the accumulator sits exactly on an integer >= 1)"""
    c = item["ctor"]
    ctl = None
    try:
        if c[0] == "mul":
            ctl = [b2d(x) for x in c[1:]]
            ratio = 1.0
        elif c[0] == "hz":
            ratio = b2d(c[1]) / b2d(c[2])
        elif c[0] == "sample":
            ratio = 1.0 / b2d(c[1])
        else:
            ratio = b2d(c[1])
    except ZeroDivisionError:
        return 0, 0
    if not (ratio > 0.0) or ratio > 1e6:
        return 0, 0
    v, k, unit, exact = 0.0, 0, 0, 0
    for o in item["ops"]:
        if o[0] == "p":
            ratio = b2d(o[1])
        elif o[0] == "h":
            ratio = b2d(o[1]) / b2d(o[2]) if b2d(o[2]) != 0.0 else float("nan")
        elif o[0] == "s":
            ratio = 1.0 / b2d(o[1]) if b2d(o[1]) != 0.0 else float("nan")
        elif o[0] in ("src", "pull"):
            continue
        elif o[0] == "rb":
            ratio, v = ctor_ratio(o[1:]), 0.0
            if not (ratio > 0.0):
                return unit, exact
        else:
            if ctl is not None:
                ratio = ctl[k] if k < len(ctl) else 0.0
                k += 1
            if not (abs(v) < 1e9):
                return unit, exact
            if v >= 1.0 and v == math.floor(v):
                exact += 1
            while v >= 1.0:
                v -= 1.0
            if ratio == 1.0 and v != 0.0:
                unit += 1
            v += ratio
    return unit, exact


# ---------------------------------------------------------------------------
# rate-pair family: from_hz_to_hz / set_hz_to_hz with unusual and non-integer rates (the quotient
# source_hz / target_hz must be computed exactly as written - a reciprocal route differs by 1 ulp for
# some pairs), scale_sample_hz with the same quotients.  A few outputs suffice: the accumulator after
# the first output is the ratio in effect, compared bit-for-bit through the hook.

HZ_RATES = [37800.0, 44056.0, 47250.0, 50400.0, 22254.54, 31250.0, 48000.0 * 1.001, 44100.0 / 1.001, 11025.0, 96000.0,
            44100.0, 48000.0, 8000.0, 32000.0, 88200.0]


def rand_rate(r):
    k = r.below(4)
    if k == 0:
        return r.choice(HZ_RATES)
    if k == 1:
        return float(r.range(1000, 200000))
    if k == 2:
        return r.range(1000, 200000) + r.below(1 << 20) / float(1 << 20) * 0.999 + r.below(100) / 100.0
    return r.choice(HZ_RATES) * r.choice([1.001, 1.0 / 1.001, 0.5, 2.0, 1.0 + 2.0 ** -30, 3.0, 1.0 / 3.0])


def hz_case(r, a, b, mode, k):
    itp = k % 2
    fmt = ["f64", "i16", "f32", "u8", "i16x2"][(k // 2) % 5]
    nchan = FMT[fmt][1]
    L = r.range(0, 8)
    frames = [[rand_sample(r, fmt) for _ in range(nchan)] for _ in range(L)]
    if mode == "ctor":
        ctor = ["hz", d2b(a), d2b(b)]
        ops = [["n"]] * r.range(3, 6)
    elif mode == "set":
        ctor = ["scale", d2b(r.choice([0.5, 1.0, 0.75, 2.0]))]
        ops = [["n"]] * r.range(1, 2) + [["h", d2b(a), d2b(b)]] + [["n"]] * r.range(2, 4)
    elif mode == "sample":                      # scale_sample_hz(b / a): playback ratio 1 / (b / a)
        ctor = ["sample", d2b(b / a)]
        ops = [["n"]] * r.range(3, 5)
    else:                                       # set_sample_hz_scale(b / a) mid-run
        ctor = ["hz", d2b(b), d2b(a)]
        ops = [["n"], ["s", d2b(b / a)], ["n"], ["n"], ["n"]]
    return build(dict(fmt=fmt, itp=itp, frames=frames, ctor=ctor, ops=ops, kind="hz_" + mode, ratio=a / b, varying=(mode in ("set", "setsample")),
                      hz_pair=[a, b]))


def gen_hz_cases(rng, tier):
    items = []
    k = 0
    fixed = HZ_RATES[:10]
    for a in fixed:                              # every ordered pair of the unusual rates, up and down
        for b in fixed:
            if a != b:
                items.append(hz_case(rng.fork(f"hzfix{k}"), a, b, "ctor", k))
                k += 1
    n_rand = 150 if tier == "quick" else 4000
    for j in range(n_rand):
        r = rng.fork(f"hzrand{j}")
        a, b = rand_rate(r), rand_rate(r)
        mode = ["ctor", "ctor", "set", "sample", "ctor", "setsample"][j % 6]
        items.append(hz_case(r, a, b, mode, k))
        k += 1
    return items


def recip_feature(item):
    """from_hz_to_hz / set_hz_to_hz with a quotient whose reciprocal-of-reciprocal differs from it:
    1.0 / (target / source) != source / target in binary64"""
    pairs = []
    c = item["ctor"]
    if c[0] == "hz":
        pairs.append((b2d(c[1]), b2d(c[2])))
    for o in item["ops"]:
        if o[0] == "h":
            pairs.append((b2d(o[1]), b2d(o[2])))
    for a, b in pairs:
        if a > 0.0 and b > 0.0 and a == a and b == b and a != float("inf") and b != float("inf"):
            q = b / a
            if q > 0.0 and q != float("inf") and 1.0 / q != a / b:
                return True
    return False


# ---------------------------------------------------------------------------
# converters over a BORROWED source (`source.by_ref()` / `&mut source`): same state as an owning
# converter; is_exhausted before every output, the frame count of until_exhausted() (capped), and the
# source used again afterwards exactly where the converter left it.  Also until_exhausted on owners.


def gen_borrow_case(r, tier, k):
    itp = k % 2
    own = [1, 2, 1, 2, 0][(k // 2) % 5]
    fmt = ["f64", "i16", "g_u24", "u8", "g_i32", "f32", "i16x2", "g_u48"][(k // 10) % 8]
    L = r.range(0, 12)
    nchan = FMT[fmt][1]
    frames = [[rand_sample(r, fmt) for _ in range(nchan)] for _ in range(L)]
    mul = (k // 3) % 3 == 0
    cap = r.choice([40, 60])
    if mul:
        n = r.range(2, 6)
        clen = n + r.choice([0, 3, 40, 80])                  # the control signal may end first
        ctl = [r.choice([0.5, 0.75, 1.0, 1.5, 2.5, 0.375]) for _ in range(clen)]
        ctor = ["mul"] + [d2b(x) for x in ctl]
        ratio = 0.9
    else:
        ratio = r.choice([0.5, 0.75, 1.0, 1.5, 2.5, 1.0 / 3.0, 0.3, 7.0001])
        ctor = r.choice([["scale", d2b(ratio)], ["hz", d2b(ratio * 48000.0), d2b(48000.0)], ["scale", d2b(ratio)]])
        if ctor[0] == "hz":
            ratio = ratio * 48000.0 / 48000.0
        n = r.range(1, 5)
    style = k % 4
    if style == 0:      # outputs one by one past exhaustion
        n_all = min(40, int((L + 3) / min(ratio, 2.5)) + 4)
        ops = [["n"]] * n_all
    elif style == 1:    # a few outputs, then until_exhausted as the last operation (consumes the converter)
        ops = [["n"]] * n + [["u", cap]]
    elif style == 2:    # until_exhausted on by_ref() of the converter, then more outputs
        ops = [["n"]] * n + [["u", cap]] + [["n"]] * 2
    else:               # until_exhausted straight away
        ops = [["u", cap]]
    return build(dict(fmt=fmt, itp=itp, frames=frames, ctor=ctor, ops=ops, kind="borrow_mul" if mul else "borrow_const", ratio=ratio,
                      varying=mul, own=own, tail=(r.range(1, 3) if own else 0)))


# every sample format (generated conversions), floor and linear, running past the end of the source so
# that the equilibrium frames fed to the interpolator are visible (floor: output = equilibrium; linear:
# blends toward it)
def gen_fmt_case(r, tier, k):
    names = list(GEN_FMT)
    fmt = names[k % len(names)]
    itp = (k // len(names)) % 2
    L = r.range(0, 5)
    nchan = FMT[fmt][1]
    frames = [[rand_sample(r, fmt) for _ in range(nchan)] for _ in range(L)]
    ratio = r.choice([0.5, 0.75, 1.5, 1.0 / 3.0, 0.25, 1.0])
    ctor = r.choice([["scale", d2b(ratio)], ["mul"] + [d2b(ratio)] * 40])
    n = min(24, int((L + 3) / ratio) + 3)
    ops = [["n"]] * n
    own = r.choice([0, 0, 1, 2])
    return build(dict(fmt=fmt, itp=itp, frames=frames, ctor=ctor, ops=ops, kind="all_formats", ratio=ratio, varying=False,
                      own=own, tail=(2 if own else 0)))


def gen_malformed(r):
    """constructor arguments outside the domain (scale > 0 asserted) and harmless odd set_* values"""
    out = []
    bad = [0.0, -0.0, -1.0, float("nan"), float("-inf"), -5e-324]
    for i, x in enumerate(bad):
        fmt = ["f64", "i16", "u8"][i % 3]
        frames = [[rand_sample(r, fmt)] for _ in range(3)]
        out.append(build(dict(fmt=fmt, itp=i % 2, frames=frames, ctor=["scale", d2b(x)], ops=[["n"]] * 2, kind="malformed", ratio=1.0, varying=False)))
    # sample-rate scale of 0 -> playback ratio +inf passes the assertion (inf > 0); first output only
    # needs no pull (accumulator 0), a second one would be K3 (accumulator = inf): not requested.
    out.append(build(dict(fmt="f64", itp=0, frames=[[d2b(0.5)]], ctor=["sample", d2b(0.0)], ops=[["n"]], kind="malformed", ratio=1.0, varying=False)))
    out.append(build(dict(fmt="f64", itp=0, frames=[[d2b(0.5)]], ctor=["hz", d2b(0.0), d2b(5.0)], ops=[["n"]], kind="malformed", ratio=1.0, varying=False)))
    out.append(build(dict(fmt="i16", itp=1, frames=[[5], [9], [-7]], ctor=["hz", d2b(1.0), d2b(-4.0)], ops=[["n"]], kind="malformed", ratio=1.0, varying=False)))
    # ratio set to 0 / negative after construction: the position stops / moves back, nothing loops
    out.append(build(dict(fmt="i16", itp=1, frames=[[100], [200], [300], [400]], ctor=["scale", d2b(0.75)],
                          ops=[["n"], ["n"], ["p", d2b(0.0)], ["n"], ["n"], ["p", d2b(-0.5)], ["n"], ["n"], ["n"], ["p", d2b(1.5)], ["n"], ["n"], ["n"]],
                          kind="malformed", ratio=0.75, varying=True)))
    return out


def gen_cases(rng, tier):
    items = []
    n = 420 if tier == "quick" else 5000
    for k in range(n):
        items.append(gen_case(rng.fork(f"case{k}"), tier, k))
    for k in range(160 if tier == "quick" else 2000):
        items.append(gen_unit_case(rng.fork(f"unit{k}"), tier, k))
    items += gen_hz_cases(rng.fork("hzpairs"), tier)
    for k in range(80 if tier == "quick" else 1200):
        items.append(gen_borrow_case(rng.fork(f"borrow{k}"), tier, k))
    for k in range(96 if tier == "quick" else 1280):
        items.append(gen_fmt_case(rng.fork(f"fmt{k}"), tier, k))
    for k in range(110 if tier == "quick" else 1400):
        items.append(gen_reannounce_case(rng.fork(f"reannounce{k}"), tier, k))
    items += gen_malformed(rng.fork("malformed"))
    return items


def nontrivial(item, obs_line):
    """ratio not 1 and the run reaches exhaustion (an output observed with is_exhausted = 1), or the
    ratio varies per frame"""
    if item["kind"] == "malformed":
        return False
    if item["varying"]:
        return True
    if item["ratio"] == 1.0:
        return False
    for ob in obs_line.split(";"):
        t = ob.split()
        if len(t) > 1 and t[0] in ("1", "2") and t[1] == "1":
            return True
        if len(t) > 1 and t[0] == "4" and any(o[0] == "u" and int(t[1]) < o[1] for o in item["ops"]):
            return True          # until_exhausted() ended by itself
    return False


def load_corpus():
    d = os.path.join(F.VERIF, "corpus", PROP)
    items = []
    if os.path.isdir(d):
        for fn in sorted(os.listdir(d)):
            if fn.endswith(".json"):
                items.append(build(json.load(open(os.path.join(d, fn)))))
    return items


CASE_KEYS = ("fmt", "itp", "frames", "ctor", "ops", "kind", "ratio", "varying", "own", "tail")   # hz_pair is informative only


def main(rep, tier, seed):
    rng = F.Rng(seed)
    # the sample conversions of the all-formats model are the GENERATED ones: regenerate them from the
    # current /repo first (same translators as C01/C03), so the model follows conv.rs as it is now
    from props import c03 as _c03
    terr, _changed = _c03.regenerate()
    if terr:
        rep.violation("translator", {"kind": "the conversion model cannot be regenerated from dasp_sample/src/conv.rs", "error": terr}, no_input=True)
    info = F.standard_proof_phase(rep, PROP, allowed_axioms=F.AX_REALS)
    # K3: the class is refuted on the model (props/C08.v: c08_k3_refuted); it is never run on the
    # real code (the loop does not terminate).  Printed only when the witness theorem compiled.
    k3 = [e for e in F.known_findings(PROP) if e.get("kind") == "known"]
    if info.get("coq_ok") and "c08_k3_refuted" in info.get("theorems", []):
        for e in k3:
            rep.known_finding(e["what"])
    ok, blog, binpath = F.harness_build("c08")
    if not ok:
        rep.violation("harness_build", {"kind": "harness does not build against /repo", "log": blog[-4000:]}, no_input=True)
        return finish(rep, info, 0, 0, {}, [], fb=None)
    # the float base the model runs on, validated against rustc in the same run
    fb_n, fb_bad, fb_err = floatbase.run(rng.fork("floatbase"), 600 if tier == "quick" else 4000)
    for name, msg in fb_err:
        rep.violation("floatbase_error", {"kind": "float base validation could not be evaluated", "where": name, "log": msg}, no_input=True)
    for case, o in fb_bad[:3]:
        rep.violation("floatbase_case", {"kind": "Base/Float.v disagrees with rustc", "case": case, "rustc": o}, no_input=True)
    corpus = load_corpus()
    items = corpus + gen_cases(rng, tier)
    outl, bad, errors = F.correspond(binpath, items, HEADER, CHECK, "c08")
    rep.extra["build_profiles"] = F.profile_phase(rep, "c08", items, outl, profiles=("release",)) if not errors and len(outl) == len(items) else {}
    for name, msg in errors:
        rep.violation("correspondence_error_" + name.replace("/", "_"), {"kind": "correspondence could not be evaluated", "where": name, "log": msg}, no_input=True)
    hist = {"ratio_kind": {}, "format": {}, "interpolator": {"floor": 0, "linear": 0}, "source_len": {}, "outputs": 0,
            "exhaustion_reached": 0, "ctor_panics": 0, "pulls_per_output": {"0": 0, "1": 0, "2-3": 0, "4+": 0}}
    for it, o in zip(items, outl if not errors else [""] * len(items)):
        hist["ratio_kind"][it["kind"]] = hist["ratio_kind"].get(it["kind"], 0) + 1
        hist["format"][it["fmt"]] = hist["format"].get(it["fmt"], 0) + 1
        hist["interpolator"]["linear" if it["itp"] else "floor"] += 1
        b = f"{(len(it['frames']) // 10) * 10}-{(len(it['frames']) // 10) * 10 + 9}"
        hist["source_len"][b] = hist["source_len"].get(b, 0) + 1
        prev = None
        reached = False
        for ob in o.split(";"):
            t = ob.split()
            if not t:
                continue
            if t[0] == "8":
                hist["ctor_panics"] += 1
            if t[0] in ("0", "7"):
                prev = int(t[1])
            if t[0] in ("1", "2"):
                hist["outputs"] += 1
                reached = reached or t[1] == "1"
                d = int(t[2]) - prev
                prev = int(t[2])
                hist["pulls_per_output"]["0" if d == 0 else "1" if d == 1 else "2-3" if d < 4 else "4+"] += 1
        hist["exhaustion_reached"] += 1 if reached else 0
    nontriv = len({it["line"] for it, o in zip(items, outl) if nontrivial(it, o)}) if not errors else 0
    # extra non-trivial feature: ratio exactly 1.0 at an output where the accumulator's fraction != 0
    uf = {"cases": 0, "outputs": 0, "cases_floor": 0, "cases_linear": 0,
          "accumulator_exactly_integer_cases": 0, "accumulator_exactly_integer_outputs": 0}
    for it in items:
        u, e = unit_feature(it)
        if u:
            uf["cases"] += 1
            uf["outputs"] += u
            uf["cases_linear" if it["itp"] else "cases_floor"] += 1
        if e:
            uf["accumulator_exactly_integer_cases"] += 1
            uf["accumulator_exactly_integer_outputs"] += e
    hist["unit_ratio_at_fractional_position"] = uf
    # setters / accessors / rebuilds between outputs: which operation met which phase of the accumulator
    ph = {}
    for it in items:
        for k, phase, what in op_phases(it):
            key = f"{k}:{phase}" + ("" if what == "-" else f":{what}")
            ph[key] = ph.get(key, 0) + 1
    hist["converter_ops_by_accumulator_phase"] = dict(sorted(ph.items()))
    own_names = {0: "owned", 1: "by_ref", 2: "mut_ref"}
    hist["source_ownership"] = {}
    for it in items:
        k = own_names[it.get("own", 0)] + ("/mul_hz" if it["ctor"][0] == "mul" else "/converter")
        hist["source_ownership"][k] = hist["source_ownership"].get(k, 0) + 1
    hist["until_exhausted_observations"] = sum(o.count(";4 ") for o in outl) if not errors else 0
    hist["source_frames_pulled_after_converter_dropped"] = sum(o.count(";5 ") for o in outl) if not errors else 0
    # feature: from_hz_to_hz / set_hz_to_hz whose quotient differs from the reciprocal of its reciprocal
    rf = [it for it in items if recip_feature(it)]
    hist["hz_quotient_not_reciprocal_of_reciprocal"] = {
        "cases": len(rf), "ctor_cases": sum(1 for it in rf if it["ctor"][0] == "hz" and recip_feature(dict(ctor=it["ctor"], ops=[]))),
        "rate_pair_cases_total": sum(1 for it in items if it["kind"].startswith("hz_"))}
    for idx in bad[:3]:
        it = items[idx]

        def fails(c):
            o, b, e = F.correspond(binpath, [c], HEADER, CHECK, "c08_shrink")
            return bool(b) and not e

        small = F.shrink_ops(it, build, fails, max_steps=40)
        rc, out, _ = F.run_bin(binpath, [small["line"]])
        _, model = F.coq_eval("c08", HEADER, f"run_case ({small['coq']})")
        rep.violation(f"case{idx}", {
            "kind": "model/implementation disagreement: the real converter does not position/consume as the proved model",
            "case": {k: small[k] for k in CASE_KEYS if k in small}, "harness_line": small["line"],
            "implementation_observations": out, "model_observations": model[-3000:],
            "original_case_index": idx, "replay": "./check.py C08 --replay <this file>"})
    samples = [items[i]["line"][:400] for i in (0, len(items) // 2, len(items) - 1)]
    hist["float_base_cases"] = fb_n
    hist["corpus_cases"] = len(corpus)
    return finish(rep, info, len(items), nontriv, hist, samples, bad, fb=(fb_n, len(fb_bad)))


def finish(rep, info, n, nontriv, dist, samples, bad=(), fb=None):
    th = info.get("theorems", [])
    cov = {
        "obligations": max(1, len(th)), "discharged": len(th) if info.get("coq_ok") else 0,
        "checker_cmd": "make -f Makefile.coq props/C08.vo (coqc 8.16.1, full .vo) + Print Assumptions audit",
        "trusted_base": F.TRUSTED_COMMON + [
            "axioms: the 4 standard-library axioms behind Coq's classical reals (sig_forall_dec, sig_not_dec, functional_extensionality_dep, classic) in the R/Flocq theorems; the model-level witness c08_k3_refuted and the executable definitions are closed",
            "Flocq 4.1.0 BinarySingleNaN as the meaning of Rust f64/f32 operations (Base/Float.v, validated against rustc in this run: %s)" % (f"{fb[0]} cases, {fb[1]} mismatches" if fb else "not run"),
            "modelled, not verified: Frame::zip_map on arrays as per-channel list map, Signal/Iterator trait dispatch, the Counted/CountIter instrumentation in the harness"],
        "theorems": th, "axioms_reported": info.get("axioms", []),
        "evaluations": n, "distinct_nontrivial": nontriv,
        "rule": "one evaluation = one converter run (priming, construction, up to 80 outputs, every observation compared); non-trivial = the ratio is not 1 and the run reaches exhaustion (some output observed with is_exhausted = 1), or the ratio varies per output (mul_hz control signal / set_* calls); extra feature counted in input_distribution.unit_ratio_at_fractional_position: ratio exactly 1.0 (mul_hz control value, set_playback_hz_scale(1.0), set_hz_to_hz(a, a), set_sample_hz_scale(1.0)) at an output where the accumulator's fraction is not 0, and accumulators landing exactly on / just below integers; input_distribution.source_ownership: converters built over source.by_ref() / &mut source (constant and mul_hz ratios, floor and linear) with is_exhausted before each output, until_exhausted().take(cap).count() and the source pulled again after the converter is dropped; format histogram: all 14 sample formats + stereo through the generated conversions, run past the end of the source (equilibrium = the specified value, not the source table's); input_distribution.hz_quotient_not_reciprocal_of_reciprocal: from_hz_to_hz / set_hz_to_hz cases over unusual and non-integer rate pairs whose quotient a/b differs in binary64 from 1/(b/a) (the accumulator after the first output is the ratio in effect, compared bit-for-bit); input_distribution.converter_ops_by_accumulator_phase: every setter (announcing the ratio in force again as often as a new one), source(), source_mut().next() and into_source() + constructor again, called between outputs while the accumulator holds 0 / a fraction / exactly 1.0 / more than 1 (family reannounce, floor and linear, owned and borrowed sources)",
        "samples": samples, "input_distribution": dist, "disagreements": len(bad),
        "known_finding_class": "K3: accumulator >= 2^53 (ratio >= 2^53 or non-finite): excluded from generation, never executed on the real code; refuted on the binary64 model (c08_k3_refuted)",
        "explanation": "theorems: real-arithmetic position/consumption/exhaustion/count statements for all positive ratio sequences, sources and both interpolators + binary64 exactness of the pull loop below 2^53; tie: the same Gallina model over Flocq binary64 evaluated by coqc on the cases the real Converter/MulHz run, all observations (frames, pull counters, exhaustion flags, accumulator bits) compared exactly",
    }
    return rep.finish("proof", cov, [
        "real-arithmetic theorems: accumulator rounding for non-dyadic ratios is outside them (covered by the bit-exact correspondence on the sampled ratios and by the IEEE loop-exactness lemmas)",
        "accumulator < 2^53 (K3 excluded)", "Rust arrays/bare samples as lists of channels; usize counters as nat"])


def replay(path):
    j = json.load(open(path))
    it = build(j["case"])
    ok, blog, binpath = F.harness_build("c08")
    rc, out, _ = F.run_bin(binpath, [it["line"]])
    _, model = F.coq_eval("c08", HEADER, f"run_case ({it['coq']})")
    print("case:", it["line"])
    print("implementation:", out)
    print("model:", model)
    o, bad, errs = F.correspond(binpath, [it], HEADER, CHECK, "c08_replay")
    print("AGREE" if not bad and not errs else "DISAGREE")
    return 1 if bad or errs else 0
