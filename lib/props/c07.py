"""C07 — no heap allocation in steady state (partial by nature: see DESIGN §6/C07).
What is logic is proved in Coq (coq/props/C07.v: storage of both ring buffers never changes size under
any history; the capacity trace of the modelled dasp_graph::process — the C09 stack machine with every
stack/inputs/bit-set operation accounted on (len, cap) vectors — reaches a steady state after one call).
Allocator behaviour itself cannot be exhibited by a Coq model; it is OBSERVED: a counting GlobalAlloc
around the allocation-free API surface (90 scenarios, each constructed, warmed up once, then run K more
times, under each of 5 input VALUE FAMILIES: plain, wide dynamic range, finite special values, non-finite,
ramps; a third of the scenarios are aimed at one data-dependent branch each and report how often it was taken).  The capacity model of the graph processor is additionally TIED to the crate:
its executable definitions (Alloc/CapsRun.v) are evaluated by coqc on build-and-process scripts and the
predicted stack/inputs capacities and the heap traffic of every call are compared with
Processor::verif_capacities() and the counting allocator."""
import json, os
import framework as F

PROP = "C07"
META = dict(
    category="other",
    technique="Coq size/capacity theorems (ring-buffer storage constant, capacity trace of the modelled graph processor) + coqc-evaluated capacity model vs Processor::verif_capacities() + counting-allocator observation of the API surface",
    text="Coq proves the logical half (23 theorems): every history of Bounded/Fixed operations leaves the backing storage length unchanged (corollary of the C06 refinement); the bus backlog length equals the maximum lag over live outputs and, under lock-step pulling with drops/re-attachments between rounds, is empty at every round boundary and never exceeds one frame (corollaries of the C13 model); the push/pop/clear scripts that one Processor::process call applies to its DFS stack and inputs vectors are a function of (graph, output node) only and faithful to the C09 traversal model, so after ONE call every further call on the same graph reallocates neither vector (any multigraph, no size bound), with high-water marks 1+|E| (tight) and max in-degree, and with_capacity covering them never reallocates; the same on the capacity trace of the modelled process itself (the C09 traversal with the DFS stack, the inputs list and the FixedBitSet block vectors as (len, cap) pairs): a second call from the same node on any graph of the same shape changes no capacity, a call from any node of any graph whose needs are within what is reserved changes none either, while the reading 'from any node of a graph of that size' is refuted by a witness (a first call from a shallow node, then one from a deep node grows the stack) that the check reproduces on the crate through Processor::verif_capacities(). The capacity model is tied to the crate by running it inside coqc on random build-and-process scripts (Graph and StableGraph, removals, growth between calls, one processor per script) and comparing, after every call, both capacities and the number of allocations+reallocations and of frees of that call. That an operation performs no allocation is a runtime fact no Coq model can exhibit; it is observed with a counting GlobalAlloc over 90 scenarios, each run under 5 input value families (plain, wide dynamic range, finite special values, NaN/inf, ramps) and a third of them designed to enter one rarely taken data-dependent branch each (RMS clamp, envelope attack/release, converter multi-frame advance and exhaustion, sinc priming, clipping on both sides, ring full/empty/wrap, windower edge schedules, ...; which source regions the runs enter is measured with llvm coverage and recorded in the evidence), covering sample/frame/slice/ring-buffer/peak/RMS/envelope/interpolation/window/signal sources and adaptors/fork/buffered/converter/windower/graph processing with stock nodes, with the documented exceptions (bus, by_rc creation, boxed conversions) checked for boundedness/balance instead. This is labelled 'other', not proof.",
    note="Trusted: Coq kernel for the capacity theorems; for the allocator half the harness's scenario list is the coverage: an allocation reachable only through an API call or input class the scenarios do not exercise is missed (docs/coverage/C07_regions.json lists the source regions of the anchored files that no scenario enters). petgraph/std Vec growth is modelled as (len, cap) with std's amortised rule cap' = max(4, 2*cap, needed), validated by the capacity correspondence only.",
    design="6/C07")

ZERO = ["sample_conv", "sample_amp", "frame_ops2", "frame_ops32", "slice_views", "slice_ops",
        "ring_bounded_array", "ring_bounded_vec", "ring_bounded_box", "ring_fixed_vec", "ring_fixed_array",
        "peak", "rms_array", "rms_vec", "env_peak", "env_rms",
        "interp_floor", "interp_linear", "interp_sinc_array", "interp_sinc_vec", "conv_mul_hz", "conv_set_rate",
        "window_hann", "window_rect", "windower_hann", "windower_rect",
        "src_basic", "src_osc", "src_hz", "src_noise", "src_iter",
        "adaptors_a", "adaptors_b", "adaptors_c", "delay_take", "interleaved", "by_ref",
        "fork_by_ref", "fork_by_rc_steady", "buffered_next", "buffered_frames", "sig_rms", "sig_env",
        "graph_stable", "graph_nested",
        "ring_bounded_index", "ring_bounded_raw", "frame_channels_mut", "interp_direct", "lift", "conv_source_access",
        "rectifier_structs", "window_direct", "slice_trait_forms", "graph_node_shapes",
        # round 3: inputs designed per data-dependent branch / entry points the coverage report listed as never reached
        "rms_clamp", "rms_clamp_adaptors", "env_attack_release", "conv_ratio_steps", "conv_exhaustion", "sinc_priming",
        "clip_both_sides", "bounded_full_wrap", "windower_edges", "graph_node_edge_cases", "osc_shapes",
        "exhaustion_queries", "consume_parts", "fork_rc_schedules", "slice_all_forms", "frame_iters_mono",
        "sample_all_formats", "custom_int_types", "debug_fmt", "size_sweep"]

# value families of the scenario inputs (4th token of a harness line; harness/src/bin/c07.rs, `struct R`)
FAMILIES = ["plain", "dynrange", "edges", "nonfinite", "ramps"]

# scenarios aimed at one data-dependent branch report, after the three counters, how often that branch was
# demonstrably taken (witnesses); recorded in the evidence, and a NOTE is printed if one of them is 0 in every run
WITNESS = {
    "rms_clamp": ["f32 window: next_squared returned exactly 0 although the window holds a non-zero square (clamp branch)",
                  "f64 Vec window: same", "i16 frames: same"],
    "rms_clamp_adaptors": ["signal.rms(): output exactly 0 inside a non-silent window"],
    "env_attack_release": ["envelope rose (attack gain used)", "envelope fell (release gain used)"],
    "conv_ratio_steps": ["rounds"],
    "conv_exhaustion": ["is_exhausted() true", "is_exhausted() false"],
    "clip_both_sides": ["clipped at +thresh", "clipped at -thresh", "passed unclipped"],
    "bounded_full_wrap": ["push on a full ring evicted", "pop on an empty ring", "get beyond len -> None", "get_mut beyond len -> None"],
    "bus_catch_up": ["max backlog", "end backlog", "rounds with no output exhausted"],
    "bus_finite_source": ["max backlog", "end backlog", "is_exhausted() true"],
    "windower_edges": ["size_hint upper bound None (hop = 0)", "size_hint (0, Some(0)) (no chunk fits)", "size hint exact"],
    "graph_node_edge_cases": ["bytes of Debug output"],
    "osc_shapes": ["square high half", "square low half"],
    "exhaustion_queries": ["is_exhausted() true", "is_exhausted() false"],
    "fork_rc_schedules": ["B had frames pending after A led", "A had frames pending after B led"],
    "slice_all_forms": ["length divisible into frames"],
    "frame_iters_mono": ["from_samples with too few samples -> None"],
    "debug_fmt": ["bytes of Debug output"],
}


# ---------------------------------------------------------------------------
# capacity correspondence: Alloc/CapsRun.v (the capacity trace of the modelled process, evaluated by
# coqc) against Processor::verif_capacities() and the counting allocator (harness mode `caps`)
HEADER = "From Dasp Require Import Alloc.CapsRun."
CHECK = "check"


def caps_build(item, ops=None):
    it = dict(item)
    if ops is not None:
        it["ops"] = ops
    it["line"] = f"caps {'S' if it['stable'] else 'G'} {it['cap0']} ; " + " , ".join(" ".join(str(t) for t in o) for o in it["ops"])
    z = F.zlit
    cop = {"N": lambda a: "CN", "E": lambda a: f"CE {z(a[0])} {z(a[1])}", "R": lambda a: f"CR {z(a[0])}", "P": lambda a: f"CP {z(a[0])}"}
    it["coq"] = f"({z(it['cap0'])}, [" + "; ".join(cop[o[0]](o[1:]) for o in it["ops"]) + "])"
    return it


class Shape:
    """python mirror of the container bookkeeping, used only to GENERATE valid scripts (never as an oracle)"""

    def __init__(self):
        self.live, self.free, self.edges = [], [], []

    def add_node(self):
        if self.free:
            i = self.free.pop(0)
            self.live[i] = True
        else:
            i = len(self.live)
            self.live.append(True)
        return i

    def remove(self, a):
        self.live[a] = False
        self.free.insert(0, a)
        self.edges = [e for e in self.edges if a not in e]

    def nodes(self):
        return [i for i, l in enumerate(self.live) if l]


def caps_valid(it):
    sh = Shape()
    for o in it["ops"]:
        if o[0] == "N":
            sh.add_node()
        elif o[0] == "E":
            if not (o[1] < len(sh.live) and o[2] < len(sh.live) and sh.live[o[1]] and sh.live[o[2]]):
                return False
            sh.edges.append((o[1], o[2]))
        elif o[0] == "R":
            if not it["stable"] or not (o[1] < len(sh.live) and sh.live[o[1]]):
                return False
            sh.remove(o[1])
        elif o[0] == "P":
            if not (o[1] < len(sh.live) and sh.live[o[1]]):
                return False
    return True


def add_edges(r, sh, ops, style, ne):
    ns = sh.nodes()
    if len(ns) == 0:
        return
    for _ in range(ne):
        a, b = r.choice(ns), r.choice(ns)
        if style == "dag":
            if a == b:
                continue
            a, b = min(a, b), max(a, b)
        elif style == "rdag":      # edges from larger to smaller index
            if a == b:
                continue
            a, b = max(a, b), min(a, b)
        elif style == "multi" and sh.edges and r.chance(1, 2):
            a, b = r.choice(sh.edges)      # a parallel edge
        sh.edges.append((a, b))
        ops.append(("E", a, b))


def caps_case(r, tier):
    stable = r.chance(1, 2)
    style = r.choice(["dag", "dag", "rdag", "cyclic", "multi", "chain", "fan", "tournament", "layers"])
    big = tier == "thorough" and r.chance(1, 4)
    n = r.range(1, 60 if big else 24)
    sh, ops = Shape(), []
    for _ in range(n):
        sh.add_node()
        ops.append(("N",))
    if style == "chain":
        order = list(range(n))
        if r.chance(1, 2):
            order.reverse()
        for a, b in zip(order, order[1:]):
            sh.edges.append((a, b)); ops.append(("E", a, b))
    elif style == "fan":
        hub = r.below(n)
        for a in range(n):
            if a != hub or r.chance(1, 4):
                for _ in range(1 + (1 if r.chance(1, 5) else 0)):
                    sh.edges.append((a, hub)); ops.append(("E", a, hub))
    elif style == "tournament":
        n = min(n, 9)
        es = [(a, b) for b in range(n) for a in range(b)]
        if r.chance(1, 2):
            es.reverse()
        for a, b in es:
            sh.edges.append((a, b)); ops.append(("E", a, b))
    elif style == "layers":
        w = r.range(1, 4)
        for b in range(w, n):
            for a in range(b - b % w - w, b - b % w):
                if a >= 0 and r.chance(3, 4):
                    sh.edges.append((a, b)); ops.append(("E", a, b))
    else:
        add_edges(r, sh, ops, style, r.range(0, 3 * n if not big else 2 * n))
    if stable and r.chance(1, 2) and len(sh.nodes()) > 1:
        for _ in range(r.range(1, 3)):
            if len(sh.nodes()) > 1:
                a = r.choice(sh.nodes())
                sh.remove(a); ops.append(("R", a))
    nn = max(1, len(sh.nodes()))
    cap0 = r.choice([0, 0, 1, 2, 3, 4, 4, 5, 8, 16, nn, nn, nn + 1, 1 + len(sh.edges), nn + len(sh.edges) + 1, 64])
    ncalls = r.range(2, 8)
    changed = False
    for c in range(ncalls):
        ns = sh.nodes()
        if not ns:
            break
        k = r.below(10)
        if k == 0 and c > 0:           # the graph grows between calls
            i = sh.add_node(); ops.append(("N",))
            add_edges(r, sh, ops, "cyclic" if style in ("cyclic", "multi") else "dag", r.range(1, 4))
            changed = True
        elif k == 1 and c > 0 and stable and len(ns) > 1:
            a = r.choice(ns)
            sh.remove(a); ops.append(("R", a))
            changed = True
        ns = sh.nodes()
        m = r.below(6)
        if m == 0:
            o = min(ns)
        elif m == 1:
            o = max(ns)
        elif m == 2 and c > 0:
            o = [x for x in ops if x[0] == "P"][-1][1]
            o = o if o in ns else r.choice(ns)
        else:
            o = r.choice(ns)
        ops.append(("P", o))
    return dict(kind=style + ("+changes" if changed else ""), stable=stable, cap0=cap0, ops=ops)


def caps_bitset_case(r):
    """more than 128 nodes reached in two steps: the FixedBitSet block vectors (first allocation: 4 blocks =
    128 bits) are reallocated by the reset of a later call"""
    stable = r.chance(1, 2)
    sh, ops = Shape(), []
    n0 = r.range(60, 128)
    for _ in range(n0):
        sh.add_node(); ops.append(("N",))
    add_edges(r, sh, ops, "dag", r.range(n0 // 2, n0))
    ops.append(("P", r.choice(sh.nodes())))
    ops.append(("P", max(sh.nodes())))
    for _ in range(r.range(129 - n0, 200 - n0)):
        sh.add_node(); ops.append(("N",))
    add_edges(r, sh, ops, "dag", r.range(10, 60))
    o = max(sh.nodes())
    ops += [("P", o), ("P", o), ("P", r.choice(sh.nodes()))]
    return dict(kind="bitset-regrow+changes", stable=stable, cap0=r.choice([0, 4, 64, 256]), ops=ops)


def caps_corpus():
    d = os.path.join(F.VERIF, "corpus", PROP)
    items = []
    if os.path.isdir(d):
        for fn in sorted(os.listdir(d)):
            if fn.endswith(".json"):
                c = json.load(open(os.path.join(d, fn)))
                c["ops"] = [tuple(o) for o in c["ops"]]
                c["corpus_file"] = fn
                items.append(caps_build(c))
    return items


def caps_cases(rng, tier):
    items = caps_corpus()
    nrand = 1500 if tier == "quick" else 4000
    for i in range(nrand):
        items.append(caps_build(caps_case(rng.fork(f"caps{i}"), tier)))
    for i in range(8 if tier == "quick" else 40):
        items.append(caps_build(caps_bitset_case(rng.fork(f"capsbits{i}"))))
    return items


def caps_stats(items, outl):
    """classification of the observed traces (the model has already been compared with them)"""
    st = {"cases": len(items), "process_calls": 0, "calls_that_grew_a_capacity": 0, "calls_with_heap_traffic": 0,
          "frees": 0, "same_node_repeat_calls": 0, "same_node_repeat_calls_with_heap_traffic": 0,
          "later_call_other_node_unchanged_graph_grew": 0, "cases_with_later_growth_on_unchanged_graph": 0,
          "first_call_grew_stack_beyond_with_capacity_of_node_count": 0,
          "style": {}, "cap0": {}, "container": {"Graph": 0, "StableGraph": 0}, "nodes": {}, "calls_per_case": {}}
    nontrivial = set()
    for it, o in zip(items, outl):
        st["style"][it["kind"]] = st["style"].get(it["kind"], 0) + 1
        c0 = it["cap0"]
        ck = "0" if c0 == 0 else ("1-3" if c0 < 4 else ("4" if c0 == 4 else ("5-8" if c0 <= 8 else ("9-16" if c0 <= 16 else ">16"))))
        st["cap0"][ck] = st["cap0"].get(ck, 0) + 1
        st["container"]["StableGraph" if it["stable"] else "Graph"] += 1
        nb = sum(1 for x in it["ops"] if x[0] == "N")
        key = "<=4" if nb <= 4 else ("<=12" if nb <= 12 else ("<=24" if nb <= 24 else ">24"))
        st["nodes"][key] = st["nodes"].get(key, 0) + 1
        try:
            obs = F.parse_obs_line(o)
        except ValueError:
            continue
        calls = [x for x in it["ops"] if x[0] == "P"]
        st["calls_per_case"][str(len(calls))] = st["calls_per_case"].get(str(len(calls)), 0) + 1
        if len(obs) != len(calls):
            continue
        prev, prev_caps, changed_since, later = None, (it["cap0"], it["cap0"]), False, False
        ci = 0
        sh = Shape()
        for x in it["ops"]:
            if x[0] == "N":
                sh.add_node()
                changed_since = True
            elif x[0] == "E":
                sh.edges.append((x[1], x[2]))
                changed_since = True
            elif x[0] == "R":
                sh.remove(x[1])
                changed_since = True
            else:
                sc, ic, da, dd = obs[ci]
                st["process_calls"] += 1
                grew = (sc, ic) != prev_caps
                st["calls_that_grew_a_capacity"] += 1 if grew else 0
                st["calls_with_heap_traffic"] += 1 if da else 0
                st["frees"] += dd
                if ci == 0 and it["cap0"] == len(sh.nodes()) and sc > it["cap0"]:
                    st["first_call_grew_stack_beyond_with_capacity_of_node_count"] += 1
                if ci > 0 and not changed_since:
                    if x[1] == prev:
                        st["same_node_repeat_calls"] += 1
                        st["same_node_repeat_calls_with_heap_traffic"] += 1 if da else 0
                    elif grew:
                        st["later_call_other_node_unchanged_graph_grew"] += 1
                        later = True
                prev, prev_caps, changed_since = x[1], (sc, ic), False
                ci += 1
        if later:
            st["cases_with_later_growth_on_unchanged_graph"] += 1
        if len({c[1] for c in calls}) >= 2 or "+changes" in it["kind"] or later:
            nontrivial.add(it["line"])
    return st, len(nontrivial)


def caps_phase(rep, binpath, rng, tier):
    items = caps_cases(rng, tier)
    outl, bad, errors = F.correspond(binpath, items, HEADER, CHECK, "c07caps")
    for name, msg in errors:
        rep.violation("caps_correspondence_error_" + name.replace("/", "_"), {"kind": "capacity correspondence could not be evaluated", "where": name, "log": msg}, no_input=True)

    def fails(c):
        if not caps_valid(c):
            return False
        o, b, e = F.correspond(binpath, [c], HEADER, CHECK, "c07caps_shrink")
        return bool(b) and not e

    for idx in bad[:3]:
        small = F.shrink_ops(items[idx], caps_build, fails, max_steps=40)
        rc, out, _ = F.run_bin(binpath, [small["line"]])
        _, model = F.coq_eval("c07caps", HEADER, f"run_case {small['coq']}")
        rep.violation(f"caps_case{idx}", {
            "kind": "model/implementation disagreement: the capacities or the heap traffic of a Processor::process call differ from the proved capacity model's prediction",
            "case": {k: small[k] for k in ("kind", "stable", "cap0", "ops")}, "harness_line": small["line"],
            "implementation_observations (per call: stack cap, inputs cap, allocs+reallocs, frees)": out,
            "model_observations": model[-3000:], "original_case_index": idx,
            "replay": "./check.py C07 --replay <this file>"})
    if errors or len(outl) != len(items):
        return items, [], {}, 0, bad
    st, nontriv = caps_stats(items, outl)
    # the two refuted readings must be reproduced on the crate by the corpus witnesses
    for it, o in zip(items, outl):
        if it.get("corpus_file") and it.get("expect"):
            if F.parse_obs_line(o) != it["expect"]:
                rep.violation("caps_witness_" + it["corpus_file"].replace(".json", ""), {
                    "kind": "a recorded capacity witness no longer reproduces on the crate (the finding it documents may have been repaired: update corpus/C07 and the _refuted theorem)",
                    "case": it["corpus_file"], "expected": it["expect"], "observed": o, "harness_line": it["line"]}, no_input=True)
    return items, outl, st, nontriv, bad


def verdict(name, k, v):
    """None if fine, else a description of what is wrong"""
    if v and v[0] <= -2:
        return f"the harness process died in scenario {name} (code {v})"
    if len(v) < 3:
        return f"malformed harness output {v}"
    a, r, d = v[0], v[1], v[2]
    if name in ZERO:
        return None if (a, r, d) == (0, 0, 0) else f"{a} allocs, {r} reallocs, {d} deallocs during {k} steady-state calls"
    if name in ("graph_stock", "graph_small_cap"):
        caps0, caps1, caps2 = v[3:5], v[5:7], v[7:9]
        if (a, r, d) != (0, 0, 0):
            return f"graph processing allocated after the first process call: {a}/{r}/{d}"
        if caps1 != caps2:
            return f"processor capacities changed after the first call: {caps1} -> {caps2}"
        if name == "graph_stock" and caps0 != caps1:
            return f"a processor built with_capacity(32) grew on an 8-node graph: {caps0} -> {caps1}"
        return None
    if name in ("graph_fan_in_1500", "graph_chain_1500", "graph_alternating_outputs"):
        caps1, caps2 = v[3:5], v[5:7]
        if (a, r, d) != (0, 0, 0):
            return f"graph processing allocated after the first process call(s): {a}/{r}/{d}"
        if caps1 != caps2:
            return f"processor capacities changed in steady state: {caps1} -> {caps2}"
        return None
    if name in ("bus_drop_caught_up", "bus_drop_laggard"):
        maxb, endb = v[3], v[4]
        if (a, r, d) != (0, 0, 0):
            return f"bus pulled in step after a drop still allocates: {a}/{r}/{d} (backlog max {maxb}, end {endb})"
        if maxb > 1 or endb > 1:
            return f"bus backlog keeps growing after an output was dropped although the live outputs are pulled in step: max {maxb}, end {endb}"
        return None
    if name == "bus_reattach":
        maxb, endb = v[3], v[4]
        if maxb > 1 or endb > 1:
            return f"bus backlog grows across re-attachments although outputs are pulled in step: max {maxb}, end {endb}"
        return None
    if name in ("bus_catch_up", "bus_finite_source"):
        # the bus may allocate (documented exception); what is required is that the backlog never exceeds the largest
        # lag the schedule creates (12 frames / 4 frames) and is back to (at most) the standing lag at the end
        maxb, endb = v[3], v[4]
        bound, endbound = (12, 1) if name == "bus_catch_up" else (5, 5)
        if maxb > bound or endb > endbound:
            return f"bus backlog grew beyond the slowest lag: max {maxb} (bound {bound}), end {endb} (bound {endbound})"
        return None
    if name in ("bus_lockstep", "bus_laggard"):
        maxb, endb = v[3], v[4]
        bound = 1 if name == "bus_lockstep" else 5
        if maxb > bound or endb > bound:
            return f"bus backlog grew beyond the slowest lag: max {maxb}, end {endb}, bound {bound}"
        return None
    if name in ("boxed_slice_ok", "boxed_slice_fail", "boxed_slice_forms"):
        # one Vec allocation per iteration made by the scenario itself; must be balanced (no leak, no extra)
        return None if (a, r, d) == (k, 0, k) else f"boxed conversion not allocation-neutral: {a} allocs, {r} reallocs, {d} deallocs over {k} iterations"
    return f"unknown scenario {name}"


def minimise(binpath, n, k, s, fi):
    """smallest number of measured calls that still gives a bad verdict (the counters only grow with the number of
    calls and a run is a function of its line, so bisection applies); the shrunk line is the concrete failing input"""
    def bad_at(kk):
        rc, out, _ = F.run_bin(binpath, [f"{n} {kk} {s} {fi}"])
        try:
            v = [int(t) for t in out[0].replace("HARNESS-PANIC", "").split()]
        except (ValueError, IndexError):
            v = [-3]
        return verdict(n, kk, v), (out[0] if out else "")
    lo, hi = 0, k           # invariant: bad at hi, fine (or untested) at lo
    try:
        while hi - lo > 1:
            mid = (lo + hi) // 2
            b, _ = bad_at(mid)
            if b:
                hi = mid
            else:
                lo = mid
        b, o = bad_at(hi)
        return {"minimised": {"harness_line": f"{n} {hi} {s} {fi}", "calls": hi, "observed": o, "problem": b,
                              "meaning": f"the first {hi - 1} measured calls show nothing wrong; measured call number {hi} does"}}
    except Exception as e:      # the shrink is a convenience, never a reason to lose the violation
        return {"minimised": {"error": str(e)}}


def report_bad(rep, binpath, badruns, profile):
    """one violation per scenario: the first failing run (fewest calls, then family, then seed), shrunk to the smallest
    number of calls that still fails, with the other failing runs of the same scenario listed in the replay file"""
    for i, (n, runs) in enumerate(badruns.items()):
        line, o, bad = runs[0]
        _, k, s, fi = line.split()
        payload = {"kind": "heap traffic in steady state" + ("" if profile == "dev" else f" ({profile} profile)"),
                   "scenario": n, "calls": int(k), "seed": int(s), "family": int(fi), "family_name": FAMILIES[int(fi)],
                   "profile": profile, "harness_line": line, "observed": o, "problem": bad,
                   "replay": f"echo '{line}' | harness/target/{'debug' if profile == 'dev' else profile}/c07",
                   "failing_runs_of_this_scenario": len(runs),
                   "other_failing_runs": [{"harness_line": l, "observed": oo} for l, oo, _ in runs[1:41]]}
        if i < 8:
            payload.update(minimise(binpath, n, int(k), s, fi))
        rep.violation(f"{n}_{k}_{s}_{FAMILIES[int(fi)]}" + ("" if profile == "dev" else "_" + profile), payload)


def main(rep, tier, seed):
    rng = F.Rng(seed)
    info = F.standard_proof_phase(rep, PROP)
    ok, blog, binpath = F.harness_build("c07")
    if not ok:
        rep.violation("harness_build", {"kind": "harness does not build against /repo", "log": blog[-4000:]}, no_input=True)
        return finish(rep, info, [], 0, tier)
    citems, coutl, cstats, cnontriv, cbad = caps_phase(rep, binpath, rng.fork("caps"), tier)
    rep.extra["capacity_correspondence"] = {
        "what": "Alloc/CapsRun.v (capacity trace of the modelled process) evaluated by coqc vs Processor::verif_capacities() and the counting allocator, after every process call of a script",
        "evaluations": len(coutl), "distinct_nontrivial": cnontriv, "disagreements": len(cbad),
        "rule": "non-trivial = process calls from at least two different output nodes, or the graph changed between calls (node/edges added, node removed), or a call other than the first grew a capacity on an unchanged graph",
        "input_distribution": cstats, "samples": [it["line"][:300] for it in citems[:2] + citems[-2:]]}
    if cstats.get("later_call_other_node_unchanged_graph_grew"):
        rep.notes.append(f"NOTE property=C07 reading 'from any node of a graph of that size' is false on the crate as on the model: "
                         f"{cstats['later_call_other_node_unchanged_graph_grew']} later calls from another node of an unchanged graph grew a capacity "
                         f"(c07_processor_any_node_refuted; not a violation of the checked reading 'same graph, same node': "
                         f"{cstats['same_node_repeat_calls_with_heap_traffic']} of {cstats['same_node_repeat_calls']} repeated calls had heap traffic)")
    rc, out, err = F.run_bin(binpath, ["list"])
    names = out[0].split()
    missing = [n for n in ZERO if n not in names]
    if missing:
        rep.violation("scenarios", {"kind": "scenario list of the harness and of the check differ", "missing": missing}, no_input=True)
    ks = [1000] if tier == "quick" else [1000, 200000]
    seeds = [seed, seed + 1, seed + 2] if tier == "quick" else [seed + i for i in range(6)]
    unknown = [n for n in names if verdict(n, 1, [0, 0, 0, 0, 0, 0, 0, 0, 0]) == f"unknown scenario {n}"]
    if unknown:
        rep.violation("scenarios_unknown", {"kind": "the harness lists scenarios the check has no verdict for", "unknown": unknown}, no_input=True)
    # every scenario under every value family: the long runs of the thorough tier use 3 seeds (plain) / 2 seeds (others)
    lines = [f"{n} {k} {s} {fi}" for n in names for k in ks for fi in range(len(FAMILIES))
             for s in (seeds if k <= 1000 else seeds[:3] if fi == 0 else seeds[:2])]
    rc, outl, err = F.run_bin_parallel(binpath, lines)
    results = []
    badruns = {}
    for line, o in zip(lines, outl):
        n, k, s, fi = line.split()
        try:
            v = [int(t) for t in o.replace("HARNESS-PANIC", "").split()]
        except ValueError:
            v = [-3]
        bad = verdict(n, int(k), v)
        results.append((line, o, bad))
        if bad:
            badruns.setdefault(n, []).append((line, o, bad))
    report_bad(rep, binpath, badruns, "dev")
    if len(outl) != len(lines):
        rep.violation("harness_run", {"kind": "harness run incomplete", "stderr": err[-2000:]}, no_input=True)
    # the same runs on the optimised build (no debug assertions, no overflow checks): the `cfg!(debug_assertions)`
    # else-arms of the sample types and anything else that only exists there is not reachable in the dev profile
    rel = {"runs": 0, "bad": 0}
    if not F.COV:
        okr, rlog, relpath = F.harness_build("c07", profile="release")
        if not okr:
            rep.violation("harness_build_release", {"kind": "harness does not build against /repo (release profile)", "log": rlog[-4000:]}, no_input=True)
        else:
            rlines = [l for l in lines if int(l.split()[1]) <= 1000]
            rc, routl, err = F.run_bin_parallel(relpath, rlines)
            if len(routl) != len(rlines):
                rep.violation("harness_run_release", {"kind": "harness run incomplete (release profile)", "stderr": err[-2000:]}, no_input=True)
            rbad = {}
            for line, o in zip(rlines, routl):
                n, k, s, fi = line.split()
                try:
                    v = [int(t) for t in o.replace("HARNESS-PANIC", "").split()]
                except ValueError:
                    v = [-3]
                bad = verdict(n, int(k), v)
                rel["runs"] += 1
                if bad:
                    rel["bad"] += 1
                    rbad.setdefault(n, []).append((line, o, bad))
            report_bad(rep, relpath, rbad, "release")
    rep.extra["release_profile_runs"] = rel
    return finish(rep, info, results, len(names), tier)


def finish(rep, info, results, nscen, tier):
    th = info.get("theorems", [])
    # input distribution of the allocator half: runs per value family, witnesses of the branch-targeted scenarios,
    # and the last region-coverage measurement (tools/coverage_regions.py, committed in docs/coverage/)
    fam_hist, wit = {}, {}
    for line, o, bad in results:
        t = line.split()
        fam_hist[FAMILIES[int(t[3])]] = fam_hist.get(FAMILIES[int(t[3])], 0) + 1
        if t[0] in WITNESS:
            try:
                v = [int(x) for x in o.split()][3:]
            except ValueError:
                continue
            w = wit.setdefault(t[0], {lab: [None, 0] for lab in WITNESS[t[0]]})
            for lab, x in zip(WITNESS[t[0]], v):
                w[lab] = [x if w[lab][0] is None else min(w[lab][0], x), max(w[lab][1], x)]
    for sc, w in wit.items():
        if sc.startswith("bus_"):
            continue
        for lab, d in w.items():
            if d[1] == 0:
                rep.notes.append(f"NOTE property=C07 scenario {sc}: the branch it is aimed at was never taken in this run ({lab})")
    wit = {sc: {lab: f"{d[0]}..{d[1]} per run" for lab, d in w.items()} for sc, w in wit.items()}
    regions = {}
    rp = os.path.join(F.VERIF, "docs", "coverage", "C07_regions.json")
    if os.path.exists(rp):
        try:
            rj = json.load(open(rp))
            for lab in ("before", "after"):
                if lab in rj:
                    regions[lab] = rj[lab]["summary"]
            if "after" in rj:
                regions["still_unentered_after"] = rj["after"].get("unentered", {})
                regions["excluded_unreachable"] = rj["after"].get("excluded", {})
                regions["never_instantiated_after"] = rj["after"].get("never_instantiated", {})
                regions["never_instantiated_excluded"] = rj["after"].get("never_instantiated_excluded", {})
            regions["how"] = ("llvm source-based coverage of the dev-profile harness over one quick run (tools/coverage_regions.py C07; "
                              "code regions summed over monomorphisations; 'before' = the scenario list as it was before round 3); "
                              "a measurement recorded when the scenarios were last changed, not recomputed by this run")
        except Exception as e:
            regions = {"error": str(e)}
    rep.extra["input_distribution"] = {
        "allocator_runs_per_value_family": fam_hist,
        "allocator_runs_repeated_on_release_build": rep.extra.get("release_profile_runs", {}).get("runs", 0),
        "value_families": {"plain": "uniform [-1,1] / uniform i16", "dynrange": "segments cycling through levels 1e4 .. 1e-20 and 0 (loud then quiet)",
                           "edges": "half the draws from finite special values (+-0, +-1, 1+-ulp, subnormals, format extremes)",
                           "nonfinite": "1/16 NaN / +-inf / +-f64::MAX, 1/4 special values", "ramps": "rise / plateau / fall / silence, alternating sign"},
        "branch_witnesses": wit,
        "source_regions_never_entered": regions,
    }
    cov = {
        "explanation": "Coq theorems (props/C07.v) about storage sizes and vector capacities + counting-allocator observation of %d scenarios; the allocator half is differential observation against the prediction 'zero heap traffic', not proof" % nscen,
        "obligations": max(1, len(th)), "discharged": len(th) if info.get("coq_ok") else 0,
        "checker_cmd": "make -f Makefile.coq props/C07.vo (coqc 8.16.1) + harness/target/debug/c07 under a counting GlobalAlloc",
        "trusted_base": F.TRUSTED_COMMON + ["axioms: none", "allocator observation covers only the enumerated scenarios"],
        "theorems": th,
        "evaluations": len(results) + rep.extra.get("capacity_correspondence", {}).get("evaluations", 0),
        "distinct_nontrivial": len({r[0].split()[0] for r in results}) + rep.extra.get("capacity_correspondence", {}).get("distinct_nontrivial", 0),
        "rule": "allocator scenarios: one evaluation = one scenario x call count x seed x value family; every scenario constructs its objects, makes one warm-up call and then K measured calls with inputs varied by iteration index and PRNG; distinct = distinct scenarios; plus the capacity correspondence (see capacity_correspondence: its own counts and rule)",
        "samples": [f"{r[0]} -> {r[1]}" for r in results[:3] + results[-6:]],
    }
    return rep.finish("other", cov, ["allocation behaviour is observed, not proved", "Vec growth modelled as (len, cap) with doubling"])


def replay(path):
    j = json.load(open(path))
    ok, blog, binpath = F.harness_build("c07")
    if "case" in j and isinstance(j["case"], dict) and "ops" in j["case"]:
        c = j["case"]
        c["ops"] = [tuple(o) for o in c["ops"]]
        it = caps_build(c)
        rc, out, _ = F.run_bin(binpath, [it["line"]])
        _, model = F.coq_eval("c07caps", HEADER, f"run_case {it['coq']}")
        print("case:", it["line"])
        print("implementation:", out)
        print("model:", model[-2000:])
        o, bad, errs = F.correspond(binpath, [it], HEADER, CHECK, "c07caps_replay")
        print("AGREE" if not bad and not errs else "DISAGREE")
        return 1 if bad or errs else 0
    if j.get("profile") == "release":
        ok, blog, binpath = F.harness_build("c07", profile="release")
    line = f"{j['scenario']} {j['calls']} {j['seed']} {j.get('family', 0)}"
    rc, out, err = F.run_bin(binpath, [line])
    print(line, "->", out)
    v = [int(t) for t in out[0].split()]
    bad = verdict(j["scenario"], j["calls"], v)
    print("problem:", bad)
    return 1 if bad else 0
