"""C07 — no heap allocation in steady state (partial by nature: see DESIGN §6/C07).
What is logic is proved in Coq (coq/props/C07.v: storage of both ring buffers never changes size under
any history; a growable vector driven by a fixed push/pop/clear script stops reallocating after the
first run — the processor's steady state).  Allocator behaviour itself cannot be exhibited by a Coq
model; it is OBSERVED: a counting GlobalAlloc around the allocation-free API surface (67 scenarios,
each constructed, warmed up once, then run K more times with varied inputs)."""
import json, os
import framework as F

PROP = "C07"
META = dict(
    category="other",
    technique="Coq size/capacity theorems (ring-buffer storage constant, vector steady state) + counting-allocator observation of the API surface",
    text="Coq proves the logical half (12 theorems): every history of Bounded/Fixed operations leaves the backing storage length unchanged (corollary of the C06 refinement); the bus backlog length equals the maximum lag over live outputs and, under lock-step pulling with drops/re-attachments between rounds, is empty at every round boundary and never exceeds one frame (corollaries of the C13 model); the push/pop/clear scripts that one Processor::process call applies to its DFS stack and inputs vectors are a function of (graph, output node) only and faithful to the C09 traversal model, so after ONE call every further call on the same graph reallocates neither vector (any multigraph, no size bound), with high-water marks 1+|V|+|E| and max in-degree, and with_capacity covering them never reallocates. That an operation performs no allocation is a runtime fact no Coq model can exhibit; it is observed with a counting GlobalAlloc over 67 scenarios covering sample/frame/slice/ring-buffer/peak/RMS/envelope/interpolation/window/signal sources and adaptors/fork/buffered/converter/windower/graph processing with stock nodes, with the documented exceptions (bus, by_rc creation, boxed conversions) checked for boundedness/balance instead. This is labelled 'other', not proof.",
    note="Trusted: Coq kernel for the capacity theorems; for the allocator half the harness's scenario list is the coverage: an allocation reachable only through an API call or input class the scenarios do not exercise is missed. petgraph/std Vec growth is modelled only as (len, cap).",
    design="6/C07")

ZERO = ["sample_conv", "sample_amp", "frame_ops2", "frame_ops32", "slice_views", "slice_ops",
        "ring_bounded_array", "ring_bounded_vec", "ring_bounded_box", "ring_fixed_vec", "ring_fixed_array",
        "peak", "rms_array", "rms_vec", "env_peak", "env_rms",
        "interp_floor", "interp_linear", "interp_sinc_array", "interp_sinc_vec", "conv_mul_hz", "conv_set_rate",
        "window_hann", "window_rect", "windower_hann", "windower_rect",
        "src_basic", "src_osc", "src_hz", "src_noise", "src_iter",
        "adaptors_a", "adaptors_b", "adaptors_c", "delay_take", "interleaved", "by_ref",
        "fork_by_ref", "fork_by_rc_steady", "buffered_next", "buffered_frames", "sig_rms", "sig_env",
        "graph_stable", "graph_nested",
        "ring_bounded_index", "ring_bounded_raw", "frame_channels_mut", "interp_direct", "lift", "conv_source_access",
        "rectifier_structs", "window_direct", "slice_trait_forms", "graph_node_shapes"]


def verdict(name, k, v):
    """None if fine, else a description of what is wrong"""
    if v and v[0] <= -2:
        return f"the harness process died in scenario {name} (code {v})"
    if len(v) < 3:
        return f"malformed harness output {v}"
    a, r, d = v[0], v[1], v[2]
    if name in ZERO:
        return None if (a, r, d) == (0, 0, 0) else f"{a} allocs, {r} reallocs, {d} deallocs during {k} steady-state calls"
    if name in ("graph_stock", "graph_small_cap"):
        caps0, caps1, caps2 = v[3:5], v[5:7], v[7:9]
        if (a, r, d) != (0, 0, 0):
            return f"graph processing allocated after the first process call: {a}/{r}/{d}"
        if caps1 != caps2:
            return f"processor capacities changed after the first call: {caps1} -> {caps2}"
        if name == "graph_stock" and caps0 != caps1:
            return f"a processor built with_capacity(32) grew on an 8-node graph: {caps0} -> {caps1}"
        return None
    if name in ("graph_fan_in_1500", "graph_chain_1500", "graph_alternating_outputs"):
        caps1, caps2 = v[3:5], v[5:7]
        if (a, r, d) != (0, 0, 0):
            return f"graph processing allocated after the first process call(s): {a}/{r}/{d}"
        if caps1 != caps2:
            return f"processor capacities changed in steady state: {caps1} -> {caps2}"
        return None
    if name in ("bus_drop_caught_up", "bus_drop_laggard"):
        maxb, endb = v[3], v[4]
        if (a, r, d) != (0, 0, 0):
            return f"bus pulled in step after a drop still allocates: {a}/{r}/{d} (backlog max {maxb}, end {endb})"
        if maxb > 1 or endb > 1:
            return f"bus backlog keeps growing after an output was dropped although the live outputs are pulled in step: max {maxb}, end {endb}"
        return None
    if name == "bus_reattach":
        maxb, endb = v[3], v[4]
        if maxb > 1 or endb > 1:
            return f"bus backlog grows across re-attachments although outputs are pulled in step: max {maxb}, end {endb}"
        return None
    if name in ("bus_lockstep", "bus_laggard"):
        maxb, endb = v[3], v[4]
        bound = 1 if name == "bus_lockstep" else 5
        if maxb > bound or endb > bound:
            return f"bus backlog grew beyond the slowest lag: max {maxb}, end {endb}, bound {bound}"
        return None
    if name in ("boxed_slice_ok", "boxed_slice_fail"):
        # one Vec allocation per iteration made by the scenario itself; must be balanced (no leak, no extra)
        return None if (a, r, d) == (k, 0, k) else f"boxed conversion not allocation-neutral: {a} allocs, {r} reallocs, {d} deallocs over {k} iterations"
    return f"unknown scenario {name}"


def main(rep, tier, seed):
    info = F.standard_proof_phase(rep, PROP)
    ok, blog, binpath = F.harness_build("c07")
    if not ok:
        rep.violation("harness_build", {"kind": "harness does not build against /repo", "log": blog[-4000:]}, no_input=True)
        return finish(rep, info, [], 0, tier)
    rc, out, err = F.run_bin(binpath, ["list"])
    names = out[0].split()
    missing = [n for n in ZERO if n not in names]
    if missing:
        rep.violation("scenarios", {"kind": "scenario list of the harness and of the check differ", "missing": missing}, no_input=True)
    ks = [1000] if tier == "quick" else [1000, 200000]
    seeds = [seed, seed + 1, seed + 2] if tier == "quick" else [seed + i for i in range(6)]
    lines = [f"{n} {k} {s}" for n in names for k in ks for s in seeds]
    rc, outl, err = F.run_bin_parallel(binpath, lines)
    results = []
    for line, o in zip(lines, outl):
        n, k, s = line.split()
        try:
            v = [int(t) for t in o.replace("HARNESS-PANIC", "").split()]
        except ValueError:
            v = [-3]
        bad = verdict(n, int(k), v)
        results.append((line, o, bad))
        if bad:
            rep.violation(f"{n}_{k}_{s}", {"kind": "heap traffic in steady state", "scenario": n, "calls": int(k), "seed": int(s),
                                          "observed": o, "problem": bad,
                                          "replay": f"echo '{line}' | harness/target/debug/c07"})
    if len(outl) != len(lines):
        rep.violation("harness_run", {"kind": "harness run incomplete", "stderr": err[-2000:]}, no_input=True)
    return finish(rep, info, results, len(names), tier)


def finish(rep, info, results, nscen, tier):
    th = info.get("theorems", [])
    cov = {
        "explanation": "Coq theorems (props/C07.v) about storage sizes and vector capacities + counting-allocator observation of %d scenarios; the allocator half is differential observation against the prediction 'zero heap traffic', not proof" % nscen,
        "obligations": max(1, len(th)), "discharged": len(th) if info.get("coq_ok") else 0,
        "checker_cmd": "make -f Makefile.coq props/C07.vo (coqc 8.16.1) + harness/target/debug/c07 under a counting GlobalAlloc",
        "trusted_base": F.TRUSTED_COMMON + ["axioms: none", "allocator observation covers only the enumerated scenarios"],
        "theorems": th,
        "evaluations": len(results), "distinct_nontrivial": len({r[0].split()[0] for r in results}),
        "rule": "one evaluation = one scenario x call count x seed; every scenario constructs its objects, makes one warm-up call and then K measured calls with inputs varied by iteration index and PRNG; distinct = distinct scenarios",
        "samples": [f"{r[0]} -> {r[1]}" for r in results[:3] + results[-6:]],
    }
    return rep.finish("other", cov, ["allocation behaviour is observed, not proved", "Vec growth modelled as (len, cap) with doubling"])


def replay(path):
    j = json.load(open(path))
    ok, blog, binpath = F.harness_build("c07")
    line = f"{j['scenario']} {j['calls']} {j['seed']}"
    rc, out, err = F.run_bin(binpath, [line])
    print(line, "->", out)
    v = [int(t) for t in out[0].split()]
    bad = verdict(j["scenario"], j["calls"], v)
    print("problem:", bad)
    return 1 if bad else 0
