"""Arm coverage of the `if` expressions inside the `conversions!` bodies of dasp_sample/src/conv.rs.

llvm's source-based coverage has NO regions for these bodies: rustc drops the spans of a `$body:expr` macro argument
from the coverage map of the function the macro defines (only the signature and the closing brace of
`pub fn to_x($s: $Rep) -> X { $body }` are mapped), so tools/coverage*.py cannot say whether both arms of
`if s < 0 { .. } else { .. }` were taken.  This module counts them from the source itself: it walks the expression
trees the translator (translate/conv2coq.py) parsed, and for every `if` whose condition compares the parameter with an
integer literal it counts how many of the inputs the correspondence fed to THAT function take each arm.  A condition
of any other shape is reported as `unanalysed` (never silently skipped).  Nested `if`s are followed with the inputs that
reach them.  Measurement for the evidence only; it decides nothing."""

CMP = {"<": lambda a, b: a < b, "<=": lambda a, b: a <= b, ">": lambda a, b: a > b, ">=": lambda a, b: a >= b,
       "==": lambda a, b: a == b, "!=": lambda a, b: a != b}


def _strip(e):
    while e["k"] == "paren":
        e = e["e"]
    return e


def _literal(e):
    e = _strip(e)
    if e["k"] == "int":
        return e["v"]
    if e["k"] == "neg":
        v = _literal(e["e"])
        return None if v is None else -v
    return None


def _is_param(e, param):
    e = _strip(e)
    return e["k"] == "var" and e["name"] == param


def _children(e):
    k = e["k"]
    if k in ("paren", "neg", "cast", "inner"):
        return [e["e"]]
    if k in ("bin", "shift", "cmp"):
        return [e["l"], e["r"]]
    if k == "call":
        return [e["arg"]]
    return []


def _walk(e, param, vals, where, out, path):
    """out: list of dict(where, cond, true, false) / dict(where, cond, unanalysed=True)"""
    if e["k"] == "if":
        c = _strip(e["c"])
        pred = None
        if c["k"] == "cmp" and c["op"] in CMP:
            if _is_param(c["l"], param) and _literal(c["r"]) is not None:
                lit, f = _literal(c["r"]), CMP[c["op"]]
                pred, text = (lambda v: f(v, lit)), f"{param} {c['op']} {lit}"
            elif _is_param(c["r"], param) and _literal(c["l"]) is not None:
                lit, f = _literal(c["l"]), CMP[c["op"]]
                pred, text = (lambda v: f(lit, v)), f"{lit} {c['op']} {param}"
        if pred is None:
            out.append(dict(where=where, cond=path + "if <condition not of the form `param cmp literal`>", unanalysed=True))
            for ch in (e["a"], e["b"]):
                _walk(ch, param, vals, where, out, path + "?/")
            return
        yes = [v for v in vals if pred(v)]
        no = [v for v in vals if not pred(v)]
        out.append(dict(where=where, cond=path + "if " + text, true=len(yes), false=len(no)))
        _walk(e["a"], param, yes, where, out, path + text + "/")
        _walk(e["b"], param, no, where, out, path + "!(" + text + ")/")
        return
    for ch in _children(e):
        _walk(ch, param, vals, where, out, path)


def arm_coverage(S, inputs):
    """S: conv2coq.Source; inputs: {(module, fn): iterable of the integer values passed to conv::module::fn}.
    Returns dict(functions_with_if, arms, arms_taken, arms_never_taken=[..], unanalysed=[..], per_function={..})"""
    per, never, unanalysed, arms, taken, nfun = {}, [], [], 0, 0, 0
    for key in S.order:
        fn = S.funcs[key]
        rows = []
        _walk(fn["ast"], fn["param"], list(inputs.get(key, [])), f"conv::{key[0]}::{key[1]}", rows, "")
        if not rows:
            continue
        nfun += 1
        for r in rows:
            if r.get("unanalysed"):
                unanalysed.append(f"{r['where']}: {r['cond']}")
                continue
            arms += 2
            for side in ("true", "false"):
                if r[side] > 0:
                    taken += 1
                else:
                    never.append(f"{r['where']}: `{r['cond']}` never {side}")
            per[f"{r['where']} {r['cond']}"] = [r["true"], r["false"]]
    return dict(functions_with_if=nfun, arms=arms, arms_taken=taken, arms_never_taken=never, unanalysed=unanalysed,
                per_function=per)
