"""The last whole-file region-coverage measurement of a property (tools/coverage_surface.py, committed under
docs/coverage/<Cxx>_regions.json) in the shape the checks embed in their evidence as
`input_distribution.source_regions_never_entered`.  Reading a committed file only: the measurement itself needs the
nightly toolchain and is not part of any registered check."""
import json, os
import framework as F


def regions(prop, extra_how=""):
    path = os.path.join(F.VERIF, "docs", "coverage", prop + "_regions.json")
    if not os.path.exists(path):
        return {"error": "no measurement committed (run tools/coverage_surface.py " + prop + ")"}
    try:
        rj = json.load(open(path))
    except (OSError, ValueError) as e:
        return {"error": str(e)}
    out = {}
    for lab in ("before", "after"):
        if lab in rj:
            out[lab] = rj[lab]["summary"]
    a = rj.get("after", {})
    out["still_unentered_in_scope"] = a.get("unentered", {})
    out["fns_never_instantiated_in_scope"] = a.get("never_instantiated", {})
    out["instances_never_executed_in_scope"] = a.get("instances_never_executed", {})
    out["belongs_to_another_property"] = {
        "regions": a.get("other_property", {}), "fns_never_instantiated": a.get("never_instantiated_other_property", {}),
        "instances": a.get("instances_never_executed_other_property", [])}
    out["excluded_unreachable_or_outside_every_property"] = {
        "regions": a.get("excluded", {}), "fns_never_instantiated": a.get("never_instantiated_excluded", {}),
        "instances": a.get("instances_never_executed_excluded", [])}
    out["how"] = ("llvm source-based coverage of the instrumented harness over one quick run, all build profiles the check "
                  "uses, merged (tools/coverage_surface.py " + prop + "): EVERY code region of every anchored file, summed over "
                  "monomorphisations and macro expansions (not only the regions inside `fn` items of the source text: the "
                  "conversion tables and the mono Frame impls are macro-generated); `instances` = monomorphisations / macro "
                  "expansions compiled into the harness but never run although other instances of the same item were; "
                  "'before' = the check as it stood before this round; classification in lib/props/" + prop.lower() +
                  "_cov_exclusions.json (owner = the property whose check is responsible). " + extra_how).strip()
    return out
