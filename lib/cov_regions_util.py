"""Shared by lib/props/c11.py and lib/props/c19.py (round 3, coverage closing): the last region-coverage measurement
(tools/coverage_regions.py, committed under docs/coverage/<Cxx>_regions.json) as a dict for the evidence
(`input_distribution.source_regions_never_entered`)."""
import json, os
import framework as F


def regions_for_evidence(prop, note=""):
    rp = os.path.join(F.VERIF, "docs", "coverage", prop + "_regions.json")
    if not os.path.exists(rp):
        return {"error": "no measurement committed (run tools/coverage_regions.py " + prop + ")"}
    try:
        rj = json.load(open(rp))
        regions = {}
        for lab in ("before", "after"):
            if lab in rj:
                regions[lab] = rj[lab]["summary"]["anchored"]
        if "before" in rj:
            regions["never_instantiated_before"] = rj["before"].get("never_instantiated", {})
            regions["unentered_before"] = rj["before"].get("unentered", {})
        if "after" in rj:
            regions["still_unentered_after"] = rj["after"].get("unentered", {})
            regions["excluded_unreachable"] = rj["after"].get("excluded", {})
            regions["never_instantiated_after"] = rj["after"].get("never_instantiated", {})
            regions["never_instantiated_excluded"] = rj["after"].get("never_instantiated_excluded", {})
        regions["how"] = ("llvm source-based coverage of the dev-profile std harness over one quick run (tools/coverage_regions.py " + prop +
                          "; code regions of the property's anchored files summed over monomorphisations; 'before' = the check as it was "
                          "before the round-3 coverage closing); a measurement recorded when the generators were last changed, not "
                          "recomputed by this run. " + note)
        return regions
    except Exception as e:
        return {"error": str(e)}
