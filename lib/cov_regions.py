"""Shared by lib/props/c09.py and lib/props/c16.py: the source-region measurement of a property's anchored files
(docs/coverage/<Cxx>_regions.json, written by tools/coverage_regions.py when the generators were last changed) as an
`input_distribution.source_regions_never_entered` entry of the evidence.  A recorded measurement, not recomputed by a run."""
import json, os
import framework as F


def load(prop):
    rp = os.path.join(F.VERIF, "docs", "coverage", prop + "_regions.json")
    xp = os.path.join(F.VERIF, "lib", "props", prop.lower() + "_cov_exclusions.json")
    if not os.path.exists(rp):
        return {"error": "no measurement recorded (python3 tools/coverage_regions.py %s)" % prop}
    try:
        rj = json.load(open(rp))
        out = {}
        for lab in ("before", "after"):
            if lab in rj:
                out[lab] = rj[lab]["summary"].get("anchored", rj[lab]["summary"])
        if "before" in rj:
            out["unentered_before"] = rj["before"].get("unentered", {})
        if "after" in rj:
            out["still_unentered_after"] = rj["after"].get("unentered", {})
            out["never_instantiated_after"] = rj["after"].get("never_instantiated", {})
        if os.path.exists(xp):
            ex = json.load(open(xp)).get("functions", [])
            out["excluded_functions"] = {
                "belongs_to_another_property_and_is_compared_there": [f"{e['file']} {e['fn']}: {e['reason']}" for e in ex if e.get("class") == "b"],
                "out_of_scope": [f"{e['file']} {e['fn']}: {e['reason']}" for e in ex if e.get("class") != "b"]}
        out["how"] = ("llvm source-based coverage of the dev-profile harness over one quick run (tools/coverage_regions.py %s; code regions "
                      "of the property's anchored files summed over monomorphisations; 'before' = the generators as they were before the "
                      "coverage-closing round; never_entered_reachable = regions never entered that are not excluded); a measurement "
                      "recorded when the generators were last changed, not recomputed by this run") % prop
        return out
    except Exception as e:
        return {"error": str(e)}
