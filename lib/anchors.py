"""Source fingerprints of the files each model was written after."""
import os, re, json, hashlib
VERIF = os.path.dirname(os.path.dirname(os.path.abspath(__file__)))
REPO = os.environ.get("DASP_REPO", "/repo")


def normalise(src):
    src = re.sub(r"/\*.*?\*/", " ", src, flags=re.S)
    lines = []
    for line in src.splitlines():
        line = re.sub(r"//.*$", "", line)
        line = re.sub(r"\s+", " ", line).strip()
        if line:
            lines.append(line)
    return "\n".join(lines)


def fingerprint(relpath):
    p = os.path.join(REPO, relpath)
    if not os.path.exists(p):
        return "missing"
    return hashlib.sha256(normalise(open(p, errors="replace").read()).encode()).hexdigest()[:16]


def changed(prop):
    """list of anchored source files of `prop` whose code differs from what the model was written after"""
    try:
        rec = json.load(open(os.path.join(VERIF, "lib", "anchors.json"))).get(prop, {})
    except FileNotFoundError:
        return []
    return sorted(f for f, h in rec.items() if fingerprint(f) != h)
