//! C11 (no_std-configured dasp crates): drives dasp_rms::Rms; sample_sqrt is the bit trick.
//! Same line protocol as harness/src/bin/c11.rs (`R` lines only: the dasp_signal adaptor
//! needs a nightly compiler without `std`, see lib/props/c11.py).
#[allow(dead_code)]
#[path = "../../../harness/src/lib.rs"]
mod plumbing;
use plumbing::*;

include!("../../../harness/src/c11_body.rs");

fn main() {
    serve(|line| if line.starts_with('P') { run_probe() } else { run_r(line) });
}
