// C11 driver shared by the std harness (harness/src/bin/c11.rs) and the no_std-configured
// harnesses (harness_nostd/src/bin/c11n.rs; harness_nightly_nostd builds bin/c11.rs itself) through
// include!().  The including file provides `serve`, `catch` (harness plumbing).  Which configuration
// of the dasp crates the binary was linked against is detected at run time (`build_nostd`) and
// checked against the `nostd` field of every case.
//
// Input line:  R <fmt> <nostd> <chans> <first> <N> ; <N*chans init window bit patterns> ; op , op ...
//   chans 0 = the bare sample type as a mono frame (Rms<f32, _>, Rms<i16, _>, ...), 1..4 = arrays
//   fmt 0 f32, 1 f64 (samples = bit patterns), 2 i16, 3 u8 (samples = values),
//   10..21 = i8 i16 I24 i32 I48 i64 u8 u16 U24 u32 U48 u64 (samples = values; 1 or 2 channels)
// Input line `P`: probe, prints `6 <build_nostd()>`.
//   op: n v.. (next)  q v.. (next_squared)  c (current)  r (reset)  w (observe the window)
//       k (the detector is replaced by its clone(); every later op acts on the clone)
// Output: per op `2 out-bits..` (reset: `7`; w: `5 window..`; k: `10`) ; `3 square_sum-bits..` (clone().into_parts());
//   at the end `5 window..` (iteration order, flattened) ; `4 window_frames`;
//   panicking constructor: `8 code`.  NaN canonicalised to the quiet NaN.
use dasp_frame::Frame;
use dasp_ring_buffer::Fixed;
use dasp_rms::Rms;

#[allow(dead_code)]
fn bits32(x: f32) -> u64 {
    if x.is_nan() { 0x7fc0_0000 } else { x.to_bits() as u64 }
}
#[allow(dead_code)]
fn bits64(x: f64) -> u64 {
    if x.is_nan() { 0x7ff8_0000_0000_0000 } else { x.to_bits() }
}
#[allow(dead_code)]
fn s_f32(v: i128) -> f32 { f32::from_bits(v as u32) }
#[allow(dead_code)]
fn s_f64(v: i128) -> f64 { f64::from_bits(v as u64) }
#[allow(dead_code)]
fn s_i16(v: i128) -> i16 { v as i16 }
#[allow(dead_code)]
fn s_u8(v: i128) -> u8 { v as u8 }
fn s_i8(v: i128) -> i8 { v as i8 }
fn s_i32(v: i128) -> i32 { v as i32 }
fn s_i64(v: i128) -> i64 { v as i64 }
fn s_u16(v: i128) -> u16 { v as u16 }
fn s_u32(v: i128) -> u32 { v as u32 }
fn s_u64(v: i128) -> u64 { v as u64 }
fn s_i24(v: i128) -> dasp_sample::I24 { dasp_sample::I24::new(v as i32).expect("I24 range") }
fn s_u24(v: i128) -> dasp_sample::U24 { dasp_sample::U24::new(v as i32).expect("U24 range") }
fn s_i48(v: i128) -> dasp_sample::I48 { dasp_sample::I48::new(v as i64).expect("I48 range") }
fn s_u48(v: i128) -> dasp_sample::U48 { dasp_sample::U48::new(v as i64).expect("U48 range") }

pub fn run_probe() -> String {
    ob(6, &[build_nostd() as u64])
}

/// 1 when dasp_sample was built without `std` (sample_sqrt is the bit trick: sqrt(2.0) = 1.5), else 0
pub fn build_nostd() -> i128 {
    if dasp_sample::FloatSample::sample_sqrt(2.0f32) == 1.5 { 1 } else { 0 }
}

fn ob(tag: u64, v: &[u64]) -> String {
    let mut s = tag.to_string();
    for x in v {
        s.push(' ');
        s.push_str(&x.to_string());
    }
    s
}

pub struct ROp {
    pub kind: char,
    pub vals: Vec<i128>,
}

macro_rules! driver {
    ($name:ident, $S:ty, $Fl:ty, $C:expr, $samp:ident, $flbits:ident, $flfrom:ident) => {
        fn $name(first: usize, n: usize, init: &[i128], ops: &[ROp]) -> Vec<String> {
            let data: Vec<[$Fl; $C]> = (0..n)
                .map(|i| {
                    let mut f = [<$Fl>::default(); $C];
                    for c in 0..$C {
                        f[c] = $flfrom(init[i * $C + c]);
                    }
                    f
                })
                .collect();
            let window = match catch(|| Fixed::from_raw_parts(first, data)) {
                Ok(w) => w,
                Err(c) => return vec![ob(8, &[c as u64])],
            };
            let mut rms: Rms<[$S; $C], Vec<[$Fl; $C]>> = Rms::new(window);
            let mut out = Vec::new();
            for op in ops {
                let mut fr = [<$S as dasp_sample::Sample>::EQUILIBRIUM; $C];
                for (c, v) in op.vals.iter().enumerate() {
                    fr[c] = $samp(*v);
                }
                let r = catch(|| match op.kind {
                    'n' => ob(2, &rms.next(fr).iter().map(|x| $flbits(*x)).collect::<Vec<_>>()),
                    'q' => ob(2, &rms.next_squared(fr).iter().map(|x| $flbits(*x)).collect::<Vec<_>>()),
                    'c' => ob(2, &rms.current().iter().map(|x| $flbits(*x)).collect::<Vec<_>>()),
                    'r' => {
                        rms.reset();
                        ob(7, &[])
                    }
                    'k' => {
                        let c = rms.clone();
                        rms = c;
                        ob(10, &[])
                    }
                    'w' => {
                        let (w, _) = rms.clone().into_parts();
                        let mut flat = Vec::new();
                        for f in w.iter() {
                            for x in f.channels() {
                                flat.push($flbits(x));
                            }
                        }
                        ob(5, &flat)
                    }
                    other => panic!("unknown op {}", other),
                });
                match r {
                    Ok(s) => out.push(s),
                    Err(c) => {
                        out.push(ob(8, &[c as u64]));
                        return out;
                    }
                }
                let (_, sum) = rms.clone().into_parts();
                out.push(ob(3, &sum.iter().map(|x| $flbits(*x)).collect::<Vec<_>>()));
            }
            let frames = rms.window_frames();
            let (w, _) = rms.into_parts();
            let mut flat = Vec::new();
            for f in w.iter() {
                for x in f.channels() {
                    flat.push($flbits(x));
                }
            }
            out.push(ob(5, &flat));
            out.push(ob(4, &[frames as u64]));
            out
        }
    };
}

macro_rules! driver0 {
    ($name:ident, $S:ty, $Fl:ty, $samp:ident, $flbits:ident, $flfrom:ident) => {
        fn $name(first: usize, n: usize, init: &[i128], ops: &[ROp]) -> Vec<String> {
            // the bare sample type as a mono frame (Frame for f32, i16, ...: to_float_frame = to_float_sample)
            let data: Vec<$Fl> = (0..n).map(|i| $flfrom(init[i])).collect();
            let window = match catch(|| Fixed::from_raw_parts(first, data)) {
                Ok(w) => w,
                Err(c) => return vec![ob(8, &[c as u64])],
            };
            let mut rms: Rms<$S, Vec<$Fl>> = Rms::new(window);
            let mut out = Vec::new();
            for op in ops {
                let mut fr = <$S as dasp_sample::Sample>::EQUILIBRIUM;
                for v in op.vals.iter() {
                    fr = $samp(*v);
                }
                let r = catch(|| match op.kind {
                    'n' => ob(2, &rms.next(fr).channels().map(|x| $flbits(x)).collect::<Vec<_>>()),
                    'q' => ob(2, &rms.next_squared(fr).channels().map(|x| $flbits(x)).collect::<Vec<_>>()),
                    'c' => ob(2, &rms.current().channels().map(|x| $flbits(x)).collect::<Vec<_>>()),
                    'r' => {
                        rms.reset();
                        ob(7, &[])
                    }
                    'k' => {
                        let c = rms.clone();
                        rms = c;
                        ob(10, &[])
                    }
                    'w' => {
                        let (w, _) = rms.clone().into_parts();
                        let mut flat = Vec::new();
                        for f in w.iter() {
                            for x in f.channels() {
                                flat.push($flbits(x));
                            }
                        }
                        ob(5, &flat)
                    }
                    other => panic!("unknown op {}", other),
                });
                match r {
                    Ok(s) => out.push(s),
                    Err(c) => {
                        out.push(ob(8, &[c as u64]));
                        return out;
                    }
                }
                let (_, sum) = rms.clone().into_parts();
                out.push(ob(3, &sum.channels().map(|x| $flbits(x)).collect::<Vec<_>>()));
            }
            let frames = rms.window_frames();
            let (w, _) = rms.into_parts();
            let mut flat = Vec::new();
            for f in w.iter() {
                for x in f.channels() {
                    flat.push($flbits(x));
                }
            }
            out.push(ob(5, &flat));
            out.push(ob(4, &[frames as u64]));
            out
        }
    };
}


driver!(r_f32_1, f32, f32, 1, s_f32, bits32, s_f32);
driver!(r_f32_2, f32, f32, 2, s_f32, bits32, s_f32);
driver!(r_f32_3, f32, f32, 3, s_f32, bits32, s_f32);
driver!(r_f32_4, f32, f32, 4, s_f32, bits32, s_f32);
driver!(r_f64_1, f64, f64, 1, s_f64, bits64, s_f64);
driver!(r_f64_2, f64, f64, 2, s_f64, bits64, s_f64);
driver!(r_f64_3, f64, f64, 3, s_f64, bits64, s_f64);
driver!(r_f64_4, f64, f64, 4, s_f64, bits64, s_f64);
driver!(r_i16_1, i16, f32, 1, s_i16, bits32, s_f32);
driver!(r_i16_2, i16, f32, 2, s_i16, bits32, s_f32);
driver!(r_i16_3, i16, f32, 3, s_i16, bits32, s_f32);
driver!(r_i16_4, i16, f32, 4, s_i16, bits32, s_f32);
driver!(r_u8_1, u8, f32, 1, s_u8, bits32, s_f32);
driver!(r_u8_2, u8, f32, 2, s_u8, bits32, s_f32);
driver!(r_u8_3, u8, f32, 3, s_u8, bits32, s_f32);
driver!(r_u8_4, u8, f32, 4, s_u8, bits32, s_f32);

driver!(g_i8_1, i8, f32, 1, s_i8, bits32, s_f32);
driver!(g_i8_2, i8, f32, 2, s_i8, bits32, s_f32);
driver!(g_i24_1, dasp_sample::I24, f32, 1, s_i24, bits32, s_f32);
driver!(g_i24_2, dasp_sample::I24, f32, 2, s_i24, bits32, s_f32);
driver!(g_i32_1, i32, f32, 1, s_i32, bits32, s_f32);
driver!(g_i32_2, i32, f32, 2, s_i32, bits32, s_f32);
driver!(g_i48_1, dasp_sample::I48, f64, 1, s_i48, bits64, s_f64);
driver!(g_i48_2, dasp_sample::I48, f64, 2, s_i48, bits64, s_f64);
driver!(g_i64_1, i64, f64, 1, s_i64, bits64, s_f64);
driver!(g_i64_2, i64, f64, 2, s_i64, bits64, s_f64);
driver!(g_u16_1, u16, f32, 1, s_u16, bits32, s_f32);
driver!(g_u16_2, u16, f32, 2, s_u16, bits32, s_f32);
driver!(g_u24_1, dasp_sample::U24, f32, 1, s_u24, bits32, s_f32);
driver!(g_u24_2, dasp_sample::U24, f32, 2, s_u24, bits32, s_f32);
driver!(g_u32_1, u32, f32, 1, s_u32, bits32, s_f32);
driver!(g_u32_2, u32, f32, 2, s_u32, bits32, s_f32);
driver!(g_u48_1, dasp_sample::U48, f64, 1, s_u48, bits64, s_f64);
driver!(g_u48_2, dasp_sample::U48, f64, 2, s_u48, bits64, s_f64);
driver!(g_u64_1, u64, f64, 1, s_u64, bits64, s_f64);
driver!(g_u64_2, u64, f64, 2, s_u64, bits64, s_f64);

driver0!(b_f32, f32, f32, s_f32, bits32, s_f32);
driver0!(b_f64, f64, f64, s_f64, bits64, s_f64);
driver0!(b_i16, i16, f32, s_i16, bits32, s_f32);
driver0!(b_u8, u8, f32, s_u8, bits32, s_f32);
driver0!(b_i8, i8, f32, s_i8, bits32, s_f32);
driver0!(b_i24, dasp_sample::I24, f32, s_i24, bits32, s_f32);
driver0!(b_i32, i32, f32, s_i32, bits32, s_f32);
driver0!(b_i48, dasp_sample::I48, f64, s_i48, bits64, s_f64);
driver0!(b_i64, i64, f64, s_i64, bits64, s_f64);
driver0!(b_u16, u16, f32, s_u16, bits32, s_f32);
driver0!(b_u24, dasp_sample::U24, f32, s_u24, bits32, s_f32);
driver0!(b_u32, u32, f32, s_u32, bits32, s_f32);
driver0!(b_u48, dasp_sample::U48, f64, s_u48, bits64, s_f64);
driver0!(b_u64, u64, f64, s_u64, bits64, s_f64);

pub fn nums(s: &str) -> Vec<i128> {
    s.split_whitespace().map(|t| t.parse::<i128>().expect("int token")).collect()
}

pub fn run_r(line: &str) -> String {
    let parts: Vec<&str> = line.splitn(3, ';').collect();
    let head: Vec<&str> = parts[0].split_whitespace().collect();
    let h: Vec<i128> = head[1..].iter().map(|t| t.parse().unwrap()).collect();
    let (fmt, nostd, chans, first, n) = (h[0], h[1], h[2] as usize, h[3] as usize, h[4] as usize);
    assert!(nostd == build_nostd(), "case is for the other build configuration");
    let init = nums(parts[1]);
    assert!(init.len() == n * chans.max(1));
    let ops: Vec<ROp> = parts[2]
        .split(',')
        .filter(|s| !s.trim().is_empty())
        .map(|s| {
            let t: Vec<&str> = s.split_whitespace().collect();
            ROp { kind: t[0].chars().next().unwrap(), vals: t[1..].iter().map(|x| x.parse().unwrap()).collect() }
        })
        .collect();
    for o in &ops {
        assert!(o.vals.is_empty() || o.vals.len() == chans.max(1));
    }
    let f = match (fmt, chans) {
        (0, 0) => b_f32, (1, 0) => b_f64, (2, 0) => b_i16, (3, 0) => b_u8,
        (10, 0) => b_i8, (11, 0) => b_i16, (12, 0) => b_i24, (13, 0) => b_i32, (14, 0) => b_i48, (15, 0) => b_i64,
        (16, 0) => b_u8, (17, 0) => b_u16, (18, 0) => b_u24, (19, 0) => b_u32, (20, 0) => b_u48, (21, 0) => b_u64,
        (0, 1) => r_f32_1, (0, 2) => r_f32_2, (0, 3) => r_f32_3, (0, 4) => r_f32_4,
        (1, 1) => r_f64_1, (1, 2) => r_f64_2, (1, 3) => r_f64_3, (1, 4) => r_f64_4,
        (2, 1) => r_i16_1, (2, 2) => r_i16_2, (2, 3) => r_i16_3, (2, 4) => r_i16_4,
        (3, 1) => r_u8_1, (3, 2) => r_u8_2, (3, 3) => r_u8_3, (3, 4) => r_u8_4,
        (10, 1) => g_i8_1, (10, 2) => g_i8_2, (11, 1) => r_i16_1, (11, 2) => r_i16_2,
        (12, 1) => g_i24_1, (12, 2) => g_i24_2, (13, 1) => g_i32_1, (13, 2) => g_i32_2,
        (14, 1) => g_i48_1, (14, 2) => g_i48_2, (15, 1) => g_i64_1, (15, 2) => g_i64_2,
        (16, 1) => r_u8_1, (16, 2) => r_u8_2, (17, 1) => g_u16_1, (17, 2) => g_u16_2,
        (18, 1) => g_u24_1, (18, 2) => g_u24_2, (19, 1) => g_u32_1, (19, 2) => g_u32_2,
        (20, 1) => g_u48_1, (20, 2) => g_u48_2, (21, 1) => g_u64_1, (21, 2) => g_u64_2,
        _ => panic!("unsupported fmt/chans"),
    };
    f(first, n, &init, &ops).join(";")
}
