//! C17: drives the oscillators and noise sources of dasp_signal through the public API.
//! Input line:  `O <rate bits> <mode> <n> <hz bits>...`   mode 0: rate(r).const_hz(hz[0]); mode 1: rate(r).hz(control)
//!          or  `N <seed> <n> <c>`                         noise(seed): n frames, a clone taken after c frames, a restart
//! Output (O): `1 phases;2 saws;3 squares;4 sines;5 simplex;6 pull counter after each phase frame;7 final pull counters`
//!        (N): `1 all n frames;2 the clone's frames c..n;3 the restart's first c frames`
//!          or  `R <rate bits> <hz bits> <n>`              long const_hz run, summary only (range sampling, no model)
//!        (R): per signal `tag min max nan_count bad_count` (min/max over non-NaN frames; bad = outside [0,1) for the
//!             phase, outside [-1,1] otherwise)
//!          or  `H <rate bits> <n> <op> <order> <genkind> <top> <top bits> <m> <a_0..a_{n-1}> <b_0..b_{m-1}>`
//!              rate(r).hz(control) where the control is built from dasp_signal's own sources and adaptors:
//!              G = gen (genkind 0) / gen_mut (1) closure yielding a_k (then 0.0), counting its calls;
//!              I = from_iter over an iterator yielding b_0..b_{m-1}, counting the calls of Iterator::next;
//!              op 0: I alone, 4: G alone, 1: add_amp, 2: mul_amp, 3: zip_map(|x, y| x * 0.5 + y);
//!              order 0: G.op(I), 1: I.op(G);  top 0: nothing, 1: .scale_amp(t), 2: .offset_amp(t)
//!        (H): `1 phases;2 saws;3 squares;6 closure calls after each phase frame;8 iterator calls after each phase
//!              frame;7 final closure calls (phase, saw, square);10 final iterator calls (phase, saw, square)`
//! All floats as u64 bit patterns, NaN canonicalised; a panic is reported as `9 <code>`.
use dasp_signal::{self as signal, Signal};
use dasp_verif_harness::*;
use std::cell::Cell;
use std::rc::Rc;

fn c64(x: f64) -> u64 {
    if x.is_nan() { 0x7ff8_0000_0000_0000u64 } else { x.to_bits() }
}

fn fmt(tag: u64, v: &[u64]) -> String {
    let mut s = tag.to_string();
    for x in v {
        s.push(' ');
        s.push_str(&x.to_string());
    }
    s
}

/// Instrumented control signal: yields the given frequencies (then 0.0) and counts pulls.
struct Ctl {
    v: Rc<Vec<f64>>,
    i: usize,
    pulls: Rc<Cell<u64>>,
}

impl Signal for Ctl {
    type Frame = f64;
    fn next(&mut self) -> f64 {
        let x = self.v.get(self.i).cloned().unwrap_or(0.0);
        self.i += 1;
        self.pulls.set(self.pulls.get() + 1);
        x
    }
}

fn take<S: Signal<Frame = f64>>(tag: u64, mut s: S, n: usize) -> String {
    match catch(move || (0..n).map(|_| c64(s.next())).collect::<Vec<u64>>()) {
        Ok(v) => fmt(tag, &v),
        Err(c) => fmt(9, &[c as u64]),
    }
}

fn osc(t: &[&str]) -> String {
    let rate = f64::from_bits(t[1].parse::<u64>().unwrap());
    let mode: u64 = t[2].parse().unwrap();
    let n: usize = t[3].parse().unwrap();
    let hz: Vec<f64> = t[4..].iter().map(|s| f64::from_bits(s.parse::<u64>().unwrap())).collect();
    let mut out = Vec::new();
    if mode == 0 {
        let h = hz[0];
        out.push(take(1, signal::rate(rate).const_hz(h).phase(), n));
        out.push(take(2, signal::rate(rate).const_hz(h).saw(), n));
        out.push(take(3, signal::rate(rate).const_hz(h).square(), n));
        out.push(take(4, signal::rate(rate).const_hz(h).sine(), n));
        out.push(take(5, signal::rate(rate).const_hz(h).noise_simplex(), n));
        out.push("6".to_string());
        out.push("7".to_string());
    } else {
        let v = Rc::new(hz);
        let counters: Vec<Rc<Cell<u64>>> = (0..5).map(|_| Rc::new(Cell::new(0))).collect();
        let ctl = |k: usize| Ctl { v: v.clone(), i: 0, pulls: counters[k].clone() };
        // phase: also record the pull counter after every frame
        let mut trace = Vec::new();
        let mut ph = signal::rate(rate).hz(ctl(0)).phase();
        let c0 = counters[0].clone();
        let r = catch(|| {
            let mut ys = Vec::new();
            for _ in 0..n {
                ys.push(c64(ph.next()));
                trace.push(c0.get());
            }
            ys
        });
        out.push(match r { Ok(v) => fmt(1, &v), Err(c) => fmt(9, &[c as u64]) });
        out.push(take(2, signal::rate(rate).hz(ctl(1)).saw(), n));
        out.push(take(3, signal::rate(rate).hz(ctl(2)).square(), n));
        out.push(take(4, signal::rate(rate).hz(ctl(3)).sine(), n));
        out.push(take(5, signal::rate(rate).hz(ctl(4)).noise_simplex(), n));
        out.push(fmt(6, &trace));
        out.push(fmt(7, &counters.iter().map(|c| c.get()).collect::<Vec<_>>()));
    }
    out.join(";")
}

/// Object-safe forwarding of a mono f64 signal (dasp_signal's own `impl Signal for Box<S>` is behind a
/// misspelt cfg and never compiled); forwards `next` and `is_exhausted` unchanged.
trait DynSig {
    fn nx(&mut self) -> f64;
    fn ex(&self) -> bool;
}
impl<S: Signal<Frame = f64>> DynSig for S {
    fn nx(&mut self) -> f64 { self.next() }
    fn ex(&self) -> bool { self.is_exhausted() }
}
struct Dyn(Box<dyn DynSig>);
impl Signal for Dyn {
    type Frame = f64;
    fn next(&mut self) -> f64 { self.0.nx() }
    fn is_exhausted(&self) -> bool { self.0.ex() }
}

struct CountIter {
    v: Rc<Vec<f64>>,
    i: usize,
    calls: Rc<Cell<u64>>,
}
impl Iterator for CountIter {
    type Item = f64;
    fn next(&mut self) -> Option<f64> {
        self.calls.set(self.calls.get() + 1);
        let x = self.v.get(self.i).cloned();
        self.i += 1;
        x
    }
}

struct HSpec {
    op: u64,
    order: u64,
    genkind: u64,
    top: u64,
    topv: f64,
    a: Rc<Vec<f64>>,
    b: Rc<Vec<f64>>,
}

fn h_control(sp: &HSpec, gen_calls: Rc<Cell<u64>>, it_calls: Rc<Cell<u64>>) -> Dyn {
    let mk_gen = || -> Dyn {
        let a = sp.a.clone();
        let c = gen_calls.clone();
        if sp.genkind == 0 {
            let i = Cell::new(0usize);
            Dyn(Box::new(signal::gen(move || {
                c.set(c.get() + 1);
                let x = a.get(i.get()).cloned().unwrap_or(0.0);
                i.set(i.get() + 1);
                x
            })))
        } else {
            let mut i = 0usize;
            Dyn(Box::new(signal::gen_mut(move || {
                c.set(c.get() + 1);
                let x = a.get(i).cloned().unwrap_or(0.0);
                i += 1;
                x
            })))
        }
    };
    let mk_fin = || -> Dyn {
        Dyn(Box::new(signal::from_iter(CountIter { v: sp.b.clone(), i: 0, calls: it_calls.clone() })))
    };
    let zf = |x: f64, y: f64| x * 0.5 + y;
    let c: Dyn = match (sp.op, sp.order) {
        (0, _) => mk_fin(),
        (4, _) => mk_gen(),
        (1, 0) => Dyn(Box::new(mk_gen().add_amp(mk_fin()))),
        (1, _) => Dyn(Box::new(mk_fin().add_amp(mk_gen()))),
        (2, 0) => Dyn(Box::new(mk_gen().mul_amp(mk_fin()))),
        (2, _) => Dyn(Box::new(mk_fin().mul_amp(mk_gen()))),
        (_, 0) => Dyn(Box::new(mk_gen().zip_map(mk_fin(), zf))),
        (_, _) => Dyn(Box::new(mk_fin().zip_map(mk_gen(), zf))),
    };
    match sp.top {
        1 => Dyn(Box::new(c.scale_amp(sp.topv))),
        2 => Dyn(Box::new(c.offset_amp(sp.topv))),
        _ => c,
    }
}

fn hz_composite(t: &[&str]) -> String {
    let f = |s: &str| f64::from_bits(s.parse::<u64>().unwrap());
    let rate = f(t[1]);
    let n: usize = t[2].parse().unwrap();
    let u = |k: usize| t[k].parse::<u64>().unwrap();
    let m = u(8) as usize;
    let a: Vec<f64> = t[9..9 + n].iter().map(|s| f(s)).collect();
    let b: Vec<f64> = t[9 + n..9 + n + m].iter().map(|s| f(s)).collect();
    let sp = HSpec { op: u(3), order: u(4), genkind: u(5), top: u(6), topv: f(t[7]), a: Rc::new(a), b: Rc::new(b) };
    let gc: Vec<Rc<Cell<u64>>> = (0..3).map(|_| Rc::new(Cell::new(0))).collect();
    let ic: Vec<Rc<Cell<u64>>> = (0..3).map(|_| Rc::new(Cell::new(0))).collect();
    let mut out = Vec::new();
    let (mut gtrace, mut itrace) = (Vec::new(), Vec::new());
    let r = catch(|| {
        let mut ph = signal::rate(rate).hz(h_control(&sp, gc[0].clone(), ic[0].clone())).phase();
        let mut ys = Vec::new();
        for _ in 0..n {
            ys.push(c64(ph.next()));
            gtrace.push(gc[0].get());
            itrace.push(ic[0].get());
        }
        ys
    });
    out.push(match r { Ok(v) => fmt(1, &v), Err(c) => fmt(9, &[c as u64]) });
    out.push(match catch(|| signal::rate(rate).hz(h_control(&sp, gc[1].clone(), ic[1].clone())).saw()) {
        Ok(s) => take(2, s, n),
        Err(c) => fmt(9, &[c as u64]),
    });
    out.push(match catch(|| signal::rate(rate).hz(h_control(&sp, gc[2].clone(), ic[2].clone())).square()) {
        Ok(s) => take(3, s, n),
        Err(c) => fmt(9, &[c as u64]),
    });
    out.push(fmt(6, &gtrace));
    out.push(fmt(8, &itrace));
    out.push(fmt(7, &gc.iter().map(|c| c.get()).collect::<Vec<_>>()));
    out.push(fmt(10, &ic.iter().map(|c| c.get()).collect::<Vec<_>>()));
    out.join(";")
}

fn summary<S: Signal<Frame = f64>>(tag: u64, mut s: S, n: usize, lo: f64, hi: f64, hi_open: bool) -> String {
    let r = catch(move || {
        let (mut mn, mut mx, mut nan, mut bad) = (f64::INFINITY, f64::NEG_INFINITY, 0u64, 0u64);
        for _ in 0..n {
            let y = s.next();
            if y.is_nan() {
                nan += 1;
                continue;
            }
            if y < mn { mn = y; }
            if y > mx { mx = y; }
            if y < lo || y > hi || (hi_open && y >= hi) { bad += 1; }
        }
        vec![c64(mn), c64(mx), nan, bad]
    });
    match r { Ok(v) => fmt(tag, &v), Err(c) => fmt(9, &[c as u64]) }
}

fn range_run(t: &[&str]) -> String {
    let rate = f64::from_bits(t[1].parse::<u64>().unwrap());
    let h = f64::from_bits(t[2].parse::<u64>().unwrap());
    let n: usize = t[3].parse().unwrap();
    [summary(1, signal::rate(rate).const_hz(h).phase(), n, 0.0, 1.0, true),
     summary(2, signal::rate(rate).const_hz(h).saw(), n, -1.0, 1.0, false),
     summary(3, signal::rate(rate).const_hz(h).square(), n, -1.0, 1.0, false),
     summary(4, signal::rate(rate).const_hz(h).sine(), n, -1.0, 1.0, false),
     summary(5, signal::rate(rate).const_hz(h).noise_simplex(), n, -1.0, 1.0, false)].join(";")
}

fn noise(t: &[&str]) -> String {
    let seed: u64 = t[1].parse().unwrap();
    let n: usize = t[2].parse().unwrap();
    let c: usize = t[3].parse().unwrap();
    let r = catch(|| {
        let mut s = signal::noise(seed);
        let mut all = Vec::new();
        for _ in 0..c {
            all.push(c64(s.next()));
        }
        let mut cl = s.clone();
        for _ in c..n {
            all.push(c64(s.next()));
        }
        let tail: Vec<u64> = (c..n).map(|_| c64(cl.next())).collect();
        let mut again = signal::noise(seed);
        let pre: Vec<u64> = (0..c).map(|_| c64(again.next())).collect();
        (all, tail, pre)
    });
    match r {
        Ok((all, tail, pre)) => [fmt(1, &all), fmt(2, &tail), fmt(3, &pre)].join(";"),
        Err(c) => fmt(9, &[c as u64]),
    }
}

fn main() {
    serve(|line| {
        let t: Vec<&str> = line.split_whitespace().collect();
        match t[0] {
            "O" => osc(&t),
            "N" => noise(&t),
            "R" => range_run(&t),
            "H" => hz_composite(&t),
            _ => "9 9".to_string(),
        }
    });
}
