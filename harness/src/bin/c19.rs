//! C19: drives dasp_peak rectifiers and dasp_envelope::Detector / the detect_envelope adaptor.
//!
//! Formats: 0 i8, 1 i16, 2 I24, 3 i32, 4 I48, 5 i64, 6 u8, 7 u16, 8 U24, 9 u32, 10 U48, 11 u64,
//!          12 f32, 13 f64.  Sample values: integers (inner value of the custom types), floats as bits.
//!
//! Rectifier case:  `R <fmt> <nch> ; v.. , v.. , ...`      (one frame per ','-item)
//!   per frame three observations: `10 full..` `11 pos..` `12 neg..` (or `8 code` for a panic)
//! Envelope case:   `E <fmt> <nch> <det> <window> <attack f32 bits> <release f32 bits> <mode> <ctor> ; op , op ...`
//!   det 0 full wave, 1 positive half wave, 2 negative half wave, 3 rms(window)
//!   ctor (absent = 0): 0 the named constructor (Detector::peak / peak_positive_half_wave /
//!        peak_negative_half_wave / rms), 1 Detector::peak_from_rectifier(R, a, r) (rms:
//!        Detector::new(Rms::new(window), a, r)), 2 Detector::new(Peak::from(R), a, r) (rms: as 1)
//!   mode 0 Detector::next, 1 signal::from_iter(frames).detect_envelope(detector),
//!        2 signal::from_interleaved_samples_iter(samples).detect_envelope(detector)
//!        (adaptor modes: the source is FINITE = the `f` frames of the case; setters through the adaptor)
//!   ops: `f v..` frame, `a bits` set_attack_frames, `r bits` set_release_frames,
//!        `x` (adaptor modes, only after the last `f`) one more pull from the exhausted source,
//!        `k` the detector (mode 0) / the adaptor is replaced by its clone(); observation `26`
//!        `p v..` (last op) adaptor modes: into_parts(), then the returned detector gets frame v;
//!                mode 0: the detector itself gets frame v
//!   first observation `22 ga gr ra rr`: attack/release gains in use (from the Debug output of the
//!   detector) and the gains recomputed with the source expression; again after every setter;
//!   per frame `20 env.. det..` (env = output frame, det = detected frame from a second, independent
//!   instance of the detector's Detect) or `8 code` (panic; the case stops there); in the adaptor modes
//!   `24 exh env.. det..` with exh = is_exhausted() before the pull; `p`: `25 ga gr exh env.. det..`
//!   (gains of the returned detector from its Debug output, exh = is_exhausted() of the returned source,
//!   0 in mode 0).
use dasp_envelope::detect::Peak;
use dasp_envelope::{Detect, Detector};
use dasp_frame::Frame;
use dasp_peak::{FullWave, NegativeHalfWave, PositiveHalfWave, Rectifier};
use dasp_ring_buffer as ring_buffer;
use dasp_rms::Rms;
use dasp_sample::{Sample, I24, I48, U24, U48};
use dasp_signal::envelope::SignalEnvelope;
use dasp_signal::{self as signal, Signal};
use dasp_verif_harness::*;
use std::fmt::Debug;

trait Enc: Sample + Debug {
    fn enc(self) -> i128;
    fn dec(v: i128) -> Self;
}
macro_rules! enc_prim { ($($T:ty)*) => { $( impl Enc for $T {
    fn enc(self) -> i128 { self as i128 }
    fn dec(v: i128) -> Self { <$T as std::convert::TryFrom<i128>>::try_from(v).expect("sample value in range of the primitive type") }
} )* } }
enc_prim!(i8 i16 i32 i64 u8 u16 u32 u64);
macro_rules! enc_custom { ($($T:ident : $R:ty)*) => { $( impl Enc for $T {
    fn enc(self) -> i128 { self.inner() as i128 }
    fn dec(v: i128) -> Self { $T::new(v as $R).expect("sample value in range of the custom type") }
} )* } }
enc_custom!(I24: i32 I48: i64 U24: i32 U48: i64);
fn canon32(x: f32) -> i128 {
    if x.is_nan() { 0x7fc0_0000 } else { x.to_bits() as i128 }
}
fn canon64(x: f64) -> i128 {
    if x.is_nan() { 0x7ff8_0000_0000_0000 } else { x.to_bits() as i128 }
}
impl Enc for f32 {
    fn enc(self) -> i128 { canon32(self) }
    fn dec(v: i128) -> Self { f32::from_bits(v as u32) }
}
impl Enc for f64 {
    fn enc(self) -> i128 { canon64(self) }
    fn dec(v: i128) -> Self { f64::from_bits(v as u64) }
}

fn mk_frame<F: Frame>(vals: &[i128]) -> F
where
    F::Sample: Enc,
{
    assert_eq!(vals.len(), F::CHANNELS);
    let mut i = 0;
    F::from_fn(|_| {
        let s = Enc::dec(vals[i]);
        i += 1;
        s
    })
}
fn enc_frame<F: Frame>(f: F) -> Vec<i128>
where
    F::Sample: Enc,
{
    f.channels().map(|s| s.enc()).collect()
}
fn obs128(tag: i64, v: &[i128]) -> String {
    let mut s = tag.to_string();
    for x in v {
        s.push(' ');
        s.push_str(&x.to_string());
    }
    s
}
fn i128s(toks: &[&str]) -> Vec<i128> {
    toks.iter().map(|t| t.parse::<i128>().expect("int token")).collect()
}

// ---------------------------------------------------------------- rectifiers

fn rect_frames<F>(frames: &[Vec<i128>]) -> Vec<String>
where
    F: Frame,
    F::Sample: Enc,
    <F::Signed as Frame>::Sample: Enc,
{
    let mut out = Vec::new();
    for (k, v) in frames.iter().enumerate() {
        let fr: F = mk_frame(v);
        // alternate between the Rectifier trait objects and the free functions
        let a = catch(|| if k % 2 == 0 { enc_frame(FullWave.rectify(fr)) } else { enc_frame(dasp_peak::full_wave(fr)) });
        let b = catch(|| if k % 2 == 0 { enc_frame(PositiveHalfWave.rectify(fr)) } else { enc_frame(dasp_peak::positive_half_wave(fr)) });
        let c = catch(|| if k % 2 == 0 { enc_frame(NegativeHalfWave.rectify(fr)) } else { enc_frame(dasp_peak::negative_half_wave(fr)) });
        for (tag, r) in [(10, a), (11, b), (12, c)] {
            out.push(match r {
                Ok(v) => obs128(tag, &v),
                Err(c) => obs(8, &[c]),
            });
        }
    }
    out
}

fn rect_fmt<S>(nch: usize, frames: &[Vec<i128>]) -> Vec<String>
where
    S: Enc + Frame<Sample = S>,
    <S as Sample>::Signed: Enc,
    <<S as Frame>::Signed as Frame>::Sample: Enc,
{
    match nch {
        0 => rect_frames::<S>(frames), // the bare sample as a mono frame
        1 => rect_frames::<[S; 1]>(frames),
        2 => rect_frames::<[S; 2]>(frames),
        3 => rect_frames::<[S; 3]>(frames),
        _ => panic!("channel count"),
    }
}

// ---------------------------------------------------------------- envelope

fn src_gain(n_frames: f32) -> f32 {
    // dasp_envelope/src/detect/mod.rs: calc_gain
    if n_frames == 0.0 {
        0.0
    } else {
        f32::powf(core::f32::consts::E, -1.0 / n_frames)
    }
}

fn debug_gains<T: Debug>(d: &T) -> (f32, f32) {
    let s = format!("{:?}", d);
    let grab = |key: &str| -> f32 {
        let i = s.find(key).expect("gain field in Debug output") + key.len();
        let rest = &s[i..];
        let end = rest.find(|c: char| c == ',' || c == ' ' || c == '}').unwrap_or(rest.len());
        rest[..end].parse::<f32>().expect("gain value")
    };
    (grab("attack_gain: "), grab("release_gain: "))
}

enum Op {
    Frame(Vec<i128>),
    Attack(f32),
    Release(f32),
    Pull,
    Parts(Vec<i128>),
    CloneIt,
}

/// harness glue: one type for the two finite sources, so that one DetectEnvelope type serves both
#[derive(Clone)]
enum Src<F: Frame> {
    It(signal::FromIterator<std::vec::IntoIter<F>>),
    Il(signal::FromInterleavedSamplesIterator<std::vec::IntoIter<F::Sample>, F>),
}
impl<F: Frame> Signal for Src<F> {
    type Frame = F;
    fn next(&mut self) -> F {
        match self {
            Src::It(s) => s.next(),
            Src::Il(s) => s.next(),
        }
    }
    fn is_exhausted(&self) -> bool {
        match self {
            Src::It(s) => s.is_exhausted(),
            Src::Il(s) => s.is_exhausted(),
        }
    }
}

fn gains_obs(g: (f32, f32), a: f32, r: f32) -> String {
    obs128(22, &[canon32(g.0), canon32(g.1), canon32(src_gain(a)), canon32(src_gain(r))])
}

fn run_env<F, D>(mk: impl FnOnce(f32, f32) -> Detector<F, D>, mut d2: D, attack: f32, release: f32, mode: i64, ops: &[Op]) -> Vec<String>
where
    F: Frame + Debug,
    F::Sample: Enc,
    D: Detect<F> + Debug + Clone,
    D::Output: Debug,
    <D::Output as Frame>::Sample: Enc,
{
    let mut out = Vec::new();
    let det = mk(attack, release);
    let (mut a, mut r) = (attack, release);
    out.push(gains_obs(debug_gains(&det), a, r));
    let frames: Vec<F> = ops
        .iter()
        .filter_map(|o| if let Op::Frame(v) = o { Some(mk_frame::<F>(v)) } else { None })
        .collect();
    let mut det = Some(det);
    let mut sig = None;
    if mode == 1 {
        sig = Some(Src::It(signal::from_iter(frames.clone().into_iter())).detect_envelope(det.take().unwrap()));
    } else if mode == 2 {
        let samples: Vec<F::Sample> = frames.iter().flat_map(|f| f.channels()).collect();
        sig = Some(Src::Il(signal::from_interleaved_samples_iter::<_, F>(samples.into_iter())).detect_envelope(det.take().unwrap()));
    }
    let n_frames = frames.len();
    let mut pulled = 0usize;
    for (oi, op) in ops.iter().enumerate() {
        match op {
            Op::Pull => {
                assert!(mode != 0 && pulled == n_frames, "`x` only in adaptor modes after the last frame");
                let s = sig.as_mut().unwrap();
                let exh = s.is_exhausted() as i128;
                let env = catch(|| enc_frame(s.next()));
                let dv = catch(|| enc_frame(d2.detect(F::EQUILIBRIUM)));
                match (env, dv) {
                    (Ok(e), Ok(d)) => {
                        let mut v = vec![exh];
                        v.extend(e);
                        v.extend(d);
                        out.push(obs128(24, &v));
                    }
                    (Err(c), _) | (_, Err(c)) => {
                        out.push(obs(8, &[c]));
                        break;
                    }
                }
            }
            Op::Parts(v) => {
                assert!(oi + 1 == ops.len(), "`p` must be the last op");
                let fr: F = mk_frame(v);
                let (exh, mut d) = match (det.take(), sig.take()) {
                    (Some(d), _) => (0, d),
                    (None, Some(s)) => {
                        let (src, d) = s.into_parts();
                        (src.is_exhausted() as i128, d)
                    }
                    _ => unreachable!(),
                };
                let g = debug_gains(&d);
                let env = catch(|| enc_frame(d.next(fr)));
                let dv = catch(|| enc_frame(d2.detect(fr)));
                match (env, dv) {
                    (Ok(e), Ok(dd)) => {
                        let mut v = vec![canon32(g.0), canon32(g.1), exh];
                        v.extend(e);
                        v.extend(dd);
                        out.push(obs128(25, &v));
                    }
                    (Err(c), _) | (_, Err(c)) => out.push(obs(8, &[c])),
                }
                break;
            }
            Op::CloneIt => {
                match (det.take(), sig.take()) {
                    (Some(d), _) => {
                        let c = d.clone();
                        drop(d);
                        det = Some(c);
                    }
                    (None, Some(sg)) => {
                        let c = sg.clone();
                        drop(sg);
                        sig = Some(c);
                    }
                    _ => unreachable!(),
                }
                out.push(obs(26, &[]));
            }
            Op::Attack(x) => {
                a = *x;
                let g = match (&mut det, &mut sig) {
                    (Some(d), _) => {
                        d.set_attack_frames(a);
                        debug_gains(d)
                    }
                    (None, Some(s)) => {
                        s.set_attack_frames(a);
                        let (_, d) = s.clone().into_parts();
                        debug_gains(&d)
                    }
                    _ => unreachable!(),
                };
                out.push(gains_obs(g, a, r));
            }
            Op::Release(x) => {
                r = *x;
                let g = match (&mut det, &mut sig) {
                    (Some(d), _) => {
                        d.set_release_frames(r);
                        debug_gains(d)
                    }
                    (None, Some(s)) => {
                        s.set_release_frames(r);
                        let (_, d) = s.clone().into_parts();
                        debug_gains(&d)
                    }
                    _ => unreachable!(),
                };
                out.push(gains_obs(g, a, r));
            }
            Op::Frame(v) => {
                let fr: F = mk_frame(v);
                pulled += 1;
                let exh = sig.as_ref().map(|s| s.is_exhausted() as i128);
                let env = catch(|| match (&mut det, &mut sig) {
                    (Some(d), _) => enc_frame(d.next(fr)),
                    (None, Some(s)) => enc_frame(s.next()),
                    _ => unreachable!(),
                });
                let dv = catch(|| enc_frame(d2.detect(fr)));
                match (env, dv) {
                    (Ok(mut e), Ok(d)) => {
                        e.extend(d);
                        match exh {
                            None => out.push(obs128(20, &e)),
                            Some(x) => {
                                e.insert(0, x);
                                out.push(obs128(24, &e));
                            }
                        }
                    }
                    (Err(c), _) => {
                        out.push(obs(8, &[c]));
                        break;
                    }
                    (Ok(_), Err(c)) => {
                        // the detector went through but the stand-alone detection panicked: report both
                        out.push(obs(9, &[c]));
                        break;
                    }
                }
            }
        }
    }
    out
}

fn env_frame<F>(det: i64, ctor: i64, window: usize, attack: f32, release: f32, mode: i64, ops: &[Op]) -> Vec<String>
where
    F: Frame + Debug,
    F::Sample: Enc,
    F::Signed: Debug,
    F::Float: Debug,
    <F::Signed as Frame>::Sample: Enc,
    <F::Float as Frame>::Sample: Enc,
{
    match det {
        0 => run_env::<F, _>(
            |a, r| match ctor {
                0 => Detector::peak(a, r),
                1 => Detector::peak_from_rectifier(FullWave, a, r),
                _ => Detector::new(Peak::from(FullWave), a, r),
            },
            Peak::full_wave(), attack, release, mode, ops),
        1 => run_env::<F, _>(
            |a, r| match ctor {
                0 => Detector::peak_positive_half_wave(a, r),
                1 => Detector::peak_from_rectifier(PositiveHalfWave, a, r),
                _ => Detector::new(Peak::from(PositiveHalfWave), a, r),
            },
            Peak::positive_half_wave(), attack, release, mode, ops),
        2 => run_env::<F, _>(
            |a, r| match ctor {
                0 => Detector::peak_negative_half_wave(a, r),
                1 => Detector::peak_from_rectifier(NegativeHalfWave, a, r),
                _ => Detector::new(Peak::from(NegativeHalfWave), a, r),
            },
            Peak::negative_half_wave(), attack, release, mode, ops),
        3 => {
            let w = || ring_buffer::Fixed::from(vec![<F::Float as Frame>::EQUILIBRIUM; window]);
            run_env::<F, _>(
                |a, r| match ctor {
                    0 => Detector::rms(w(), a, r),
                    _ => Detector::new(Rms::new(w()), a, r),
                },
                Rms::new(w()), attack, release, mode, ops)
        }
        _ => panic!("detector kind"),
    }
}

fn env_fmt<S>(nch: usize, det: i64, ctor: i64, window: usize, attack: f32, release: f32, mode: i64, ops: &[Op]) -> Vec<String>
where
    S: Enc + Frame<Sample = S>,
    <S as Sample>::Signed: Enc,
    <S as Sample>::Float: Enc,
    <S as Frame>::Signed: Debug,
    <S as Frame>::Float: Debug,
    <<S as Frame>::Signed as Frame>::Sample: Enc,
    <<S as Frame>::Float as Frame>::Sample: Enc,
{
    match nch {
        0 => env_frame::<S>(det, ctor, window, attack, release, mode, ops),
        1 => env_frame::<[S; 1]>(det, ctor, window, attack, release, mode, ops),
        2 => env_frame::<[S; 2]>(det, ctor, window, attack, release, mode, ops),
        3 => env_frame::<[S; 3]>(det, ctor, window, attack, release, mode, ops),
        _ => panic!("channel count"),
    }
}

fn main() {
    serve(|line| {
        let (head, tail) = line.split_once(';').expect("case needs ';'");
        let h: Vec<&str> = head.split_whitespace().collect();
        let items: Vec<Vec<&str>> = tail
            .split(',')
            .map(|o| o.split_whitespace().collect::<Vec<_>>())
            .filter(|o| !o.is_empty())
            .collect();
        let fmt: i64 = h[1].parse().unwrap();
        let nch: usize = h[2].parse().unwrap();
        let res = if h[0] == "R" {
            let frames: Vec<Vec<i128>> = items.iter().map(|t| i128s(t)).collect();
            match fmt {
                0 => rect_fmt::<i8>(nch, &frames),
                1 => rect_fmt::<i16>(nch, &frames),
                2 => rect_fmt::<I24>(nch, &frames),
                3 => rect_fmt::<i32>(nch, &frames),
                4 => rect_fmt::<I48>(nch, &frames),
                5 => rect_fmt::<i64>(nch, &frames),
                6 => rect_fmt::<u8>(nch, &frames),
                7 => rect_fmt::<u16>(nch, &frames),
                8 => rect_fmt::<U24>(nch, &frames),
                9 => rect_fmt::<u32>(nch, &frames),
                10 => rect_fmt::<U48>(nch, &frames),
                11 => rect_fmt::<u64>(nch, &frames),
                12 => rect_fmt::<f32>(nch, &frames),
                13 => rect_fmt::<f64>(nch, &frames),
                _ => panic!("format"),
            }
        } else {
            let det: i64 = h[3].parse().unwrap();
            let window: usize = h[4].parse().unwrap();
            let attack = f32::from_bits(h[5].parse::<u32>().unwrap());
            let release = f32::from_bits(h[6].parse::<u32>().unwrap());
            let mode: i64 = h[7].parse().unwrap();
            let ctor: i64 = if h.len() > 8 { h[8].parse().unwrap() } else { 0 };
            let ops: Vec<Op> = items
                .iter()
                .map(|t| match t[0] {
                    "f" => Op::Frame(i128s(&t[1..])),
                    "a" => Op::Attack(f32::from_bits(t[1].parse::<u32>().unwrap())),
                    "r" => Op::Release(f32::from_bits(t[1].parse::<u32>().unwrap())),
                    "x" => Op::Pull,
                    "k" => Op::CloneIt,
                    "p" => Op::Parts(i128s(&t[1..])),
                    other => panic!("unknown op {}", other),
                })
                .collect();
            match fmt {
                0 => env_fmt::<i8>(nch, det, ctor, window, attack, release, mode, &ops),
                1 => env_fmt::<i16>(nch, det, ctor, window, attack, release, mode, &ops),
                6 => env_fmt::<u8>(nch, det, ctor, window, attack, release, mode, &ops),
                7 => env_fmt::<u16>(nch, det, ctor, window, attack, release, mode, &ops),
                12 => env_fmt::<f32>(nch, det, ctor, window, attack, release, mode, &ops),
                13 => env_fmt::<f64>(nch, det, ctor, window, attack, release, mode, &ops),
                _ => panic!("envelope format"),
            }
        };
        res.join(";")
    });
}
