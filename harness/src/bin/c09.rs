//! C09: drives dasp_graph::{Processor, sources, sinks} over petgraph `Graph` and `StableGraph`
//! of `NodeData<BoxedNode>` built from a script.
//! Input line:  `<G|S> ; op , op , ...`   (G = petgraph::Graph, S = petgraph::stable_graph::StableGraph)
//! ops:  `N k b`  add a node with b (0, 1 or 2) output buffers (k = 0: output is a pure function of the inputs,
//!                k = 1: also of its call count); b = 0 is NodeData::new(node, vec![]), a meter-style node
//!       `C c k`  add a node (kind k as for N) built by one of the short-hand constructors: c = 1 `NodeData::new1(BoxedNode::new(n))`,
//!                2 `NodeData::new2(BoxedNode::new(n))`, 3 `NodeData::boxed1(n)`, 4 `NodeData::boxed2(n)`; what the constructor
//!                made is observed (`19`) before the sentinels are written into the buffers
//!       `E a b`  add an edge a -> b        `R a`  remove node a (StableGraph only)
//!       `P o`    Processor::process(graph, o) on the ONE processor of the case
//!       `A a`    arm the node in slot a: its next invocation panics inside Node::process (once, after logging);
//!                the unwinding out of Processor::process is caught and the SAME processor is used on
//!       `B`      snapshot of every slot's buffer value and call count     `Q`  sources() and sinks()
//! Output: observations joined by ';':
//!   `1 idx` (N, C)  `19 nbuf bits` (C: number of buffers the constructor made, sum of the bit patterns of all their samples)  `2` (E)  `3 0|1` (R: None|Some)
//!   `10 n` then n times `11 who k len_1..len_k from_1..from_k seen_1..seen_k` (P: invocation log in call
//!        order, recorded inside Node::process; len_i = number of buffers input i shows, from_i = identity
//!        sentinel found in its first buffer (-1 when it has none), seen_i = sum of the values in its buffers)
//!   `12 v...` `13 c...` `16 n...` (B: per slot value (-2 = node without buffers), call count, buffer count;
//!        -1 = vacant)   `14 ids...` `15 ids...` (Q)
//!   `17 who` after the log of a P: the armed node `who` panicked, the call was aborted there   `18` (A)
//!   `8 code` a panic (3 = FixedBitSet assertion, 4 = expect(no node), 2 = add_edge on a missing node, 9 other);
//!        the case ends at the first panic.
//! Instrumented node: every buffer j of the node: buffer[j][0] = value, buffer[j][1] = identity (slot index).
//!   value' = ((id+1)*7 + 1000*k*count + sum_i 3*(i+1)*seen_i) mod 65521 ; initial value = 50000 + id.
use dasp_graph::{Buffer, BoxedNode, Input, Node, NodeData, Processor};
use dasp_verif_harness::*;
use petgraph::graph::NodeIndex;
use std::cell::{Cell, RefCell};
use std::panic::{self, AssertUnwindSafe};
use std::rc::Rc;

type Log = Rc<RefCell<Vec<Vec<i64>>>>;

struct Inst {
    id: Rc<Cell<i64>>,
    kind: i64,
    count: Rc<Cell<i64>>,
    armed: Rc<Cell<bool>>,
    log: Log,
}

impl Node for Inst {
    fn process(&mut self, inputs: &[Input], output: &mut [Buffer]) {
        let id = self.id.get();
        let mut lens = Vec::new();
        let mut from = Vec::new();
        let mut seen = Vec::new();
        for inp in inputs {
            let b = inp.buffers();
            lens.push(b.len() as i64);
            from.push(if b.is_empty() { -1 } else { b[0][1] as i64 });
            seen.push(b.iter().map(|x| x[0] as i64).sum::<i64>());
        }
        let mut rec = vec![id, from.len() as i64];
        rec.extend_from_slice(&lens);
        rec.extend_from_slice(&from);
        rec.extend_from_slice(&seen);
        self.log.borrow_mut().push(rec);
        if self.armed.get() {
            self.armed.set(false);
            panic!("armed node panic {}", id);
        }
        let mut acc = (id + 1) * 7 + 1000 * self.kind * self.count.get();
        for (i, v) in seen.iter().enumerate() {
            acc += 3 * (i as i64 + 1) * v;
        }
        acc %= 65521;
        for out in output.iter_mut() {
            out[0] = acc as f32;
            out[1] = id as f32;
        }
        self.count.set(self.count.get() + 1);
    }
}

fn my_catch<T>(f: impl FnOnce() -> T) -> Result<T, i64> {
    panic::catch_unwind(AssertUnwindSafe(f)).map_err(|p| {
        let msg: String = if let Some(s) = p.downcast_ref::<&str>() {
            s.to_string()
        } else if let Some(s) = p.downcast_ref::<String>() {
            s.clone()
        } else {
            String::new()
        };
        if msg.contains("armed node panic") {
            7
        } else if msg.contains("bit < self.length") {
            3
        } else if msg.contains("no node exists") {
            4
        } else if msg.contains("add_edge") {
            2
        } else {
            9
        }
    })
}

macro_rules! run_case {
    ($gty:ty, $stable:tt, $ops:expr) => {{
        let ops: &Vec<Vec<&str>> = $ops;
        let mut g: $gty = <$gty>::default();
        let mut p: Processor<$gty> = Processor::with_capacity(4);
        let log: Log = Rc::new(RefCell::new(Vec::new()));
        // per slot handles (id, count); slots never disappear
        let mut handles: Vec<(Rc<Cell<i64>>, Rc<Cell<i64>>, Rc<Cell<bool>>)> = Vec::new();
        let mut out: Vec<String> = Vec::new();
        for op in ops {
            let a: Vec<i64> = op[1..].iter().map(|t| t.parse().unwrap()).collect();
            match op[0] {
                "N" | "C" => {
                    let id = Rc::new(Cell::new(-1));
                    let count = Rc::new(Cell::new(0));
                    let armed = Rc::new(Cell::new(false));
                    let kind = if op[0] == "N" { a[0] } else { a[1] };
                    let inst = Inst { id: id.clone(), kind, count: count.clone(), armed: armed.clone(), log: log.clone() };
                    let data: NodeData<BoxedNode> = if op[0] == "N" {
                        NodeData::boxed(inst, vec![Buffer::SILENT; a[1] as usize])
                    } else {
                        match a[0] {
                            1 => NodeData::new1(BoxedNode::new(inst)),
                            2 => NodeData::new2(BoxedNode::new(inst)),
                            3 => NodeData::boxed1(inst),
                            4 => NodeData::boxed2(inst),
                            other => panic!("unknown constructor {}", other),
                        }
                    };
                    // what the constructor made, before anything is written into the buffers
                    let made = (
                        data.buffers.len() as i64,
                        data.buffers.iter().map(|b| b.iter().map(|x| x.to_bits() as i64).sum::<i64>()).sum::<i64>(),
                    );
                    let idx = g.add_node(data);
                    let i = idx.index();
                    id.set(i as i64);
                    {
                        let w = g.node_weight_mut(idx).unwrap();
                        for b in w.buffers.iter_mut() {
                            b[0] = (50000 + i) as f32;
                            b[1] = i as f32;
                        }
                    }
                    if i < handles.len() {
                        handles[i] = (id, count, armed);
                    } else {
                        assert_eq!(i, handles.len());
                        handles.push((id, count, armed));
                    }
                    out.push(obs(1, &[i as i64]));
                    if op[0] == "C" {
                        out.push(obs(19, &[made.0, made.1]));
                    }
                }
                "E" => {
                    match my_catch(|| {
                        g.add_edge(NodeIndex::new(a[0] as usize), NodeIndex::new(a[1] as usize), ());
                    }) {
                        Ok(()) => out.push(obs(2, &[])),
                        Err(c) => {
                            out.push(obs(8, &[c]));
                            break;
                        }
                    }
                }
                "R" => {
                    let r = run_case!(@remove $stable, g, a[0]);
                    out.push(obs(3, &[r]));
                }
                "P" => {
                    log.borrow_mut().clear();
                    match my_catch(|| p.process(&mut g, NodeIndex::new(a[0] as usize))) {
                        Ok(()) => {
                            let l = log.borrow();
                            out.push(obs(10, &[l.len() as i64]));
                            for rec in l.iter() {
                                out.push(obs(11, rec));
                            }
                        }
                        Err(7) => {
                            // a node panicked: the host caught it and keeps using graph and processor
                            let l = log.borrow();
                            out.push(obs(10, &[l.len() as i64]));
                            for rec in l.iter() {
                                out.push(obs(11, rec));
                            }
                            out.push(obs(17, &[l.last().map(|r| r[0]).unwrap_or(-1)]));
                        }
                        Err(c) => {
                            // nothing may have been invoked before the panic
                            let n = log.borrow().len() as i64;
                            if n == 0 {
                                out.push(obs(8, &[c]));
                            } else {
                                out.push(obs(8, &[c, n]));
                            }
                            break;
                        }
                    }
                }
                "A" => {
                    // only a node that is in the graph can be armed
                    let i = a[0] as usize;
                    if i < handles.len() && g.node_weight(NodeIndex::new(i)).is_some() {
                        handles[i].2.set(true);
                    }
                    out.push(obs(18, &[]));
                }
                "B" => {
                    let mut vals = Vec::new();
                    let mut counts = Vec::new();
                    let mut nbufs = Vec::new();
                    for i in 0..handles.len() {
                        match g.node_weight(NodeIndex::new(i)) {
                            Some(w) => {
                                match w.buffers.first() {
                                    Some(b) => {
                                        vals.push(b[0] as i64);
                                        for b2 in w.buffers.iter() {
                                            assert_eq!(b2[1] as i64, i as i64);
                                            assert_eq!(b2[0], b[0]);
                                        }
                                    }
                                    None => vals.push(-2),
                                }
                                counts.push(handles[i].1.get());
                                nbufs.push(w.buffers.len() as i64);
                            }
                            None => {
                                vals.push(-1);
                                counts.push(-1);
                                nbufs.push(-1);
                            }
                        }
                    }
                    out.push(obs(12, &vals));
                    out.push(obs(13, &counts));
                    out.push(obs(16, &nbufs));
                }
                "Q" => {
                    let s: Vec<i64> = dasp_graph::sources(&&g).map(|n| n.index() as i64).collect();
                    let t: Vec<i64> = dasp_graph::sinks(&&g).map(|n| n.index() as i64).collect();
                    out.push(obs(14, &s));
                    out.push(obs(15, &t));
                }
                other => panic!("unknown op {}", other),
            }
        }
        out
    }};
    (@remove true, $g:ident, $a:expr) => {
        match $g.remove_node(NodeIndex::new($a as usize)) {
            Some(_) => 1,
            None => 0,
        }
    };
    (@remove false, $g:ident, $a:expr) => {{
        let _ = $a;
        panic!("R is only supported on StableGraph")
    }};
}

type PG = petgraph::graph::Graph<NodeData<BoxedNode>, ()>;
type SG = petgraph::stable_graph::StableGraph<NodeData<BoxedNode>, ()>;

fn main() {
    serve(|line| {
        let mut parts = line.splitn(2, ';');
        let kind = parts.next().unwrap().trim();
        let ops: Vec<Vec<&str>> = parts
            .next()
            .unwrap_or("")
            .split(',')
            .map(|o| o.split_whitespace().collect::<Vec<_>>())
            .filter(|o| !o.is_empty())
            .collect();
        let out = match kind {
            "G" => run_case!(PG, false, &ops),
            "S" => run_case!(SG, true, &ops),
            other => panic!("unknown graph kind {}", other),
        };
        out.join(";")
    });
}
