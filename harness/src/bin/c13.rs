//! C13: drives dasp_signal::bus::{Bus, Output} through send / next / pending_frames / is_exhausted / drop sequences.
//! Input line:  [`K kind L ;`] ops separated by ','
//!   `s` (bus.send()), `n i` (outputs[i].next()), `p i` (outputs[i].pending_frames()), `d i` (drop(outputs[i])),
//!   `e i` (outputs[i].is_exhausted()), `b` (drop(bus): the Bus handle goes away, the outputs stay),
//!   `R i n` (n consecutive outputs[i].next(); compact report for long runs)
//! The i-th output ever returned by `send` lives in slot i (None once dropped).
//! Sources (every one wrapped in `Counted`, a Signal that counts `next` calls and forwards `is_exhausted`):
//!   kind 0: `signal::gen_mut` yielding 1000 + k (endless)
//!   kind 1: `signal::from_iter` of the L frames 1000 + k
//!   kind 2: `signal::gen_mut(5000 + 7k).add_amp(signal::from_iter of the L frames 100 + k)`
//! Output: one observation per op, joined by ';':
//!   `1 slot` send | `2 frame` next | `3 n` pending | `4` drop | `6 b` is_exhausted | `7` bus dropped
//!   | `9` slot empty/unknown or bus handle gone (no API call possible)
//!   | `5 first last breaks` run of n next (first/last frame, -1 if n = 0; breaks = number of positions where
//!     a frame is not its predecessor + 1)
//!   | `8 code` panic, each followed by: pulls  backlog(hook; -3 once the Bus handle is dropped)
//!     pending of every slot (-1 = dropped), and for kinds 1, 2: is_exhausted of every slot (-1 = dropped)
use dasp_signal::bus::{Bus, Output, SignalBus};
use dasp_signal::{self as signal, Signal};
use dasp_verif_harness::*;
use std::cell::Cell;
use std::rc::Rc;

struct Counted<S> {
    inner: S,
    pulls: Rc<Cell<i64>>,
}

impl<S: Signal> Signal for Counted<S> {
    type Frame = S::Frame;
    fn next(&mut self) -> S::Frame {
        self.pulls.set(self.pulls.get() + 1);
        self.inner.next()
    }
    fn is_exhausted(&self) -> bool {
        self.inner.is_exhausted()
    }
}

fn drive<S>(inner: S, kind: i64, ops: &str) -> String
where
    S: Signal<Frame = i64>,
{
    let pulls = Rc::new(Cell::new(0i64));
    let mut bus: Option<Bus<Counted<S>>> = Some(Counted { inner, pulls: pulls.clone() }.bus());
    let mut outs: Vec<Option<Output<Counted<S>>>> = Vec::new();
    let mut res = Vec::new();
    for op in ops.split(',') {
        let t: Vec<&str> = op.split_whitespace().collect();
        if t.is_empty() {
            continue;
        }
        let i = if t.len() > 1 { t[1].parse::<usize>().unwrap() } else { 0 };
        let live = i < outs.len() && outs[i].is_some();
        let head = match t[0] {
            "s" => match bus.as_ref() {
                Some(b) => match catch(|| b.send()) {
                    Ok(o) => {
                        outs.push(Some(o));
                        vec![1, outs.len() as i64 - 1]
                    }
                    Err(c) => vec![8, c],
                },
                None => vec![9],
            },
            "b" => match bus.take() {
                Some(b) => match catch(move || drop(b)) {
                    Ok(()) => vec![7],
                    Err(c) => vec![8, c],
                },
                None => vec![9],
            },
            "n" if live => match catch(|| outs[i].as_mut().unwrap().next()) {
                Ok(x) => vec![2, x],
                Err(c) => vec![8, c],
            },
            "p" if live => match catch(|| outs[i].as_ref().unwrap().pending_frames()) {
                Ok(x) => vec![3, x as i64],
                Err(c) => vec![8, c],
            },
            "e" if live => match catch(|| outs[i].as_ref().unwrap().is_exhausted()) {
                Ok(x) => vec![6, x as i64],
                Err(c) => vec![8, c],
            },
            "d" if live => {
                let o = outs[i].take().unwrap();
                match catch(move || drop(o)) {
                    Ok(()) => vec![4],
                    Err(c) => vec![8, c],
                }
            }
            "R" if live => {
                let n = t[2].parse::<usize>().unwrap();
                let o = outs[i].as_mut().unwrap();
                match catch(|| {
                    let (mut first, mut last, mut breaks, mut started) = (-1i64, -1i64, 0i64, false);
                    for _ in 0..n {
                        let x = o.next();
                        if !started {
                            first = x;
                        } else if x != last + 1 {
                            breaks += 1;
                        }
                        started = true;
                        last = x;
                    }
                    (first, last, breaks)
                }) {
                    Ok((a, b, c)) => vec![5, a, b, c],
                    Err(c) => vec![8, c],
                }
            }
            "n" | "p" | "d" | "R" | "e" => vec![9],
            other => panic!("unknown op {}", other),
        };
        let mut v = head;
        v.push(pulls.get());
        v.push(match bus.as_ref() {
            Some(b) => match catch(|| b.verif_backlog_len()) {
                Ok(n) => n as i64,
                Err(_) => -7,
            },
            None => -3,
        });
        for o in outs.iter() {
            v.push(match o {
                None => -1,
                Some(o) => match catch(|| o.pending_frames()) {
                    Ok(n) => n as i64,
                    Err(c) => -10 - c,
                },
            });
        }
        if kind != 0 {
            for o in outs.iter() {
                v.push(match o {
                    None => -1,
                    Some(o) => match catch(|| o.is_exhausted()) {
                        Ok(b) => b as i64,
                        Err(c) => -10 - c,
                    },
                });
            }
        }
        res.push(join(&v));
    }
    res.join(";")
}

fn counter(base: i64, step: i64) -> impl FnMut() -> i64 {
    let mut k = 0i64;
    move || {
        let x = base + step * k;
        k += 1;
        x
    }
}

fn main() {
    serve(|line| {
        let (kind, l, ops) = match line.find(';') {
            Some(p) => {
                let h: Vec<&str> = line[..p].split_whitespace().collect();
                (h[1].parse::<i64>().unwrap(), h[2].parse::<i64>().unwrap(), &line[p + 1..])
            }
            None => (0, 0, line),
        };
        match kind {
            0 => drive(signal::gen_mut(counter(1000, 1)), kind, ops),
            1 => drive(signal::from_iter((0..l).map(|k| 1000 + k)), kind, ops),
            2 => drive(signal::gen_mut(counter(5000, 7)).add_amp(signal::from_iter((0..l).map(|k| 100 + k))), kind, ops),
            other => panic!("unknown source kind {}", other),
        }
    });
}
