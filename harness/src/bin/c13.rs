//! C13: drives dasp_signal::bus::{Bus, Output} through send / next / pending_frames / drop sequences.
//! Input line:  ops separated by ','   `s` (bus.send()), `n i` (outputs[i].next()),
//!              `p i` (outputs[i].pending_frames()), `d i` (drop(outputs[i])),
//!              `R i n` (n consecutive outputs[i].next(); compact report for long runs)
//! The i-th output ever returned by `send` lives in slot i (None once dropped).
//! Source: `signal::gen_mut` closure yielding 1000 + (number of earlier pulls); the pull counter is shared.
//! Output: one observation per op, joined by ';':
//!   `1 slot` send | `2 frame` next | `3 n` pending | `4` drop | `9` slot empty/unknown (no API call possible)
//!   | `5 first last breaks` run of n next (first/last frame, -1 if n = 0; breaks = number of positions where
//!     a frame is not its predecessor + 1)
//!   | `8 code` panic, each followed by: pulls  backlog(hook)  pending of every slot (-1 = dropped)
use dasp_signal::bus::{Output, SignalBus};
use dasp_signal::{self as signal, Signal};
use dasp_verif_harness::*;
use std::cell::Cell;
use std::rc::Rc;

fn drive<S>(src: S, pulls: Rc<Cell<i64>>, ops: &str) -> String
where
    S: Signal<Frame = i64>,
{
    let bus = src.bus();
    let mut outs: Vec<Option<Output<S>>> = Vec::new();
    let mut res = Vec::new();
    for op in ops.split(',') {
        let t: Vec<&str> = op.split_whitespace().collect();
        if t.is_empty() {
            continue;
        }
        let i = if t.len() > 1 { t[1].parse::<usize>().unwrap() } else { 0 };
        let live = i < outs.len() && outs[i].is_some();
        let head = match t[0] {
            "s" => match catch(|| bus.send()) {
                Ok(o) => {
                    outs.push(Some(o));
                    vec![1, outs.len() as i64 - 1]
                }
                Err(c) => vec![8, c],
            },
            "n" if live => match catch(|| outs[i].as_mut().unwrap().next()) {
                Ok(x) => vec![2, x],
                Err(c) => vec![8, c],
            },
            "p" if live => match catch(|| outs[i].as_ref().unwrap().pending_frames()) {
                Ok(x) => vec![3, x as i64],
                Err(c) => vec![8, c],
            },
            "d" if live => {
                let o = outs[i].take().unwrap();
                match catch(move || drop(o)) {
                    Ok(()) => vec![4],
                    Err(c) => vec![8, c],
                }
            }
            "R" if live => {
                let n = t[2].parse::<usize>().unwrap();
                let o = outs[i].as_mut().unwrap();
                match catch(|| {
                    let (mut first, mut last, mut breaks) = (-1i64, -1i64, 0i64);
                    for _ in 0..n {
                        let x = o.next();
                        if first < 0 {
                            first = x;
                        }
                        if last >= 0 && x != last + 1 {
                            breaks += 1;
                        }
                        last = x;
                    }
                    (first, last, breaks)
                }) {
                    Ok((a, b, c)) => vec![5, a, b, c],
                    Err(c) => vec![8, c],
                }
            }
            "n" | "p" | "d" | "R" => vec![9],
            other => panic!("unknown op {}", other),
        };
        let mut v = head;
        v.push(pulls.get());
        v.push(match catch(|| bus.verif_backlog_len()) {
            Ok(n) => n as i64,
            Err(_) => -7,
        });
        for o in outs.iter() {
            v.push(match o {
                None => -1,
                Some(o) => match catch(|| o.pending_frames()) {
                    Ok(n) => n as i64,
                    Err(c) => -10 - c,
                },
            });
        }
        res.push(join(&v));
    }
    res.join(";")
}

fn main() {
    serve(|line| {
        let pulls = Rc::new(Cell::new(0i64));
        let p2 = pulls.clone();
        let src = signal::gen_mut(move || {
            let k = p2.get();
            p2.set(k + 1);
            1000 + k
        });
        drive(src, pulls, line)
    });
}
