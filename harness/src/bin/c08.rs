//! C08: drives the real rate converter (dasp_signal::interpolate::Converter through
//! Signal::from_hz_to_hz / scale_hz / mul_hz and Converter::scale_sample_hz, set_*), with the
//! Floor and Linear interpolators primed from the source as the public API does, over an
//! instrumented finite source (signal::from_iter over a counting iterator, wrapped in a
//! Signal that counts `next` calls).
//!
//! Input line:  `<fmt> <itp> <nch> <own> <tail> ; <samples, frame-major> ; <ctor> ; <op> , <op> , ...`
//!   fmt  0 f64, 1 f32, 2 i16 (nch 1: bare sample frame, nch 2: [i16; 2]), 3 u8,
//!        100.. = 100 + format code (i8 i16 I24 i32 I48 i64 u8 u16 U24 u32 U48 u64 f32 f64), nch 1,
//!        nch 2 for [U24; 2] and [U48; 2]
//!   own  0 the converter owns the source, 1 it is built over `source.by_ref()`,
//!        2 over `&mut source` handed to the Converter constructors / `(&mut source).mul_hz(..)`
//!   tail number of frames pulled from the source itself after the converter was dropped (own != 0)
//!   itp  0 Floor::new(source.next()), 1 Linear::new(source.next(), source.next())
//!   ctor `hz a b` | `scale m` | `sample m` | `mul c0 c1 ...`      (f64 bit patterns)
//!   op   `n` next | `p x` set_playback_hz_scale | `h a b` set_hz_to_hz | `s x` set_sample_hz_scale
//!        | `u cap` until_exhausted().take(cap).count() (on `by_ref()` of the converter, on the converter
//!          itself when it is the last operation)
//!        | `src` source() | `pull` source_mut().next() | `rb hz a b` / `rb scale m` / `rb sample m`: into_source(),
//!          a newly primed interpolator of the same kind from the returned source, the named constructor again
//! Output: observations joined by ';'
//!   `0 pulls iter`                       after priming + construction
//!   `8 code`                             constructor panicked (then nothing else)
//!   `1 exh pulls iter valuebits frame..` one output of a Converter (exh = is_exhausted before it)
//!   `2 exh pulls iter frame..`           one output of a MulHz
//!   `3`                                  a set_* call
//!   `4 count pulls`                      until_exhausted
//!   `5 exh pulls iter frame..`           one frame pulled from the source after the converter was dropped
//!   `6 srcexh pulls iter`                source(): its is_exhausted and the counters
//!   `7 pulls iter frame..`               one frame pulled through source_mut()
//!   `0 pulls iter` / `8 code`            a rebuild (after a panicking constructor the case ends)
//! floats are bit patterns, NaN canonicalised.
use dasp_frame::Frame;
use dasp_interpolate::floor::Floor;
use dasp_interpolate::linear::Linear;
use dasp_interpolate::Interpolator;
use dasp_sample::{Duplex, I24, I48, U24, U48};
use dasp_signal::interpolate::Converter;
use dasp_signal::{self as signal, Signal};
use dasp_verif_harness::*;
use std::cell::Cell;
use std::rc::Rc;

fn f64_bits(x: f64) -> i128 {
    if x.is_nan() {
        0x7ff8_0000_0000_0000
    } else {
        x.to_bits() as i128
    }
}
fn f32_bits(x: f32) -> i128 {
    if x.is_nan() {
        0x7fc0_0000
    } else {
        x.to_bits() as i128
    }
}
fn bf(x: i128) -> f64 {
    f64::from_bits(x as u64)
}

trait Enc: Frame {
    fn enc(&self) -> Vec<i128>;
    fn dec(v: &[i128]) -> Self;
}
impl Enc for f64 {
    fn enc(&self) -> Vec<i128> {
        vec![f64_bits(*self)]
    }
    fn dec(v: &[i128]) -> Self {
        f64::from_bits(v[0] as u64)
    }
}
impl Enc for f32 {
    fn enc(&self) -> Vec<i128> {
        vec![f32_bits(*self)]
    }
    fn dec(v: &[i128]) -> Self {
        f32::from_bits(v[0] as u32)
    }
}
impl Enc for i16 {
    fn enc(&self) -> Vec<i128> {
        vec![*self as i128]
    }
    fn dec(v: &[i128]) -> Self {
        v[0] as i16
    }
}
impl Enc for u8 {
    fn enc(&self) -> Vec<i128> {
        vec![*self as i128]
    }
    fn dec(v: &[i128]) -> Self {
        v[0] as u8
    }
}
impl Enc for [i16; 2] {
    fn enc(&self) -> Vec<i128> {
        vec![self[0] as i128, self[1] as i128]
    }
    fn dec(v: &[i128]) -> Self {
        [v[0] as i16, v[1] as i16]
    }
}

macro_rules! enc_prim {
    ($($T:ty),*) => {$(
        impl Enc for $T {
            fn enc(&self) -> Vec<i128> { vec![*self as i128] }
            fn dec(v: &[i128]) -> Self { v[0] as $T }
        }
    )*};
}
enc_prim!(i8, i32, i64, u16, u32, u64);
macro_rules! enc_custom {
    ($($T:ident: $R:ty),*) => {$(
        impl Enc for $T {
            fn enc(&self) -> Vec<i128> { vec![self.inner() as i128] }
            fn dec(v: &[i128]) -> Self { $T::new(v[0] as $R).expect("sample value in range") }
        }
        impl Enc for [$T; 2] {
            fn enc(&self) -> Vec<i128> { vec![self[0].inner() as i128, self[1].inner() as i128] }
            fn dec(v: &[i128]) -> Self { [$T::new(v[0] as $R).expect("range"), $T::new(v[1] as $R).expect("range")] }
        }
    )*};
}
enc_custom!(I24: i32, U24: i32, I48: i64, U48: i64);

/// Iterator over the given frames counting Iterator::next calls.
struct CountIter<F> {
    frames: std::vec::IntoIter<F>,
    calls: Rc<Cell<i128>>,
}
impl<F> Iterator for CountIter<F> {
    type Item = F;
    fn next(&mut self) -> Option<F> {
        self.calls.set(self.calls.get() + 1);
        self.frames.next()
    }
}

/// Signal wrapper counting Signal::next calls (the pulls the converter makes).
struct Counted<S> {
    inner: S,
    pulls: Rc<Cell<i128>>,
}
impl<S: Signal> Signal for Counted<S> {
    type Frame = S::Frame;
    fn next(&mut self) -> S::Frame {
        self.pulls.set(self.pulls.get() + 1);
        self.inner.next()
    }
    fn is_exhausted(&self) -> bool {
        self.inner.is_exhausted()
    }
}

fn line(tag: i128, v: &[i128]) -> String {
    let mut s = tag.to_string();
    for x in v {
        s.push(' ');
        s.push_str(&x.to_string());
    }
    s
}

fn toks(s: &str) -> Vec<i128> {
    s.split_whitespace().map(|t| t.parse::<i128>().expect("int token")).collect()
}

fn prime_floor<S: Signal>(s: &mut S) -> Floor<S::Frame> {
    Floor::new(s.next())
}

fn prime_linear<S: Signal>(s: &mut S) -> Linear<S::Frame> {
    let a = s.next();
    let b = s.next();
    Linear::new(a, b)
}

fn drive<F, I, S>(
    src: S,
    interp: I,
    prime: fn(&mut S) -> I,
    pulls: &Rc<Cell<i128>>,
    calls: &Rc<Cell<i128>>,
    own: i128,
    ctor: &[&str],
    ops: &[Vec<&str>],
) -> Vec<String>
where
    F: Enc,
    F::Sample: Duplex<f64>,
    I: Interpolator<Frame = F>,
    S: Signal<Frame = F>,
{
    let p: Vec<i128> = ctor[1..].iter().map(|t| t.parse().unwrap()).collect();
    let mut out = Vec::new();
    let hd = line(0, &[pulls.get(), calls.get()]);
    let nops = ops.len();
    if ctor[0] == "mul" {
        let ctl: Vec<f64> = p.iter().map(|&b| bf(b)).collect();
        let m = match catch(move || src.mul_hz(interp, signal::from_iter(ctl))) {
            Ok(m) => m,
            Err(c) => return vec![line(8, &[c as i128])],
        };
        let mut m = Some(m);
        out.push(hd);
        for (k, op) in ops.iter().enumerate() {
            if op[0] == "u" {
                let cap: usize = op[1].parse().unwrap();
                let n = if k + 1 == nops {
                    m.take().unwrap().until_exhausted().take(cap).count()
                } else {
                    m.as_mut().unwrap().by_ref().until_exhausted().take(cap).count()
                };
                out.push(line(4, &[n as i128, pulls.get()]));
                continue;
            }
            let mm = m.as_mut().unwrap();
            // is_exhausted of the MulHz itself (not of the `&mut MulHz` this binding is)
            let exh = Signal::is_exhausted(&*mm) as i128;
            let f = mm.next();
            let mut v = vec![exh, pulls.get(), calls.get()];
            v.extend(f.enc());
            out.push(line(2, &v));
        }
        return out;
    }
    let mk = move || -> Converter<S, I> {
        match (ctor[0], own) {
            // own == 2: the associated constructors, handed the source (a `&mut` borrow) directly
            ("hz", 2) => Converter::from_hz_to_hz(src, interp, bf(p[0]), bf(p[1])),
            ("scale", 2) => Converter::scale_playback_hz(src, interp, bf(p[0])),
            ("hz", _) => src.from_hz_to_hz(interp, bf(p[0]), bf(p[1])),
            ("scale", _) => src.scale_hz(interp, bf(p[0])),
            ("sample", _) => Converter::scale_sample_hz(src, interp, bf(p[0])),
            _ => panic!("bad ctor"),
        }
    };
    let c = match catch(mk) {
        Ok(c) => c,
        Err(code) => return vec![line(8, &[code as i128])],
    };
    let mut c = Some(c);
    out.push(hd);
    for (k, op) in ops.iter().enumerate() {
        if op[0] == "rb" {
            let q: Vec<i128> = op[2..].iter().map(|t| t.parse().unwrap()).collect();
            let mut source = c.take().unwrap().into_source();
            let kind = op[1];
            let r = catch(move || {
                let i2 = prime(&mut source);
                match kind {
                    "hz" => Converter::from_hz_to_hz(source, i2, bf(q[0]), bf(q[1])),
                    "scale" => Converter::scale_playback_hz(source, i2, bf(q[0])),
                    "sample" => Converter::scale_sample_hz(source, i2, bf(q[0])),
                    _ => panic!("bad ctor"),
                }
            });
            match r {
                Ok(c2) => {
                    c = Some(c2);
                    out.push(line(0, &[pulls.get(), calls.get()]));
                }
                Err(code) => {
                    out.push(line(8, &[code as i128]));
                    return out;
                }
            }
            continue;
        }
        let a: Vec<i128> = op[1..].iter().map(|t| t.parse().unwrap()).collect();
        match op[0] {
            "n" => {
                let c = c.as_mut().unwrap();
                // is_exhausted of the Converter itself (not of the `&mut Converter` this binding is)
                let exh = Signal::is_exhausted(&*c) as i128;
                let f = c.next();
                let mut v = vec![exh, pulls.get(), calls.get(), f64_bits(c.verif_interpolation_value())];
                v.extend(f.enc());
                out.push(line(1, &v));
            }
            "p" => {
                c.as_mut().unwrap().set_playback_hz_scale(bf(a[0]));
                out.push(line(3, &[]));
            }
            "h" => {
                c.as_mut().unwrap().set_hz_to_hz(bf(a[0]), bf(a[1]));
                out.push(line(3, &[]));
            }
            "s" => {
                c.as_mut().unwrap().set_sample_hz_scale(bf(a[0]));
                out.push(line(3, &[]));
            }
            "u" => {
                let cap = a[0] as usize;
                let n = if k + 1 == nops {
                    c.take().unwrap().until_exhausted().take(cap).count()
                } else {
                    c.as_mut().unwrap().by_ref().until_exhausted().take(cap).count()
                };
                out.push(line(4, &[n as i128, pulls.get()]));
            }
            "src" => {
                let s = c.as_ref().unwrap().source();
                out.push(line(6, &[s.is_exhausted() as i128, pulls.get(), calls.get()]));
            }
            "pull" => {
                let f = c.as_mut().unwrap().source_mut().next();
                let mut v = vec![pulls.get(), calls.get()];
                v.extend(f.enc());
                out.push(line(7, &v));
            }
            _ => panic!("bad op"),
        }
    }
    out
}

// The per-format driver is expanded at a MONOMORPHIC call site (macro `go!` in main, `type F = <concrete type>`), not
// written as a function generic in the frame type: the harness must keep compiling when a trait bound of a public
// impl (say `impl Interpolator for Linear<F>`) changes in a way every concrete format still satisfies, so that such a
// change is judged by its behaviour and not reported as a harness that no longer builds.
fn main() {
    serve(|l| {
        let parts: Vec<&str> = l.split(';').collect();
        let h = toks(parts[0]);
        let (fmt, itp, nch, own, tail) = (h[0], h[1], h[2] as usize, h[3], h[4]);
        let samples = toks(parts[1]);
        let ctor: Vec<&str> = parts[2].split_whitespace().collect();
        let ops: Vec<Vec<&str>> = parts[3]
            .split(',')
            .map(|o| o.split_whitespace().collect::<Vec<_>>())
            .filter(|o| !o.is_empty())
            .collect();
        macro_rules! go {
            ($T:ty) => {
                (|| -> Vec<String> {
                    type F = $T;
            
                let frames: Vec<F> = samples.chunks(nch).map(|c| F::dec(c)).collect();
                let calls = Rc::new(Cell::new(0));
                let pulls = Rc::new(Cell::new(0));
                let it = CountIter { frames: frames.into_iter(), calls: calls.clone() };
                let mut src = Counted { inner: signal::from_iter(it), pulls: pulls.clone() };
                let mut out = if itp == 0 {
                    let interp = Floor::new(src.next());
                    match own {
                        0 => return drive(src, interp, prime_floor, &pulls, &calls, own, &ctor, &ops),
                        1 => drive(src.by_ref(), interp, prime_floor, &pulls, &calls, own, &ctor, &ops),
                        _ => drive(&mut src, interp, prime_floor, &pulls, &calls, own, &ctor, &ops),
                    }
                } else {
                    let a = src.next();
                    let b = src.next();
                    let interp = Linear::new(a, b);
                    match own {
                        0 => return drive(src, interp, prime_linear, &pulls, &calls, own, &ctor, &ops),
                        1 => drive(src.by_ref(), interp, prime_linear, &pulls, &calls, own, &ctor, &ops),
                        _ => drive(&mut src, interp, prime_linear, &pulls, &calls, own, &ctor, &ops),
                    }
                };
                // the converter is gone: the borrowed source continues exactly where it was left
                if out.len() == 1 && out[0].starts_with("8") {
                    return out;
                }
                for _ in 0..tail {
                    let exh = Signal::is_exhausted(&src) as i128;
                    let f = src.next();
                    let mut v = vec![exh, pulls.get(), calls.get()];
                    v.extend(f.enc());
                    out.push(line(5, &v));
                }
                out
            
                })()
            };
        }
        let out = match (fmt, nch) {
            (0, 1) | (113, 1) => go!(f64),
            (1, 1) | (112, 1) => go!(f32),
            (2, 1) | (101, 1) => go!(i16),
            (2, 2) | (101, 2) => go!([i16; 2]),
            (3, 1) | (106, 1) => go!(u8),
            (100, 1) => go!(i8),
            (102, 1) => go!(I24),
            (103, 1) => go!(i32),
            (104, 1) => go!(I48),
            (105, 1) => go!(i64),
            (107, 1) => go!(u16),
            (108, 1) => go!(U24),
            (108, 2) => go!([U24; 2]),
            (109, 1) => go!(u32),
            (110, 1) => go!(U48),
            (110, 2) => go!([U48; 2]),
            (111, 1) => go!(u64),
            _ => panic!("bad format"),
        };
        out.join(";")
    });
}
