//! C08: drives the real rate converter (dasp_signal::interpolate::Converter through
//! Signal::from_hz_to_hz / scale_hz / mul_hz and Converter::scale_sample_hz, set_*), with the
//! Floor and Linear interpolators primed from the source as the public API does, over an
//! instrumented finite source (signal::from_iter over a counting iterator, wrapped in a
//! Signal that counts `next` calls).
//!
//! Input line:  `<fmt> <itp> <nch> ; <samples, frame-major> ; <ctor> ; <op> , <op> , ...`
//!   fmt  0 f64, 1 f32, 2 i16 (nch 1: bare sample frame, nch 2: [i16; 2]), 3 u8
//!   itp  0 Floor::new(source.next()), 1 Linear::new(source.next(), source.next())
//!   ctor `hz a b` | `scale m` | `sample m` | `mul c0 c1 ...`      (f64 bit patterns)
//!   op   `n` next | `p x` set_playback_hz_scale | `h a b` set_hz_to_hz | `s x` set_sample_hz_scale
//! Output: observations joined by ';'
//!   `0 pulls iter`                       after priming + construction
//!   `8 code`                             constructor panicked (then nothing else)
//!   `1 exh pulls iter valuebits frame..` one output of a Converter (exh = is_exhausted before it)
//!   `2 exh pulls iter frame..`           one output of a MulHz
//!   `3`                                  a set_* call
//! floats are bit patterns, NaN canonicalised.
use dasp_frame::Frame;
use dasp_interpolate::floor::Floor;
use dasp_interpolate::linear::Linear;
use dasp_interpolate::Interpolator;
use dasp_sample::Duplex;
use dasp_signal::interpolate::Converter;
use dasp_signal::{self as signal, Signal};
use dasp_verif_harness::*;
use std::cell::Cell;
use std::rc::Rc;

fn f64_bits(x: f64) -> i128 {
    if x.is_nan() {
        0x7ff8_0000_0000_0000
    } else {
        x.to_bits() as i128
    }
}
fn f32_bits(x: f32) -> i128 {
    if x.is_nan() {
        0x7fc0_0000
    } else {
        x.to_bits() as i128
    }
}
fn bf(x: i128) -> f64 {
    f64::from_bits(x as u64)
}

trait Enc: Frame {
    fn enc(&self) -> Vec<i128>;
    fn dec(v: &[i128]) -> Self;
}
impl Enc for f64 {
    fn enc(&self) -> Vec<i128> {
        vec![f64_bits(*self)]
    }
    fn dec(v: &[i128]) -> Self {
        f64::from_bits(v[0] as u64)
    }
}
impl Enc for f32 {
    fn enc(&self) -> Vec<i128> {
        vec![f32_bits(*self)]
    }
    fn dec(v: &[i128]) -> Self {
        f32::from_bits(v[0] as u32)
    }
}
impl Enc for i16 {
    fn enc(&self) -> Vec<i128> {
        vec![*self as i128]
    }
    fn dec(v: &[i128]) -> Self {
        v[0] as i16
    }
}
impl Enc for u8 {
    fn enc(&self) -> Vec<i128> {
        vec![*self as i128]
    }
    fn dec(v: &[i128]) -> Self {
        v[0] as u8
    }
}
impl Enc for [i16; 2] {
    fn enc(&self) -> Vec<i128> {
        vec![self[0] as i128, self[1] as i128]
    }
    fn dec(v: &[i128]) -> Self {
        [v[0] as i16, v[1] as i16]
    }
}

/// Iterator over the given frames counting Iterator::next calls.
struct CountIter<F> {
    frames: std::vec::IntoIter<F>,
    calls: Rc<Cell<i128>>,
}
impl<F> Iterator for CountIter<F> {
    type Item = F;
    fn next(&mut self) -> Option<F> {
        self.calls.set(self.calls.get() + 1);
        self.frames.next()
    }
}

/// Signal wrapper counting Signal::next calls (the pulls the converter makes).
struct Counted<S> {
    inner: S,
    pulls: Rc<Cell<i128>>,
}
impl<S: Signal> Signal for Counted<S> {
    type Frame = S::Frame;
    fn next(&mut self) -> S::Frame {
        self.pulls.set(self.pulls.get() + 1);
        self.inner.next()
    }
    fn is_exhausted(&self) -> bool {
        self.inner.is_exhausted()
    }
}

fn line(tag: i128, v: &[i128]) -> String {
    let mut s = tag.to_string();
    for x in v {
        s.push(' ');
        s.push_str(&x.to_string());
    }
    s
}

fn toks(s: &str) -> Vec<i128> {
    s.split_whitespace().map(|t| t.parse::<i128>().expect("int token")).collect()
}

fn drive<F, I>(
    src: Counted<signal::FromIterator<CountIter<F>>>,
    interp: I,
    pulls: &Rc<Cell<i128>>,
    calls: &Rc<Cell<i128>>,
    ctor: &[&str],
    ops: &[Vec<&str>],
) -> Vec<String>
where
    F: Enc,
    F::Sample: Duplex<f64>,
    I: Interpolator<Frame = F>,
{
    let p: Vec<i128> = ctor[1..].iter().map(|t| t.parse().unwrap()).collect();
    let mut out = Vec::new();
    let hd = line(0, &[pulls.get(), calls.get()]);
    if ctor[0] == "mul" {
        let ctl: Vec<f64> = p.iter().map(|&b| bf(b)).collect();
        let mut m = match catch(move || src.mul_hz(interp, signal::from_iter(ctl))) {
            Ok(m) => m,
            Err(c) => return vec![line(8, &[c as i128])],
        };
        out.push(hd);
        for _ in ops {
            let exh = m.is_exhausted() as i128;
            let f = m.next();
            let mut v = vec![exh, pulls.get(), calls.get()];
            v.extend(f.enc());
            out.push(line(2, &v));
        }
        return out;
    }
    let mk = move || -> Converter<_, I> {
        match ctor[0] {
            "hz" => src.from_hz_to_hz(interp, bf(p[0]), bf(p[1])),
            "scale" => src.scale_hz(interp, bf(p[0])),
            "sample" => Converter::scale_sample_hz(src, interp, bf(p[0])),
            _ => panic!("bad ctor"),
        }
    };
    let mut c = match catch(mk) {
        Ok(c) => c,
        Err(code) => return vec![line(8, &[code as i128])],
    };
    out.push(hd);
    for op in ops {
        let a: Vec<i128> = op[1..].iter().map(|t| t.parse().unwrap()).collect();
        match op[0] {
            "n" => {
                let exh = c.is_exhausted() as i128;
                let f = c.next();
                let mut v = vec![exh, pulls.get(), calls.get(), f64_bits(c.verif_interpolation_value())];
                v.extend(f.enc());
                out.push(line(1, &v));
            }
            "p" => {
                c.set_playback_hz_scale(bf(a[0]));
                out.push(line(3, &[]));
            }
            "h" => {
                c.set_hz_to_hz(bf(a[0]), bf(a[1]));
                out.push(line(3, &[]));
            }
            "s" => {
                c.set_sample_hz_scale(bf(a[0]));
                out.push(line(3, &[]));
            }
            _ => panic!("bad op"),
        }
    }
    out
}

fn run_fmt<F>(itp: i128, nch: usize, samples: &[i128], ctor: &[&str], ops: &[Vec<&str>]) -> Vec<String>
where
    F: Enc,
    F::Sample: Duplex<f64>,
{
    let frames: Vec<F> = samples.chunks(nch).map(|c| F::dec(c)).collect();
    let calls = Rc::new(Cell::new(0));
    let pulls = Rc::new(Cell::new(0));
    let it = CountIter { frames: frames.into_iter(), calls: calls.clone() };
    let mut src = Counted { inner: signal::from_iter(it), pulls: pulls.clone() };
    if itp == 0 {
        let interp = Floor::new(src.next());
        drive(src, interp, &pulls, &calls, ctor, ops)
    } else {
        let a = src.next();
        let b = src.next();
        let interp = Linear::new(a, b);
        drive(src, interp, &pulls, &calls, ctor, ops)
    }
}

fn main() {
    serve(|l| {
        let parts: Vec<&str> = l.split(';').collect();
        let h = toks(parts[0]);
        let (fmt, itp, nch) = (h[0], h[1], h[2] as usize);
        let samples = toks(parts[1]);
        let ctor: Vec<&str> = parts[2].split_whitespace().collect();
        let ops: Vec<Vec<&str>> = parts[3]
            .split(',')
            .map(|o| o.split_whitespace().collect::<Vec<_>>())
            .filter(|o| !o.is_empty())
            .collect();
        let out = match (fmt, nch) {
            (0, 1) => run_fmt::<f64>(itp, 1, &samples, &ctor, &ops),
            (1, 1) => run_fmt::<f32>(itp, 1, &samples, &ctor, &ops),
            (2, 1) => run_fmt::<i16>(itp, 1, &samples, &ctor, &ops),
            (2, 2) => run_fmt::<[i16; 2]>(itp, 2, &samples, &ctor, &ops),
            (3, 1) => run_fmt::<u8>(itp, 1, &samples, &ctor, &ops),
            _ => panic!("bad format"),
        };
        out.join(";")
    });
}
