//! C20: drives dasp_signal::window::{Window, Windower, Windowed, hann, rectangle} and the
//! dasp_window::{Hann, Rectangle} functions (through the dasp_window::Window trait).
//!
//! Input line (windower case):
//!   `W <wk> <fk> <nch> <bin> <hop> <maxn> <L> d...`
//!     wk: 0 Hann, 1 Rectangle; fk: 0 f32, 1 f64, 2 i16, 100+c = format code c of all fourteen
//!     (0 i8 1 i16 2 I24 3 i32 4 I48 5 i64 6 u8 7 u16 8 U24 9 u32 10 U48 11 u64 12 f32 13 f64; I24.. travel as
//!     their inner value); nch: 1 (bare sample / [i16;1]) or 2 ([S;2]);
//!     maxn: maximal number of next() calls; d: L*nch samples (floats as bit patterns).
//! Output: observations joined by ';'
//!   100 phases of Window::<f64,W>::new(bin) (bin+2 of them, f64 bits, read from the pub `phase` field)
//!   101 Window::<f64,W> values (helper fn hann/rectangle), bin+2, f64 bits
//!   102 Window::<F::Float,W> values, bin+2 frames flattened (bits of F::Float samples)
//!   103 W::window(phase) through the dasp_window::Window trait for the phases of 100
//!   104 Window::<F,W> values in the frame's OWN format (window value -> S::Float -> S), bin+2 frames flattened
//!   then repeatedly:  `1 lo 1 hi` | `1 lo 0`  (size_hint before next)
//!                     `2 samples...` (bin+2 frames of the yielded Windowed, flattened) | `3` (None)
//!   after the first None: size_hint and next once more.   `8 code` = panic.
//! Input line (window functions): `H <np> p... <nq> q...` (p: f32 bits, q: i16 values), see run_h.
//! Input line (provided Iterator methods): `I <wk> <fk> <nch> <bin> <hop> <np> <L> d... ; op , op , ...`
//!   bin >= 1, hop >= 1.  Observations: 100 / 101 as above with np phases / values, then per op its result
//!   followed by the windower's size_hint.  Ops on the (persistent) Windower `wr`:
//!     next | nth k (by reference) | skip k (clone().skip(k).next()) | last (clone) | lastref (by_ref().last())
//!     | count (clone) | countref (by_ref().count()) | fold (clone, counting) | stepby k t (clone().step_by(k).take(t))
//!     | collect (clone().collect::<Vec<_>>())
//!   chunk results: `2 samples...` (bin+1 frames of the Windowed) | `3`; counts `4 n`; lists `5 n` then n chunks.
//!   Ops on the persistent Window::<f64,W>::new(bin) `win`: wnth k (by reference) | wskip k | wtakelast n | wstepby k t
//!     results `6 bits` | `3` | `7 bits...`.
//!   Ops on the Windowed of wr.clone().next(): cnth k (nth(k) then next(): two frames) | cskip k | ctakelast n.
use dasp_frame::Frame;
use dasp_sample::{Sample, I24, I48, U24, U48};
use dasp_signal::window::{self, Window, Windower};
use dasp_verif_harness::*;
use dasp_window::{Hann, Rectangle, Window as WindowType};

fn b64(x: f64) -> i128 {
    if x.is_nan() {
        0x7ff8_0000_0000_0000
    } else {
        x.to_bits() as i128
    }
}
fn b32(x: f32) -> i128 {
    if x.is_nan() {
        0x7fc0_0000
    } else {
        x.to_bits() as i128
    }
}

fn ob(tag: i64, v: &[i128]) -> String {
    let mut s = tag.to_string();
    for x in v {
        s.push(' ');
        s.push_str(&x.to_string());
    }
    s
}

/// sample <-> integer encoding
trait Sx: Sample {
    fn dec(v: i128) -> Self;
    fn enc(self) -> i128;
}
impl Sx for f32 {
    fn dec(v: i128) -> Self {
        f32::from_bits(v as u32)
    }
    fn enc(self) -> i128 {
        b32(self)
    }
}
impl Sx for f64 {
    fn dec(v: i128) -> Self {
        f64::from_bits(v as u64)
    }
    fn enc(self) -> i128 {
        b64(self)
    }
}
macro_rules! sx_int {
    ($($t:ty)*) => {$(
        impl Sx for $t {
            fn dec(v: i128) -> Self {
                v as $t
            }
            fn enc(self) -> i128 {
                self as i128
            }
        }
    )*};
}
sx_int!(i8 i16 i32 i64 u8 u16 u32 u64);
macro_rules! sx_custom {
    ($($t:ty, $r:ty);*) => {$(
        impl Sx for $t {
            fn dec(v: i128) -> Self {
                <$t>::new_unchecked(v as $r)
            }
            fn enc(self) -> i128 {
                self.inner() as i128
            }
        }
    )*};
}
sx_custom!(I24, i32; U24, i32; I48, i64; U48, i64);

fn enc_frame<F: Frame>(f: F, out: &mut Vec<i128>)
where
    F::Sample: Sx,
{
    for s in f.channels() {
        out.push(s.enc());
    }
}

fn dec_frames<F: Frame>(d: &[i128]) -> Vec<F>
where
    F::Sample: Sx,
{
    let n = F::CHANNELS;
    d.chunks(n)
        .map(|c| {
            let mut it = c.iter();
            F::from_fn(|_| <F::Sample as Sx>::dec(*it.next().unwrap()))
        })
        .collect()
}

fn hint(h: (usize, Option<usize>)) -> String {
    match h.1 {
        Some(hi) => ob(1, &[h.0 as i128, 1, hi as i128]),
        None => ob(1, &[h.0 as i128, 0]),
    }
}

/// the per-window-type constructors of dasp_signal::window
trait Wk: WindowType<f64, Output = f64> + Sized {
    fn mk<'a, F: Frame>(fr: &'a [F], bin: usize, hop: usize) -> Windower<'a, F, Self>;
    fn win64(n: usize) -> Window<f64, Self>;
}
impl Wk for Hann {
    fn mk<'a, F: Frame>(fr: &'a [F], bin: usize, hop: usize) -> Windower<'a, F, Self> {
        Windower::hann(fr, bin, hop)
    }
    fn win64(n: usize) -> Window<f64, Self> {
        window::hann::<f64>(n)
    }
}
impl Wk for Rectangle {
    fn mk<'a, F: Frame>(fr: &'a [F], bin: usize, hop: usize) -> Windower<'a, F, Self> {
        Windower::rectangle(fr, bin, hop)
    }
    fn win64(n: usize) -> Window<f64, Self> {
        window::rectangle::<f64>(n)
    }
}

fn run_w<F, W>(
    bin: usize,
    hop: usize,
    maxn: usize,
    data: &[i128],
) -> Vec<String>
where
    F: Frame,
    F::Sample: Sx,
    <F::Float as Frame>::Sample: Sx,
    W: Wk,
{
    let mut out = Vec::new();
    let m = bin + 2;
    // phases, read from the public `phase` field of a Window
    let mut win = Window::<f64, W>::new(bin);
    let phases: Vec<f64> = (0..m).map(|_| win.phase.next_phase()).collect();
    out.push(ob(100, &phases.iter().map(|p| b64(*p)).collect::<Vec<_>>()));
    let wv: Vec<i128> = W::win64(bin).take(m).map(b64).collect();
    out.push(ob(101, &wv));
    let mut wf = Vec::new();
    for fr in Window::<F::Float, W>::new(bin).take(m) {
        enc_frame(fr, &mut wf);
    }
    out.push(ob(102, &wf));
    out.push(ob(103, &phases.iter().map(|p| b64(W::window(*p))).collect::<Vec<_>>()));
    let mut wo = Vec::new();
    for fr in Window::<F, W>::new(bin).take(m) {
        enc_frame(fr, &mut wo);
    }
    out.push(ob(104, &wo));

    let frames: Vec<F> = dec_frames(data);
    let mut wr = W::mk(&frames[..], bin, hop);
    let chunk = |wr: &mut Windower<F, W>| -> String {
        match catch(|| wr.next().map(|c| c.take(m).collect::<Vec<F>>())) {
            Ok(Some(fs)) => {
                let mut v = Vec::new();
                for f in fs {
                    enc_frame(f, &mut v);
                }
                ob(2, &v)
            }
            Ok(None) => "3".to_string(),
            Err(c) => ob(8, &[c as i128]),
        }
    };
    let sh = |wr: &Windower<F, W>| -> String {
        match catch(|| wr.size_hint()) {
            Ok(h) => hint(h),
            Err(c) => ob(8, &[c as i128]),
        }
    };
    for _ in 0..maxn {
        out.push(sh(&wr));
        let c = chunk(&mut wr);
        let ended = !c.starts_with("2");
        out.push(c);
        if ended {
            out.push(sh(&wr));
            out.push(chunk(&mut wr));
            break;
        }
    }
    out
}

fn run_i<F, W>(bin: usize, hop: usize, np: usize, data: &[i128], ops: &[Vec<&str>]) -> Vec<String>
where
    F: Frame,
    F::Sample: Sx,
    <F::Float as Frame>::Sample: Sx,
    W: Wk + Clone,
{
    let mut out = Vec::new();
    let mut pw = Window::<f64, W>::new(bin);
    let phases: Vec<f64> = (0..np).map(|_| pw.phase.next_phase()).collect();
    out.push(ob(100, &phases.iter().map(|p| b64(*p)).collect::<Vec<_>>()));
    out.push(ob(101, &W::win64(bin).take(np).map(b64).collect::<Vec<_>>()));
    let frames: Vec<F> = dec_frames(data);
    let mut wr = W::mk(&frames[..], bin, hop);
    let mut win = W::win64(bin);
    let m = bin + 1;
    fn frames_of<F: Frame>(fs: Vec<F>) -> String
    where
        F::Sample: Sx,
    {
        let mut v = Vec::new();
        for f in fs {
            enc_frame(f, &mut v);
        }
        ob(2, &v)
    }
    for op in ops {
        let a: Vec<usize> = op[1..].iter().map(|t| t.parse().unwrap()).collect();
        let r: Result<Vec<String>, i64> = catch(|| {
            let chunk = |c: Option<window::Windowed<_, W>>| -> String {
                match c {
                    Some(c) => frames_of(c.take(m).collect::<Vec<F>>()),
                    None => "3".to_string(),
                }
            };
            let val = |v: Option<f64>| match v {
                Some(v) => ob(6, &[b64(v)]),
                None => "3".to_string(),
            };
            match op[0] {
                "next" => vec![chunk(wr.next())],
                "nth" => vec![chunk(wr.nth(a[0]))],
                "skip" => vec![chunk(wr.clone().skip(a[0]).next())],
                "last" => vec![chunk(wr.clone().last())],
                "lastref" => vec![chunk(wr.by_ref().last())],
                "count" => vec![ob(4, &[wr.clone().count() as i128])],
                "countref" => vec![ob(4, &[wr.by_ref().count() as i128])],
                "fold" => vec![ob(4, &[wr.clone().fold(0i128, |n, _| n + 1)])],
                "stepby" | "collect" => {
                    let cs: Vec<_> = if op[0] == "collect" {
                        wr.clone().collect()
                    } else {
                        wr.clone().step_by(a[0]).take(a[1]).collect()
                    };
                    let mut v = vec![ob(5, &[cs.len() as i128])];
                    for c in cs {
                        v.push(chunk(Some(c)));
                    }
                    v
                }
                "wnth" => vec![val(win.nth(a[0]))],
                "wskip" => vec![val(win.clone().skip(a[0]).next())],
                "wtakelast" => vec![val(win.clone().take(a[0]).last())],
                "wstepby" => vec![ob(7, &win.clone().step_by(a[0]).take(a[1]).map(b64).collect::<Vec<_>>())],
                "cnth" => vec![match wr.clone().next() {
                    None => "3".to_string(),
                    Some(mut c) => {
                        let x = c.nth(a[0]).unwrap();
                        let y = c.next().unwrap();
                        frames_of(vec![x, y])
                    }
                }],
                "cskip" => vec![match wr.clone().next() {
                    None => "3".to_string(),
                    Some(c) => frames_of(vec![c.skip(a[0]).next().unwrap()]),
                }],
                "ctakelast" => vec![match wr.clone().next() {
                    None => "3".to_string(),
                    Some(c) => match c.take(a[0]).last() {
                        Some(f) => frames_of(vec![f]),
                        None => "3".to_string(),
                    },
                }],
                _ => panic!("op"),
            }
        });
        match r {
            Ok(v) => out.extend(v),
            Err(c) => out.push(ob(8, &[c as i128])),
        }
        out.push(match catch(|| wr.size_hint()) {
            Ok(h) => hint(h),
            Err(c) => ob(8, &[c as i128]),
        });
    }
    out
}

fn dispatch_i<F>(wk: i128, bin: usize, hop: usize, np: usize, data: &[i128], ops: &[Vec<&str>]) -> Vec<String>
where
    F: Frame,
    F::Sample: Sx,
    <F::Float as Frame>::Sample: Sx,
{
    if wk == 0 {
        run_i::<F, Hann>(bin, hop, np, data, ops)
    } else {
        run_i::<F, Rectangle>(bin, hop, np, data, ops)
    }
}

fn run_h(ps: &[i128], qs: &[i128]) -> Vec<String> {
    let ps: Vec<f32> = ps.iter().map(|p| f32::from_bits(*p as u32)).collect();
    let qs: Vec<i16> = qs.iter().map(|q| *q as i16).collect();
    let qph: Vec<f64> = qs.iter().map(|q| q.to_float_sample().to_sample::<f64>()).collect();
    vec![
        ob(110, &ps.iter().map(|p| b64(<Hann as WindowType<f64>>::window(*p as f64))).collect::<Vec<_>>()),
        ob(111, &ps.iter().map(|p| b32(<Hann as WindowType<f32>>::window(*p))).collect::<Vec<_>>()),
        ob(112, &ps.iter().map(|p| b64(<Rectangle as WindowType<f64>>::window(*p as f64))).collect::<Vec<_>>()),
        ob(113, &ps.iter().map(|p| b32(<Rectangle as WindowType<f32>>::window(*p))).collect::<Vec<_>>()),
        ob(116, &qph.iter().map(|p| b64(<Hann as WindowType<f64>>::window(*p))).collect::<Vec<_>>()),
        ob(115, &qs.iter().map(|q| <Hann as WindowType<i16>>::window(*q) as i128).collect::<Vec<_>>()),
        ob(114, &qs.iter().map(|q| <Rectangle as WindowType<i16>>::window(*q) as i128).collect::<Vec<_>>()),
        ob(117, &qph.iter().map(|p| b64(*p)).collect::<Vec<_>>()),
    ]
}

fn dispatch<F>(wk: i128, bin: usize, hop: usize, maxn: usize, data: &[i128]) -> Vec<String>
where
    F: Frame,
    F::Sample: Sx,
    <F::Float as Frame>::Sample: Sx,
{
    if wk == 0 {
        run_w::<F, Hann>(bin, hop, maxn, data)
    } else {
        run_w::<F, Rectangle>(bin, hop, maxn, data)
    }
}

fn main() {
    serve(|line| {
        let (line, opstr) = match line.find(';') {
            Some(i) => (&line[..i], &line[i + 1..]),
            None => (line, ""),
        };
        let mut it = line.split_whitespace();
        let kind = it.next().unwrap_or("");
        let a: Vec<i128> = it.map(|t| t.parse::<i128>().expect("int token")).collect();
        let out = match kind {
            "W" => {
                let (wk, fk, nch) = (a[0], a[1], a[2]);
                let (bin, hop, maxn) = (a[3] as usize, a[4] as usize, a[5] as usize);
                let l = a[6] as usize;
                let data = &a[7..];
                assert_eq!(data.len(), l * nch as usize, "data length");
                match (fk, nch) {
                    (0, 1) => dispatch::<f32>(wk, bin, hop, maxn, data),
                    (0, 2) => dispatch::<[f32; 2]>(wk, bin, hop, maxn, data),
                    (1, 1) => dispatch::<f64>(wk, bin, hop, maxn, data),
                    (1, 2) => dispatch::<[f64; 2]>(wk, bin, hop, maxn, data),
                    (2, 1) => dispatch::<[i16; 1]>(wk, bin, hop, maxn, data),
                    (2, 2) => dispatch::<[i16; 2]>(wk, bin, hop, maxn, data),
                    (100, 1) => dispatch::<i8>(wk, bin, hop, maxn, data),
                    (100, 2) => dispatch::<[i8; 2]>(wk, bin, hop, maxn, data),
                    (100, 3) => dispatch::<[i8; 3]>(wk, bin, hop, maxn, data),
                    (101, 1) => dispatch::<i16>(wk, bin, hop, maxn, data),
                    (101, 2) => dispatch::<[i16; 2]>(wk, bin, hop, maxn, data),
                    (101, 3) => dispatch::<[i16; 3]>(wk, bin, hop, maxn, data),
                    (102, 1) => dispatch::<I24>(wk, bin, hop, maxn, data),
                    (102, 2) => dispatch::<[I24; 2]>(wk, bin, hop, maxn, data),
                    (102, 3) => dispatch::<[I24; 3]>(wk, bin, hop, maxn, data),
                    (103, 1) => dispatch::<i32>(wk, bin, hop, maxn, data),
                    (103, 2) => dispatch::<[i32; 2]>(wk, bin, hop, maxn, data),
                    (103, 3) => dispatch::<[i32; 3]>(wk, bin, hop, maxn, data),
                    (104, 1) => dispatch::<I48>(wk, bin, hop, maxn, data),
                    (104, 2) => dispatch::<[I48; 2]>(wk, bin, hop, maxn, data),
                    (104, 3) => dispatch::<[I48; 3]>(wk, bin, hop, maxn, data),
                    (105, 1) => dispatch::<i64>(wk, bin, hop, maxn, data),
                    (105, 2) => dispatch::<[i64; 2]>(wk, bin, hop, maxn, data),
                    (105, 3) => dispatch::<[i64; 3]>(wk, bin, hop, maxn, data),
                    (106, 1) => dispatch::<u8>(wk, bin, hop, maxn, data),
                    (106, 2) => dispatch::<[u8; 2]>(wk, bin, hop, maxn, data),
                    (106, 3) => dispatch::<[u8; 3]>(wk, bin, hop, maxn, data),
                    (107, 1) => dispatch::<u16>(wk, bin, hop, maxn, data),
                    (107, 2) => dispatch::<[u16; 2]>(wk, bin, hop, maxn, data),
                    (107, 3) => dispatch::<[u16; 3]>(wk, bin, hop, maxn, data),
                    (108, 1) => dispatch::<U24>(wk, bin, hop, maxn, data),
                    (108, 2) => dispatch::<[U24; 2]>(wk, bin, hop, maxn, data),
                    (108, 3) => dispatch::<[U24; 3]>(wk, bin, hop, maxn, data),
                    (109, 1) => dispatch::<u32>(wk, bin, hop, maxn, data),
                    (109, 2) => dispatch::<[u32; 2]>(wk, bin, hop, maxn, data),
                    (109, 3) => dispatch::<[u32; 3]>(wk, bin, hop, maxn, data),
                    (110, 1) => dispatch::<U48>(wk, bin, hop, maxn, data),
                    (110, 2) => dispatch::<[U48; 2]>(wk, bin, hop, maxn, data),
                    (110, 3) => dispatch::<[U48; 3]>(wk, bin, hop, maxn, data),
                    (111, 1) => dispatch::<u64>(wk, bin, hop, maxn, data),
                    (111, 2) => dispatch::<[u64; 2]>(wk, bin, hop, maxn, data),
                    (111, 3) => dispatch::<[u64; 3]>(wk, bin, hop, maxn, data),
                    (112, 1) => dispatch::<f32>(wk, bin, hop, maxn, data),
                    (112, 2) => dispatch::<[f32; 2]>(wk, bin, hop, maxn, data),
                    (112, 3) => dispatch::<[f32; 3]>(wk, bin, hop, maxn, data),
                    (113, 1) => dispatch::<f64>(wk, bin, hop, maxn, data),
                    (113, 2) => dispatch::<[f64; 2]>(wk, bin, hop, maxn, data),
                    (113, 3) => dispatch::<[f64; 3]>(wk, bin, hop, maxn, data),
                    _ => panic!("frame kind"),
                }
            }
            "I" => {
                let (wk, fk, nch) = (a[0], a[1], a[2]);
                let (bin, hop, np) = (a[3] as usize, a[4] as usize, a[5] as usize);
                let l = a[6] as usize;
                let data = &a[7..];
                assert_eq!(data.len(), l * nch as usize, "data length");
                assert!(bin >= 1 && hop >= 1, "endless windower");
                let ops: Vec<Vec<&str>> = opstr
                    .split(',')
                    .map(|o| o.split_whitespace().collect::<Vec<_>>())
                    .filter(|o| !o.is_empty())
                    .collect();
                match (fk, nch) {
                    (0, 1) => dispatch_i::<f32>(wk, bin, hop, np, data, &ops),
                    (0, 2) => dispatch_i::<[f32; 2]>(wk, bin, hop, np, data, &ops),
                    (1, 1) => dispatch_i::<f64>(wk, bin, hop, np, data, &ops),
                    (1, 2) => dispatch_i::<[f64; 2]>(wk, bin, hop, np, data, &ops),
                    (2, 1) => dispatch_i::<[i16; 1]>(wk, bin, hop, np, data, &ops),
                    (2, 2) => dispatch_i::<[i16; 2]>(wk, bin, hop, np, data, &ops),
                    (100, 1) => dispatch_i::<i8>(wk, bin, hop, np, data, &ops),
                    (100, 2) => dispatch_i::<[i8; 2]>(wk, bin, hop, np, data, &ops),
                    (100, 3) => dispatch_i::<[i8; 3]>(wk, bin, hop, np, data, &ops),
                    (101, 1) => dispatch_i::<i16>(wk, bin, hop, np, data, &ops),
                    (101, 2) => dispatch_i::<[i16; 2]>(wk, bin, hop, np, data, &ops),
                    (101, 3) => dispatch_i::<[i16; 3]>(wk, bin, hop, np, data, &ops),
                    (102, 1) => dispatch_i::<I24>(wk, bin, hop, np, data, &ops),
                    (102, 2) => dispatch_i::<[I24; 2]>(wk, bin, hop, np, data, &ops),
                    (102, 3) => dispatch_i::<[I24; 3]>(wk, bin, hop, np, data, &ops),
                    (103, 1) => dispatch_i::<i32>(wk, bin, hop, np, data, &ops),
                    (103, 2) => dispatch_i::<[i32; 2]>(wk, bin, hop, np, data, &ops),
                    (103, 3) => dispatch_i::<[i32; 3]>(wk, bin, hop, np, data, &ops),
                    (104, 1) => dispatch_i::<I48>(wk, bin, hop, np, data, &ops),
                    (104, 2) => dispatch_i::<[I48; 2]>(wk, bin, hop, np, data, &ops),
                    (104, 3) => dispatch_i::<[I48; 3]>(wk, bin, hop, np, data, &ops),
                    (105, 1) => dispatch_i::<i64>(wk, bin, hop, np, data, &ops),
                    (105, 2) => dispatch_i::<[i64; 2]>(wk, bin, hop, np, data, &ops),
                    (105, 3) => dispatch_i::<[i64; 3]>(wk, bin, hop, np, data, &ops),
                    (106, 1) => dispatch_i::<u8>(wk, bin, hop, np, data, &ops),
                    (106, 2) => dispatch_i::<[u8; 2]>(wk, bin, hop, np, data, &ops),
                    (106, 3) => dispatch_i::<[u8; 3]>(wk, bin, hop, np, data, &ops),
                    (107, 1) => dispatch_i::<u16>(wk, bin, hop, np, data, &ops),
                    (107, 2) => dispatch_i::<[u16; 2]>(wk, bin, hop, np, data, &ops),
                    (107, 3) => dispatch_i::<[u16; 3]>(wk, bin, hop, np, data, &ops),
                    (108, 1) => dispatch_i::<U24>(wk, bin, hop, np, data, &ops),
                    (108, 2) => dispatch_i::<[U24; 2]>(wk, bin, hop, np, data, &ops),
                    (108, 3) => dispatch_i::<[U24; 3]>(wk, bin, hop, np, data, &ops),
                    (109, 1) => dispatch_i::<u32>(wk, bin, hop, np, data, &ops),
                    (109, 2) => dispatch_i::<[u32; 2]>(wk, bin, hop, np, data, &ops),
                    (109, 3) => dispatch_i::<[u32; 3]>(wk, bin, hop, np, data, &ops),
                    (110, 1) => dispatch_i::<U48>(wk, bin, hop, np, data, &ops),
                    (110, 2) => dispatch_i::<[U48; 2]>(wk, bin, hop, np, data, &ops),
                    (110, 3) => dispatch_i::<[U48; 3]>(wk, bin, hop, np, data, &ops),
                    (111, 1) => dispatch_i::<u64>(wk, bin, hop, np, data, &ops),
                    (111, 2) => dispatch_i::<[u64; 2]>(wk, bin, hop, np, data, &ops),
                    (111, 3) => dispatch_i::<[u64; 3]>(wk, bin, hop, np, data, &ops),
                    (112, 1) => dispatch_i::<f32>(wk, bin, hop, np, data, &ops),
                    (112, 2) => dispatch_i::<[f32; 2]>(wk, bin, hop, np, data, &ops),
                    (112, 3) => dispatch_i::<[f32; 3]>(wk, bin, hop, np, data, &ops),
                    (113, 1) => dispatch_i::<f64>(wk, bin, hop, np, data, &ops),
                    (113, 2) => dispatch_i::<[f64; 2]>(wk, bin, hop, np, data, &ops),
                    (113, 3) => dispatch_i::<[f64; 3]>(wk, bin, hop, np, data, &ops),
                    _ => panic!("frame kind"),
                }
            }
            "H" => {
                let np = a[0] as usize;
                let ps = &a[1..1 + np];
                let nq = a[1 + np] as usize;
                let qs = &a[2 + np..2 + np + nq];
                run_h(ps, qs)
            }
            _ => panic!("case kind"),
        };
        out.join(";")
    });
}
