//! C20: drives dasp_signal::window::{Window, Windower, Windowed, hann, rectangle} and the
//! dasp_window::{Hann, Rectangle} functions (through the dasp_window::Window trait).
//!
//! Input line (windower case):
//!   `W <wk> <fk> <nch> <bin> <hop> <maxn> <L> d...`
//!     wk: 0 Hann, 1 Rectangle; fk: 0 f32, 1 f64, 2 i16; nch: 1 (bare sample / [i16;1]) or 2 ([S;2]);
//!     maxn: maximal number of next() calls; d: L*nch samples (floats as bit patterns).
//! Output: observations joined by ';'
//!   100 phases of Window::<f64,W>::new(bin) (bin+2 of them, f64 bits, read from the pub `phase` field)
//!   101 Window::<f64,W> values (helper fn hann/rectangle), bin+2, f64 bits
//!   102 Window::<F::Float,W> values, bin+2 frames flattened (bits of F::Float samples)
//!   103 W::window(phase) through the dasp_window::Window trait for the phases of 100
//!   then repeatedly:  `1 lo 1 hi` | `1 lo 0`  (size_hint before next)
//!                     `2 samples...` (bin+2 frames of the yielded Windowed, flattened) | `3` (None)
//!   after the first None: size_hint and next once more.   `8 code` = panic.
//! Input line (window functions): `H <np> p... <nq> q...` (p: f32 bits, q: i16 values), see run_h.
use dasp_frame::Frame;
use dasp_sample::Sample;
use dasp_signal::window::{self, Window, Windower};
use dasp_verif_harness::*;
use dasp_window::{Hann, Rectangle, Window as WindowType};

fn b64(x: f64) -> i128 {
    if x.is_nan() {
        0x7ff8_0000_0000_0000
    } else {
        x.to_bits() as i128
    }
}
fn b32(x: f32) -> i128 {
    if x.is_nan() {
        0x7fc0_0000
    } else {
        x.to_bits() as i128
    }
}

fn ob(tag: i64, v: &[i128]) -> String {
    let mut s = tag.to_string();
    for x in v {
        s.push(' ');
        s.push_str(&x.to_string());
    }
    s
}

/// sample <-> integer encoding
trait Sx: Sample {
    fn dec(v: i128) -> Self;
    fn enc(self) -> i128;
}
impl Sx for f32 {
    fn dec(v: i128) -> Self {
        f32::from_bits(v as u32)
    }
    fn enc(self) -> i128 {
        b32(self)
    }
}
impl Sx for f64 {
    fn dec(v: i128) -> Self {
        f64::from_bits(v as u64)
    }
    fn enc(self) -> i128 {
        b64(self)
    }
}
impl Sx for i16 {
    fn dec(v: i128) -> Self {
        v as i16
    }
    fn enc(self) -> i128 {
        self as i128
    }
}

fn enc_frame<F: Frame>(f: F, out: &mut Vec<i128>)
where
    F::Sample: Sx,
{
    for s in f.channels() {
        out.push(s.enc());
    }
}

fn dec_frames<F: Frame>(d: &[i128]) -> Vec<F>
where
    F::Sample: Sx,
{
    let n = F::CHANNELS;
    d.chunks(n)
        .map(|c| {
            let mut it = c.iter();
            F::from_fn(|_| <F::Sample as Sx>::dec(*it.next().unwrap()))
        })
        .collect()
}

fn hint(h: (usize, Option<usize>)) -> String {
    match h.1 {
        Some(hi) => ob(1, &[h.0 as i128, 1, hi as i128]),
        None => ob(1, &[h.0 as i128, 0]),
    }
}

/// the per-window-type constructors of dasp_signal::window
trait Wk: WindowType<f64, Output = f64> + Sized {
    fn mk<'a, F: Frame>(fr: &'a [F], bin: usize, hop: usize) -> Windower<'a, F, Self>;
    fn win64(n: usize) -> Window<f64, Self>;
}
impl Wk for Hann {
    fn mk<'a, F: Frame>(fr: &'a [F], bin: usize, hop: usize) -> Windower<'a, F, Self> {
        Windower::hann(fr, bin, hop)
    }
    fn win64(n: usize) -> Window<f64, Self> {
        window::hann::<f64>(n)
    }
}
impl Wk for Rectangle {
    fn mk<'a, F: Frame>(fr: &'a [F], bin: usize, hop: usize) -> Windower<'a, F, Self> {
        Windower::rectangle(fr, bin, hop)
    }
    fn win64(n: usize) -> Window<f64, Self> {
        window::rectangle::<f64>(n)
    }
}

fn run_w<F, W>(
    bin: usize,
    hop: usize,
    maxn: usize,
    data: &[i128],
) -> Vec<String>
where
    F: Frame,
    F::Sample: Sx,
    <F::Float as Frame>::Sample: Sx,
    W: Wk,
{
    let mut out = Vec::new();
    let m = bin + 2;
    // phases, read from the public `phase` field of a Window
    let mut win = Window::<f64, W>::new(bin);
    let phases: Vec<f64> = (0..m).map(|_| win.phase.next_phase()).collect();
    out.push(ob(100, &phases.iter().map(|p| b64(*p)).collect::<Vec<_>>()));
    let wv: Vec<i128> = W::win64(bin).take(m).map(b64).collect();
    out.push(ob(101, &wv));
    let mut wf = Vec::new();
    for fr in Window::<F::Float, W>::new(bin).take(m) {
        enc_frame(fr, &mut wf);
    }
    out.push(ob(102, &wf));
    out.push(ob(103, &phases.iter().map(|p| b64(W::window(*p))).collect::<Vec<_>>()));

    let frames: Vec<F> = dec_frames(data);
    let mut wr = W::mk(&frames[..], bin, hop);
    let chunk = |wr: &mut Windower<F, W>| -> String {
        match catch(|| wr.next().map(|c| c.take(m).collect::<Vec<F>>())) {
            Ok(Some(fs)) => {
                let mut v = Vec::new();
                for f in fs {
                    enc_frame(f, &mut v);
                }
                ob(2, &v)
            }
            Ok(None) => "3".to_string(),
            Err(c) => ob(8, &[c as i128]),
        }
    };
    let sh = |wr: &Windower<F, W>| -> String {
        match catch(|| wr.size_hint()) {
            Ok(h) => hint(h),
            Err(c) => ob(8, &[c as i128]),
        }
    };
    for _ in 0..maxn {
        out.push(sh(&wr));
        let c = chunk(&mut wr);
        let ended = !c.starts_with("2");
        out.push(c);
        if ended {
            out.push(sh(&wr));
            out.push(chunk(&mut wr));
            break;
        }
    }
    out
}

fn run_h(ps: &[i128], qs: &[i128]) -> Vec<String> {
    let ps: Vec<f32> = ps.iter().map(|p| f32::from_bits(*p as u32)).collect();
    let qs: Vec<i16> = qs.iter().map(|q| *q as i16).collect();
    let qph: Vec<f64> = qs.iter().map(|q| q.to_float_sample().to_sample::<f64>()).collect();
    vec![
        ob(110, &ps.iter().map(|p| b64(<Hann as WindowType<f64>>::window(*p as f64))).collect::<Vec<_>>()),
        ob(111, &ps.iter().map(|p| b32(<Hann as WindowType<f32>>::window(*p))).collect::<Vec<_>>()),
        ob(112, &ps.iter().map(|p| b64(<Rectangle as WindowType<f64>>::window(*p as f64))).collect::<Vec<_>>()),
        ob(113, &ps.iter().map(|p| b32(<Rectangle as WindowType<f32>>::window(*p))).collect::<Vec<_>>()),
        ob(116, &qph.iter().map(|p| b64(<Hann as WindowType<f64>>::window(*p))).collect::<Vec<_>>()),
        ob(115, &qs.iter().map(|q| <Hann as WindowType<i16>>::window(*q) as i128).collect::<Vec<_>>()),
        ob(114, &qs.iter().map(|q| <Rectangle as WindowType<i16>>::window(*q) as i128).collect::<Vec<_>>()),
        ob(117, &qph.iter().map(|p| b64(*p)).collect::<Vec<_>>()),
    ]
}

fn dispatch<F>(wk: i128, bin: usize, hop: usize, maxn: usize, data: &[i128]) -> Vec<String>
where
    F: Frame,
    F::Sample: Sx,
    <F::Float as Frame>::Sample: Sx,
{
    if wk == 0 {
        run_w::<F, Hann>(bin, hop, maxn, data)
    } else {
        run_w::<F, Rectangle>(bin, hop, maxn, data)
    }
}

fn main() {
    serve(|line| {
        let mut it = line.split_whitespace();
        let kind = it.next().unwrap_or("");
        let a: Vec<i128> = it.map(|t| t.parse::<i128>().expect("int token")).collect();
        let out = match kind {
            "W" => {
                let (wk, fk, nch) = (a[0], a[1], a[2]);
                let (bin, hop, maxn) = (a[3] as usize, a[4] as usize, a[5] as usize);
                let l = a[6] as usize;
                let data = &a[7..];
                assert_eq!(data.len(), l * nch as usize, "data length");
                match (fk, nch) {
                    (0, 1) => dispatch::<f32>(wk, bin, hop, maxn, data),
                    (0, 2) => dispatch::<[f32; 2]>(wk, bin, hop, maxn, data),
                    (1, 1) => dispatch::<f64>(wk, bin, hop, maxn, data),
                    (1, 2) => dispatch::<[f64; 2]>(wk, bin, hop, maxn, data),
                    (2, 1) => dispatch::<[i16; 1]>(wk, bin, hop, maxn, data),
                    (2, 2) => dispatch::<[i16; 2]>(wk, bin, hop, maxn, data),
                    _ => panic!("frame kind"),
                }
            }
            "H" => {
                let np = a[0] as usize;
                let ps = &a[1..1 + np];
                let nq = a[1 + np] as usize;
                let qs = &a[2 + np..2 + np + nq];
                run_h(ps, qs)
            }
            _ => panic!("case kind"),
        };
        out.join(";")
    });
}
