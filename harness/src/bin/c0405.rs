//! C04 + C05: drives dasp_signal adaptor TREES built dynamically from a textual description.
//!
//! Input line:  `<fmt> ; B <tree> ; ... ; <op> ; <op> ...`
//!   fmt: <sample type>x<channels>, x1 = a bare sample as frame: i16x2 u8x3 i32x1 f64x1 f32x2 and i24x1 i24x2 u24x1 u24x3
//!        i48x1 i48x2 u48x1 u48x2 i8x2 u16x1 u32x2 i64x1 u64x1 u64x2 (floats travel as IEEE bit patterns, I24.. as inner values)
//!   B <tree>                      a base signal (owned for the whole case, no `ref` inside)
//!   N <k> <tree>                  build, k x (is_exhausted, next, is_exhausted), drop
//!   U <cap> <extra> <tree>        tree.until_exhausted(): at most cap calls, `extra` calls after the first None
//!   T <n> <cap> <extra> <tree>    tree.take(n); before every call of next: 17 size_hint().0 size_hint().1 (-1 = None) len()
//!   I <cap> <extra> <tree>        tree.into_interleaved_samples().into_iter()
//!   L <id> <nframes> v.. <cap> <extra> <tree>   signal::lift(frames, |arg| tree)
//!   NC <j> <k> <tree>             j x next, clone the whole stack, k x next on the original, k x next on the clone
//!   IT <kind> <n> <pre> <mode> <k> <cap> <extra> <tree>
//!        kind 0 until_exhausted() | 1 take(n) | 2 into_interleaved_samples().into_iter() | 3 ...next_sample()
//!        after `pre` calls of next: mode 0 drain | 1 clone, drain the original, drain the clone
//!                                 | 2 nth(k) then drain | 3 skip(k) then drain
//! tree (prefix): iter <id> <nframes> v.. | samp <id> <n> v.. | eq | gen <id> c.. | genmut <id> <base>
//!   | map <id> <fn> <k> T | zip <id> <fn> A B | add A B | mul A B | scale <amp> T | offset <off> T
//!   | scalepc a.. T | offsetpc a.. T | clip <t> T | inspect <id> T | delay <k> T | ref <i> | arg
//! `ref i` = bases[i].by_ref(): the adaptor borrows the base and hands it back when dropped.
//!   | st <n> <spec outer> [<spec mid>] <spec inner> T <second sources, inner to outer>
//!       STATICALLY TYPED nesting (formats i16x2 u8x3 i32x1 f64x1 f32x2 i24x1 u48x1): the n = 2 (or 3) adaptors are
//!       applied as ONE method chain `T.inner(p1).outer(p2)` on concrete types (OffsetAmp<Dyn>, Delay<ScaleAmp<Dyn>>, ..),
//!       no box between the levels, so the receiver of the outer call has the adaptor's own static type: an inherent
//!       method shadowing the trait method, or an impl specialised to one adaptor type, is what gets called.
//!       spec: offset <v> | scale <v> | offsetpc v.. | scalepc v.. | clip <t> | delay <k> | inspect <id>
//!             | map <id> <fn> <k> | add | mul | zip <id> <fn>      (add / mul / zip: the second source follows T)
//!       n = 3: inner and mid are both offset or both scale.  n = 1: T is an eq / gen / genmut leaf, built with its own
//!       static type (signal::Equilibrium, Gen, GenMut) as the receiver.  Means the same as the ordinary nested tree.
//!
//! Output: observations joined by ';':
//!   10 events            construction (look-ahead fills of the iterator backed leaves)
//!   11 e0 e1 frame events  one Signal::next (is_exhausted before / after)
//!   13 frame events      iterator item Some(frame);   15 sample events   Some(sample);   14 events  None
//!   16 (id pulls ipulls)*  counters of the leaves under the op's tree, left to right
//!   17 lo hi len         Take: size_hint and ExactSizeIterator::len before a call of next
//! counts (delay k, take n, nth / skip k) are parsed as i128 and cast `as usize`: every usize value travels as itself
//!   8 code               panic
//! events: 1 id = Iterator::next on the iterator behind leaf id; 2 id = Signal::next on leaf id /
//!   gen closure id; 3 id = map/zip_map closure id; 4 id frame = inspect closure id saw frame
use dasp_frame::Frame;
use dasp_sample::{I24, I48, U24, U48};
use dasp_signal::{self as signal, Signal};
use dasp_verif_harness::*;
use std::cell::{Cell, RefCell};
use std::rc::Rc;

thread_local! { static LOG: RefCell<Vec<i128>> = RefCell::new(Vec::new()); }
fn log(v: &[i128]) {
    LOG.with(|l| l.borrow_mut().extend_from_slice(v));
}
fn drain() -> Vec<i128> {
    LOG.with(|l| std::mem::take(&mut *l.borrow_mut()))
}

fn line(tag: i128, parts: &[&[i128]]) -> String {
    let mut s = tag.to_string();
    for p in parts {
        for x in p.iter() {
            s.push(' ');
            s.push_str(&x.to_string());
        }
    }
    s
}

/// The local `Box<dyn Signal>` wrapper (the crate's own boxed impl is never compiled), cloneable
/// through `box_clone` so that whole stacks (and the iterators over them) can be cloned.
pub trait CSig<'a, F: Frame>: Signal<Frame = F> {
    fn box_clone(&self) -> Box<dyn CSig<'a, F> + 'a>;
}
impl<'a, F: Frame, T: Signal<Frame = F> + Clone + 'a> CSig<'a, F> for T {
    fn box_clone(&self) -> Box<dyn CSig<'a, F> + 'a> {
        Box::new(self.clone())
    }
}
pub struct Dyn<'a, F: Frame>(Box<dyn CSig<'a, F> + 'a>);
impl<'a, F: Frame> Signal for Dyn<'a, F> {
    type Frame = F;
    fn next(&mut self) -> F {
        self.0.next()
    }
    fn is_exhausted(&self) -> bool {
        self.0.is_exhausted()
    }
}
impl<'a, F: Frame> Clone for Dyn<'a, F> {
    fn clone(&self) -> Self {
        Dyn((*self.0).box_clone())
    }
}
fn dy<'a, S: Signal + Clone + 'a>(s: S) -> Dyn<'a, S::Frame> {
    Dyn(Box::new(s))
}

/// `base.by_ref()`: every call goes through `Signal::by_ref` and `impl Signal for &mut S`.
/// A borrowed signal cannot be cloned (the generators never clone a stack that borrows).
struct RefSig<'a, F: Frame>(&'a mut Dyn<'static, F>);
impl<'a, F: Frame> Signal for RefSig<'a, F> {
    type Frame = F;
    fn next(&mut self) -> F {
        let mut r: &mut Dyn<'static, F> = Signal::by_ref(&mut *self.0);
        <&mut Dyn<'static, F> as Signal>::next(&mut r)
    }
    fn is_exhausted(&self) -> bool {
        let r: &Dyn<'static, F> = &*self.0;
        // is_exhausted of `&mut S` needs a `&&mut S`; forward through a shared view of the same impl
        Signal::is_exhausted(r)
    }
}
impl<'a, F: Frame> Clone for RefSig<'a, F> {
    fn clone(&self) -> Self {
        panic!("a borrowed signal cannot be cloned")
    }
}

struct LeafH {
    id: i128,
    pulls: Rc<Cell<i128>>,
    ipulls: Rc<Cell<i128>>,
}
impl LeafH {
    /// another handle on the same counters
    fn share(&self) -> LeafH {
        LeafH { id: self.id, pulls: self.pulls.clone(), ipulls: self.ipulls.clone() }
    }
}
/// cloning a leaf (as part of cloning a stack) gives the clone its own counters
impl Clone for LeafH {
    fn clone(&self) -> LeafH {
        LeafH { id: self.id, pulls: Rc::new(Cell::new(self.pulls.get())), ipulls: Rc::new(Cell::new(self.ipulls.get())) }
    }
}
fn leaf(id: i128) -> LeafH {
    LeafH { id, pulls: Rc::new(Cell::new(0)), ipulls: Rc::new(Cell::new(0)) }
}

/// instrumented iterator behind from_iter / from_interleaved_samples_iter
#[derive(Clone)]
struct CountIter<T> {
    it: std::vec::IntoIter<T>,
    h: LeafH,
}
impl<T> Iterator for CountIter<T> {
    type Item = T;
    fn next(&mut self) -> Option<T> {
        self.h.ipulls.set(self.h.ipulls.get() + 1);
        log(&[1, self.h.id]);
        self.it.next()
    }
}

/// instrumented source signal: counts Signal::next calls
#[derive(Clone)]
struct Probe<S> {
    inner: S,
    h: LeafH,
}
impl<S: Signal> Signal for Probe<S> {
    type Frame = S::Frame;
    fn next(&mut self) -> S::Frame {
        self.h.pulls.set(self.h.pulls.get() + 1);
        log(&[2, self.h.id]);
        self.inner.next()
    }
    fn is_exhausted(&self) -> bool {
        self.inner.is_exhausted()
    }
}

trait Sm: Copy + 'static {
    fn of(v: i128) -> Self;
    fn to(self) -> i128;
    fn wadd(self, k: i128) -> Self;
    fn wsub(self, o: Self) -> Self;
    fn gm(v: i128) -> Self;
}
macro_rules! sm_int {
    ($($T:ty)*) => {$(
        impl Sm for $T {
            fn of(v: i128) -> Self { v as $T }
            fn to(self) -> i128 { self as i128 }
            fn wadd(self, k: i128) -> Self { self.wrapping_add(k as $T) }
            fn wsub(self, o: Self) -> Self { self.wrapping_sub(o) }
            fn gm(v: i128) -> Self { v as $T }
        }
    )*};
}
sm_int!(i8 u8 i16 i32 u16 u32 i64 u64);
/// the custom-width types: values travel as their inner representation; the wrapping closures reduce
/// into the type's own range
macro_rules! sm_custom {
    ($($T:ident $Rep:ty, $min:expr, $bits:expr);*) => {$(
        impl Sm for $T {
            fn of(v: i128) -> Self { $T::new_unchecked(v as $Rep) }
            fn to(self) -> i128 { self.inner() as i128 }
            fn wadd(self, k: i128) -> Self { Self::of((self.to() + k - $min).rem_euclid(1i128 << $bits) + $min) }
            fn wsub(self, o: Self) -> Self { Self::of((self.to() - o.to() - $min).rem_euclid(1i128 << $bits) + $min) }
            fn gm(v: i128) -> Self { Self::of(v) }
        }
    )*};
}
sm_custom!(I24 i32, -(1i128 << 23), 24; U24 i32, 0i128, 24; I48 i64, -(1i128 << 47), 48; U48 i64, 0i128, 48);
impl Sm for f64 {
    fn of(v: i128) -> Self {
        f64::from_bits(v as u64)
    }
    fn to(self) -> i128 {
        if self.is_nan() {
            0x7ff8_0000_0000_0000
        } else {
            self.to_bits() as i128
        }
    }
    fn wadd(self, k: i128) -> Self {
        self + f64::from_bits(k as u64)
    }
    fn wsub(self, o: Self) -> Self {
        self - o
    }
    fn gm(v: i128) -> Self {
        v as f64
    }
}
impl Sm for f32 {
    fn of(v: i128) -> Self {
        f32::from_bits(v as u32)
    }
    fn to(self) -> i128 {
        if self.is_nan() {
            0x7fc0_0000
        } else {
            self.to_bits() as i128
        }
    }
    fn wadd(self, k: i128) -> Self {
        self + f32::from_bits(k as u32)
    }
    fn wsub(self, o: Self) -> Self {
        self - o
    }
    fn gm(v: i128) -> Self {
        v as f32
    }
}

/// frames <-> integer lists
trait Fx: Copy + 'static {
    const N: usize;
    fn mk(v: &[i128]) -> Self;
    fn un(&self) -> Vec<i128>;
}
impl<T: Sm, const K: usize> Fx for [T; K] {
    const N: usize = K;
    fn mk(v: &[i128]) -> Self {
        let mut a = [T::of(0); K];
        for i in 0..K {
            a[i] = T::of(v[i]);
        }
        a
    }
    fn un(&self) -> Vec<i128> {
        self.iter().map(|s| s.to()).collect()
    }
}
macro_rules! fx_bare {
    ($($T:ty)*) => {$(
        impl Fx for $T {
            const N: usize = 1;
            fn mk(v: &[i128]) -> Self { <$T as Sm>::of(v[0]) }
            fn un(&self) -> Vec<i128> { vec![Sm::to(*self)] }
        }
    )*};
}
fx_bare!(i32 f32 f64 i8 i16 u16 u32 i64 u64 I24 U24 I48 U48);

fn rev_frame<F: Fx>(f: F) -> F {
    let mut v = f.un();
    v.reverse();
    F::mk(&v)
}
fn select_frame<F: Fx>(a: F, b: F) -> F {
    let (x, y) = (a.un(), b.un());
    let v: Vec<i128> = (0..F::N).map(|i| if i % 2 == 0 { x[i] } else { y[i] }).collect();
    F::mk(&v)
}

/// IntoInterleavedSamples driven through next_sample(), cloned through its own Clone impl
struct NS<S: Signal>(signal::IntoInterleavedSamples<S>);
impl<S: Signal> Iterator for NS<S> {
    type Item = <S::Frame as Frame>::Sample;
    fn next(&mut self) -> Option<Self::Item> {
        self.0.next_sample()
    }
}
impl<S: Signal> Clone for NS<S>
where
    signal::IntoInterleavedSamples<S>: Clone,
{
    fn clone(&self) -> Self {
        NS(self.0.clone())
    }
}

fn emit<T>(r: Option<T>, enc: &dyn Fn(T) -> Vec<i128>, out: &mut Vec<String>) -> bool {
    match r {
        Some(x) => {
            let v = enc(x);
            out.push(line(v[0], &[&v[1..], &drain()]));
            true
        }
        None => {
            out.push(line(14, &[&drain()]));
            false
        }
    }
}

fn drain_it<J: Iterator>(it: &mut J, enc: &dyn Fn(J::Item) -> Vec<i128>, cap: i128, mut extra: i128, out: &mut Vec<String>) {
    for _ in 0..cap {
        if !emit(it.next(), enc, out) {
            if extra == 0 {
                break;
            }
            extra -= 1;
        }
    }
}

/// the iterator entry points: plain, clone, nth, skip
fn run_iter<I: Iterator + Clone>(
    mut it: I,
    enc: &dyn Fn(I::Item) -> Vec<i128>,
    pre: i128,
    mode: i128,
    k: i128,
    cap: i128,
    extra: i128,
    out: &mut Vec<String>,
) {
    for _ in 0..pre {
        emit(it.next(), enc, out);
    }
    match mode {
        0 => drain_it(&mut it, enc, cap, extra, out),
        1 => {
            let mut c = it.clone();
            drain_it(&mut it, enc, cap, extra, out);
            drain_it(&mut c, enc, cap, extra, out);
        }
        2 => {
            emit(it.nth(k as usize), enc, out);
            drain_it(&mut it, enc, cap, extra, out);
        }
        _ => {
            let mut sk = it.skip(k as usize);
            emit(sk.next(), enc, out);
            drain_it(&mut sk, enc, cap, extra, out);
        }
    }
}

/// outer level of a statically typed chain: `$r` is the (concretely typed) receiver expression
macro_rules! st_outer {
    ($r:expr, $o:expr) => {
        match $o {
            Lv::Offset(b) => dy($r.offset_amp(b)),
            Lv::Scale(b) => dy($r.scale_amp(b)),
            Lv::OffsetPc(b) => dy($r.offset_amp_per_channel(b)),
            Lv::ScalePc(b) => dy($r.scale_amp_per_channel(b)),
            Lv::Clip(b) => dy($r.clip_amp(b)),
            Lv::Delay(k) => dy($r.delay(k)),
            Lv::Inspect(id) => dy($r.inspect(move |f: &Fr| {
                log(&[4, id]);
                log(&f.un());
            })),
            Lv::Map0(id) => dy($r.map(move |x: Fr| {
                log(&[3, id]);
                rev_frame(x)
            })),
            Lv::Map1(id, k) => dy($r.map(move |x: Fr| {
                log(&[3, id]);
                let y: Fr = Frame::map(x, |c| c.wadd(k));
                y
            })),
            Lv::Add(b) => dy($r.add_amp(b)),
            Lv::Mul(b) => dy($r.mul_amp(b)),
            Lv::Zip0(id, b) => dy($r.zip_map(b, move |x: Fr, y: Fr| {
                log(&[3, id]);
                let z: Fr = Frame::zip_map(x, y, |p, q| p.wsub(q));
                z
            })),
            Lv::Zip1(id, b) => dy($r.zip_map(b, move |x: Fr, y: Fr| {
                log(&[3, id]);
                select_frame(x, y)
            })),
        }
    };
}
/// inner level applied to `$s`, then every outer level on the resulting concrete type
macro_rules! st_inner {
    ($s:expr, $i:expr, $o:expr) => {
        match $i {
            Lv::Offset(a) => st_outer!($s.offset_amp(a), $o),
            Lv::Scale(a) => st_outer!($s.scale_amp(a), $o),
            Lv::OffsetPc(a) => st_outer!($s.offset_amp_per_channel(a), $o),
            Lv::ScalePc(a) => st_outer!($s.scale_amp_per_channel(a), $o),
            Lv::Clip(a) => st_outer!($s.clip_amp(a), $o),
            Lv::Delay(j) => st_outer!($s.delay(j), $o),
            Lv::Inspect(ia) => st_outer!(
                $s.inspect(move |f: &Fr| {
                    log(&[4, ia]);
                    log(&f.un());
                }),
                $o
            ),
            Lv::Map0(ia) => st_outer!(
                $s.map(move |x: Fr| {
                    log(&[3, ia]);
                    rev_frame(x)
                }),
                $o
            ),
            Lv::Map1(ia, ka) => st_outer!(
                $s.map(move |x: Fr| {
                    log(&[3, ia]);
                    let y: Fr = Frame::map(x, |c| c.wadd(ka));
                    y
                }),
                $o
            ),
            Lv::Add(a) => st_outer!($s.add_amp(a), $o),
            Lv::Mul(a) => st_outer!($s.mul_amp(a), $o),
            Lv::Zip0(ia, a) => st_outer!(
                $s.zip_map(a, move |x: Fr, y: Fr| {
                    log(&[3, ia]);
                    let z: Fr = Frame::zip_map(x, y, |p, q| p.wsub(q));
                    z
                }),
                $o
            ),
            Lv::Zip1(ia, a) => st_outer!(
                $s.zip_map(a, move |x: Fr, y: Fr| {
                    log(&[3, ia]);
                    select_frame(x, y)
                }),
                $o
            ),
        }
    };
}

struct Toks<'t> {
    t: Vec<&'t str>,
    p: usize,
}
impl<'t> Toks<'t> {
    fn word(&mut self) -> &'t str {
        let w = self.t[self.p];
        self.p += 1;
        w
    }
    fn int(&mut self) -> i128 {
        self.word().parse::<i128>().expect("int token")
    }
    fn ints(&mut self, n: usize) -> Vec<i128> {
        (0..n).map(|_| self.int()).collect()
    }
}

macro_rules! fmt_mod {
    ($m:ident, $Fr:ty, $S:ty, $SgS:ty, $SgFr:ty, $FlS:ty, $FlFr:ty, $sg:tt, $fl:tt, $st:tt) => {
        mod $m {
            use super::*;
            type Fr = $Fr;
            const N: usize = <Fr as Fx>::N;

            pub struct Cx<'t, 'a> {
                pub tk: Toks<'t>,
                pub slots: Vec<Option<&'a mut Dyn<'static, Fr>>>,
                pub bh: &'t Vec<Vec<LeafH>>,
                pub handles: Vec<LeafH>,
                pub arg: Option<Dyn<'a, Fr>>,
            }

            fmt_mod!(@signed $sg);
            fmt_mod!(@float $fl);
            fmt_mod!(@st $st, $S, $SgS, $SgFr, $FlS, $FlFr);

            pub fn parse<'t, 'a>(cx: &mut Cx<'t, 'a>) -> Dyn<'a, Fr> {
                let w = cx.tk.word();
                match w {
                    "iter" => {
                        let id = cx.tk.int();
                        let n = cx.tk.int() as usize;
                        let frames: Vec<Fr> = (0..n).map(|_| Fr::mk(&cx.tk.ints(N))).collect();
                        let h = leaf(id);
                        cx.handles.push(h.share());
                        let it = CountIter { it: frames.into_iter(), h: h.share() };
                        dy(Probe { inner: signal::from_iter(it), h })
                    }
                    "samp" => {
                        let id = cx.tk.int();
                        let n = cx.tk.int() as usize;
                        let samples: Vec<$S> = cx.tk.ints(n).into_iter().map(<$S as Sm>::of).collect();
                        let h = leaf(id);
                        cx.handles.push(h.share());
                        let it = CountIter { it: samples.into_iter(), h: h.share() };
                        dy(Probe { inner: signal::from_interleaved_samples_iter::<_, Fr>(it), h })
                    }
                    "eq" => dy(signal::equilibrium::<Fr>()),
                    "gen" => {
                        let id = cx.tk.int();
                        let c = Fr::mk(&cx.tk.ints(N));
                        let h = leaf(id);
                        cx.handles.push(h.share());
                        dy(signal::gen(move || {
                            h.pulls.set(h.pulls.get() + 1);
                            log(&[2, id]);
                            c
                        }))
                    }
                    "genmut" => {
                        let id = cx.tk.int();
                        let base = cx.tk.int();
                        let h = leaf(id);
                        cx.handles.push(h.share());
                        let mut n: i128 = 0;
                        dy(signal::gen_mut(move || {
                            h.pulls.set(h.pulls.get() + 1);
                            log(&[2, id]);
                            let v = base + n % 7;
                            n += 1;
                            Fr::mk(&vec![<$S as Sm>::gm(v).to(); N])
                        }))
                    }
                    "map" => {
                        let id = cx.tk.int();
                        let f = cx.tk.int();
                        let k = cx.tk.int();
                        let s = parse(cx);
                        match f {
                            0 => dy(s.map(move |x: Fr| {
                                log(&[3, id]);
                                rev_frame(x)
                            })),
                            1 => dy(s.map(move |x: Fr| {
                                log(&[3, id]);
                                let y: Fr = Frame::map(x, |c| c.wadd(k));
                                y
                            })),
                            _ => panic!("unknown map fn"),
                        }
                    }
                    "zip" => {
                        let id = cx.tk.int();
                        let f = cx.tk.int();
                        let a = parse(cx);
                        let b = parse(cx);
                        match f {
                            0 => dy(a.zip_map(b, move |x: Fr, y: Fr| {
                                log(&[3, id]);
                                let z: Fr = Frame::zip_map(x, y, |p, q| p.wsub(q));
                                z
                            })),
                            _ => dy(a.zip_map(b, move |x: Fr, y: Fr| {
                                log(&[3, id]);
                                select_frame(x, y)
                            })),
                        }
                    }
                    "add" => {
                        let a = parse(cx);
                        let b = parse_signed(cx);
                        dy(a.add_amp(b))
                    }
                    "mul" => {
                        let a = parse(cx);
                        let b = parse_float(cx);
                        dy(a.mul_amp(b))
                    }
                    "scale" => {
                        let amp = <$FlS as Sm>::of(cx.tk.int());
                        let s = parse(cx);
                        dy(s.scale_amp(amp))
                    }
                    "offset" => {
                        let off = <$SgS as Sm>::of(cx.tk.int());
                        let s = parse(cx);
                        dy(s.offset_amp(off))
                    }
                    "scalepc" => {
                        let amp = <$FlFr as Fx>::mk(&cx.tk.ints(N));
                        let s = parse(cx);
                        dy(s.scale_amp_per_channel(amp))
                    }
                    "offsetpc" => {
                        let amp = <$SgFr as Fx>::mk(&cx.tk.ints(N));
                        let s = parse(cx);
                        dy(s.offset_amp_per_channel(amp))
                    }
                    "clip" => {
                        let t = <$SgS as Sm>::of(cx.tk.int());
                        let s = parse(cx);
                        dy(s.clip_amp(t))
                    }
                    "inspect" => {
                        let id = cx.tk.int();
                        let s = parse(cx);
                        dy(s.inspect(move |f: &Fr| {
                            log(&[4, id]);
                            log(&f.un());
                        }))
                    }
                    "delay" => {
                        let k = cx.tk.int() as usize;
                        let s = parse(cx);
                        dy(s.delay(k))
                    }
                    "ref" => {
                        let i = cx.tk.int() as usize;
                        let b: &'a mut Dyn<'static, Fr> = cx.slots[i].take().expect("base borrowed twice");
                        cx.handles.extend(cx.bh[i].iter().map(|h| h.share()));
                        dy(RefSig(b))
                    }
                    "arg" => cx.arg.take().expect("arg outside lift"),
                    "st" => parse_st(cx),
                    other => panic!("unknown node {}", other),
                }
            }

            fn counts(hs: &[LeafH]) -> String {
                let v: Vec<i128> = hs.iter().flat_map(|h| vec![h.id, h.pulls.get(), h.ipulls.get()]).collect();
                line(16, &[&v])
            }

            pub fn run(parts: &[&str], out: &mut Vec<String>) {
                let mut bases: Vec<Dyn<'static, Fr>> = Vec::new();
                let mut bh: Vec<Vec<LeafH>> = Vec::new();
                for p in parts {
                    let toks: Vec<&str> = p.split_whitespace().collect();
                    if toks.is_empty() {
                        continue;
                    }
                    let mut tk = Toks { t: toks, p: 0 };
                    let kind = tk.word();
                    if kind == "B" {
                        let empty: Vec<Vec<LeafH>> = Vec::new();
                        let mut cx: Cx<'_, 'static> = Cx { tk, slots: Vec::new(), bh: &empty, handles: Vec::new(), arg: None };
                        let s = parse(&mut cx);
                        out.push(line(10, &[&drain()]));
                        bases.push(s);
                        bh.push(cx.handles);
                        continue;
                    }
                    let slots: Vec<Option<&mut Dyn<'static, Fr>>> = bases.iter_mut().map(Some).collect();
                    match kind {
                        "N" => {
                            let k = tk.int();
                            let mut cx = Cx { tk, slots, bh: &bh, handles: Vec::new(), arg: None };
                            let mut s = parse(&mut cx);
                            out.push(line(10, &[&drain()]));
                            for _ in 0..k {
                                let e0 = s.is_exhausted() as i128;
                                let f = s.next();
                                let e1 = s.is_exhausted() as i128;
                                out.push(line(11, &[&[e0, e1], &f.un(), &drain()]));
                            }
                            drop(s);
                            out.push(counts(&cx.handles));
                        }
                        "U" => {
                            let cap = tk.int();
                            let mut extra = tk.int();
                            let mut cx = Cx { tk, slots, bh: &bh, handles: Vec::new(), arg: None };
                            let s = parse(&mut cx);
                            out.push(line(10, &[&drain()]));
                            let mut it = s.until_exhausted();
                            for _ in 0..cap {
                                match it.next() {
                                    Some(f) => out.push(line(13, &[&f.un(), &drain()])),
                                    None => {
                                        out.push(line(14, &[&drain()]));
                                        if extra == 0 {
                                            break;
                                        }
                                        extra -= 1;
                                    }
                                }
                            }
                            drop(it);
                            out.push(counts(&cx.handles));
                        }
                        "T" => {
                            let n = tk.int() as usize;
                            let cap = tk.int();
                            let mut extra = tk.int();
                            let mut cx = Cx { tk, slots, bh: &bh, handles: Vec::new(), arg: None };
                            let s = parse(&mut cx);
                            out.push(line(10, &[&drain()]));
                            let mut it = s.take(n);
                            for _ in 0..cap {
                                // size_hint / ExactSizeIterator::len: what is left of n (observed, so that take(2^32),
                                // take(usize::MAX) .. are judged on the count itself and not only on the first items)
                                let (lo, hi) = it.size_hint();
                                out.push(line(17, &[&[lo as i128, hi.map_or(-1, |h| h as i128), it.len() as i128]]));
                                match it.next() {
                                    Some(f) => out.push(line(13, &[&f.un(), &drain()])),
                                    None => {
                                        out.push(line(14, &[&drain()]));
                                        if extra == 0 {
                                            break;
                                        }
                                        extra -= 1;
                                    }
                                }
                            }
                            drop(it);
                            out.push(counts(&cx.handles));
                        }
                        "I" => {
                            let cap = tk.int();
                            let mut extra = tk.int();
                            let mut cx = Cx { tk, slots, bh: &bh, handles: Vec::new(), arg: None };
                            let s = parse(&mut cx);
                            out.push(line(10, &[&drain()]));
                            let mut it = s.into_interleaved_samples().into_iter();
                            for _ in 0..cap {
                                match it.next() {
                                    Some(x) => out.push(line(15, &[&[Sm::to(x)], &drain()])),
                                    None => {
                                        out.push(line(14, &[&drain()]));
                                        if extra == 0 {
                                            break;
                                        }
                                        extra -= 1;
                                    }
                                }
                            }
                            drop(it);
                            out.push(counts(&cx.handles));
                        }
                        "L" => {
                            let id = tk.int();
                            let n = tk.int() as usize;
                            let frames: Vec<Fr> = (0..n).map(|_| Fr::mk(&tk.ints(N))).collect();
                            let cap = tk.int();
                            let mut extra = tk.int();
                            let mut cx = Cx { tk, slots, bh: &bh, handles: Vec::new(), arg: None };
                            let h = leaf(id);
                            let src = CountIter { it: frames.into_iter(), h: h.share() };
                            let cxr = &mut cx;
                            let mut it = signal::lift(src, move |sig| {
                                cxr.arg = Some(dy(Probe { inner: sig, h: h.share() }));
                                parse_lift(cxr, &h)
                            });
                            out.push(line(10, &[&drain()]));
                            for _ in 0..cap {
                                match it.next() {
                                    Some(f) => out.push(line(13, &[&f.un(), &drain()])),
                                    None => {
                                        out.push(line(14, &[&drain()]));
                                        if extra == 0 {
                                            break;
                                        }
                                        extra -= 1;
                                    }
                                }
                            }
                            drop(it);
                            out.push(counts(&cx.handles));
                        }
                        "NC" => {
                            let j = tk.int();
                            let k = tk.int();
                            let mut cx = Cx { tk, slots, bh: &bh, handles: Vec::new(), arg: None };
                            let mut s = parse(&mut cx);
                            out.push(line(10, &[&drain()]));
                            let obs_next = |s: &mut Dyn<'_, Fr>, out: &mut Vec<String>| {
                                let e0 = s.is_exhausted() as i128;
                                let f = s.next();
                                let e1 = s.is_exhausted() as i128;
                                out.push(line(11, &[&[e0, e1], &f.un(), &drain()]));
                            };
                            for _ in 0..j {
                                obs_next(&mut s, out);
                            }
                            let mut c = s.clone();
                            for _ in 0..k {
                                obs_next(&mut s, out);
                            }
                            for _ in 0..k {
                                obs_next(&mut c, out);
                            }
                            drop(c);
                            drop(s);
                            out.push(counts(&cx.handles));
                        }
                        "IT" => {
                            let kind = tk.int();
                            let n = tk.int() as usize;
                            let pre = tk.int();
                            let mode = tk.int();
                            let k = tk.int();
                            let cap = tk.int();
                            let extra = tk.int();
                            let mut cx = Cx { tk, slots, bh: &bh, handles: Vec::new(), arg: None };
                            let s = parse(&mut cx);
                            out.push(line(10, &[&drain()]));
                            let encf = |f: Fr| {
                                let mut v = vec![13];
                                v.extend(f.un());
                                v
                            };
                            let encs = |x: $S| vec![15, Sm::to(x)];
                            match kind {
                                0 => run_iter(s.until_exhausted(), &encf, pre, mode, k, cap, extra, out),
                                1 => run_iter(s.take(n), &encf, pre, mode, k, cap, extra, out),
                                2 => run_iter(s.into_interleaved_samples().into_iter(), &encs, pre, mode, k, cap, extra, out),
                                _ => run_iter(NS(s.into_interleaved_samples()), &encs, pre, mode, k, cap, extra, out),
                            }
                            out.push(counts(&cx.handles));
                        }
                        other => panic!("unknown op {}", other),
                    }
                }
            }

            /// parse the lift closure body; the `arg` leaf's counters are listed at its position
            fn parse_lift<'t, 'a>(cx: &mut Cx<'t, 'a>, h: &LeafH) -> Dyn<'a, Fr> {
                let start = cx.handles.len();
                let before_arg = cx.tk.t[cx.tk.p..].iter().take_while(|w| **w != "arg").filter(|w| is_leaf_word(w)).count();
                let s = parse(cx);
                let at = (start + before_arg).min(cx.handles.len());
                cx.handles.insert(at, h.share());
                s
            }
        }
    };
    (@st no, $S:ty, $SgS:ty, $SgFr:ty, $FlS:ty, $FlFr:ty) => {
        fn parse_st<'t, 'a>(_cx: &mut Cx<'t, 'a>) -> Dyn<'a, Fr> {
            panic!("statically typed nesting is not instantiated for this format")
        }
    };
    (@st yes, $S:ty, $SgS:ty, $SgFr:ty, $FlS:ty, $FlFr:ty) => {
        /// one level of a statically typed chain, its parameters read but its second source not yet parsed
        enum Spec {
            Offset($SgS),
            Scale($FlS),
            OffsetPc($SgFr),
            ScalePc($FlFr),
            Clip($SgS),
            Delay(usize),
            Inspect(i128),
            Map(i128, i128, i128),
            Add,
            Mul,
            Zip(i128, i128),
        }
        enum Lv<'a> {
            Offset($SgS),
            Scale($FlS),
            OffsetPc($SgFr),
            ScalePc($FlFr),
            Clip($SgS),
            Delay(usize),
            Inspect(i128),
            Map0(i128),
            Map1(i128, i128),
            Add(Dyn<'a, <Fr as Frame>::Signed>),
            Mul(Dyn<'a, <Fr as Frame>::Float>),
            Zip0(i128, Dyn<'a, Fr>),
            Zip1(i128, Dyn<'a, Fr>),
        }
        fn read_spec<'t, 'a>(cx: &mut Cx<'t, 'a>) -> Spec {
            match cx.tk.word() {
                "offset" => Spec::Offset(<$SgS as Sm>::of(cx.tk.int())),
                "scale" => Spec::Scale(<$FlS as Sm>::of(cx.tk.int())),
                "offsetpc" => Spec::OffsetPc(<$SgFr as Fx>::mk(&cx.tk.ints(N))),
                "scalepc" => Spec::ScalePc(<$FlFr as Fx>::mk(&cx.tk.ints(N))),
                "clip" => Spec::Clip(<$SgS as Sm>::of(cx.tk.int())),
                "delay" => Spec::Delay(cx.tk.int() as usize),
                "inspect" => Spec::Inspect(cx.tk.int()),
                "map" => {
                    let v = cx.tk.ints(3);
                    Spec::Map(v[0], v[1], v[2])
                }
                "add" => Spec::Add,
                "mul" => Spec::Mul,
                "zip" => {
                    let v = cx.tk.ints(2);
                    Spec::Zip(v[0], v[1])
                }
                other => panic!("unknown level {}", other),
            }
        }
        /// parses the level's second source (if it has one) at the current position
        fn fill<'t, 'a>(cx: &mut Cx<'t, 'a>, sp: Spec) -> Lv<'a> {
            match sp {
                Spec::Offset(a) => Lv::Offset(a),
                Spec::Scale(a) => Lv::Scale(a),
                Spec::OffsetPc(a) => Lv::OffsetPc(a),
                Spec::ScalePc(a) => Lv::ScalePc(a),
                Spec::Clip(a) => Lv::Clip(a),
                Spec::Delay(k) => Lv::Delay(k),
                Spec::Inspect(id) => Lv::Inspect(id),
                Spec::Map(id, 0, _) => Lv::Map0(id),
                Spec::Map(id, 1, k) => Lv::Map1(id, k),
                Spec::Map(..) => panic!("unknown map fn"),
                Spec::Add => Lv::Add(parse_signed(cx)),
                Spec::Mul => Lv::Mul(parse_float(cx)),
                Spec::Zip(id, 0) => Lv::Zip0(id, parse(cx)),
                Spec::Zip(id, _) => Lv::Zip1(id, parse(cx)),
            }
        }
        fn parse_st<'t, 'a>(cx: &mut Cx<'t, 'a>) -> Dyn<'a, Fr> {
            let n = cx.tk.int() as usize;
            let mut specs: Vec<Spec> = (0..n).map(|_| read_spec(cx)).collect(); // outermost first
            if n == 1 {
                // ONE level applied to a statically typed LEAF of the crate (Equilibrium, Gen, GenMut): the receiver
                // of the adaptor call is the crate's own source type, not a box
                let sp = specs.pop().expect("level");
                return match cx.tk.word() {
                    "eq" => {
                        let o = fill(cx, sp);
                        st_outer!(signal::equilibrium::<Fr>(), o)
                    }
                    "gen" => {
                        let id = cx.tk.int();
                        let c = Fr::mk(&cx.tk.ints(N));
                        let h = leaf(id);
                        cx.handles.push(h.share());
                        let o = fill(cx, sp);
                        st_outer!(
                            signal::gen(move || {
                                h.pulls.set(h.pulls.get() + 1);
                                log(&[2, id]);
                                c
                            }),
                            o
                        )
                    }
                    "genmut" => {
                        let id = cx.tk.int();
                        let base = cx.tk.int();
                        let h = leaf(id);
                        cx.handles.push(h.share());
                        let mut k: i128 = 0;
                        let o = fill(cx, sp);
                        st_outer!(
                            signal::gen_mut(move || {
                                h.pulls.set(h.pulls.get() + 1);
                                log(&[2, id]);
                                let v = base + k % 7;
                                k += 1;
                                Fr::mk(&vec![<$S as Sm>::gm(v).to(); N])
                            }),
                            o
                        )
                    }
                    other => panic!("st 1 takes an eq / gen / genmut leaf, not {}", other),
                };
            }
            let s = parse(cx);
            let mut lvs: Vec<Lv<'a>> = Vec::new(); // innermost first: second sources are parsed left to right
            for sp in specs.into_iter().rev() {
                let l = fill(cx, sp);
                lvs.push(l);
            }
            let o = lvs.pop().expect("outer level");
            match n {
                2 => {
                    let i = lvs.pop().expect("inner level");
                    st_inner!(s, i, o)
                }
                3 => {
                    let m = lvs.pop().expect("mid level");
                    let i = lvs.pop().expect("inner level");
                    match (i, m) {
                        (Lv::Offset(a), Lv::Offset(b)) => st_outer!(s.offset_amp(a).offset_amp(b), o),
                        (Lv::Scale(a), Lv::Scale(b)) => st_outer!(s.scale_amp(a).scale_amp(b), o),
                        _ => panic!("a statically typed triple has offset/offset or scale/scale below its outer level"),
                    }
                }
                _ => panic!("st takes 1, 2 or 3 levels"),
            }
        }
    };
    (@signed same) => {
        fn parse_signed<'t, 'a>(cx: &mut Cx<'t, 'a>) -> Dyn<'a, Fr> {
            parse(cx)
        }
    };
    (@signed conv) => {
        /// the Signed-format second source of add_amp: `map <id> 9 <k> <tree>` = tree.map(to_signed_frame)
        fn parse_signed<'t, 'a>(cx: &mut Cx<'t, 'a>) -> Dyn<'a, <Fr as Frame>::Signed> {
            assert_eq!(cx.tk.word(), "map");
            let id = cx.tk.int();
            assert_eq!(cx.tk.int(), 9);
            let _k = cx.tk.int();
            let s = parse(cx);
            dy(s.map(move |x: Fr| {
                log(&[3, id]);
                x.to_signed_frame()
            }))
        }
    };
    (@float same) => {
        fn parse_float<'t, 'a>(cx: &mut Cx<'t, 'a>) -> Dyn<'a, Fr> {
            parse(cx)
        }
    };
    (@float conv) => {
        /// the Float-format second source of mul_amp: `map <id> 8 <k> <tree>` = tree.map(to_float_frame)
        fn parse_float<'t, 'a>(cx: &mut Cx<'t, 'a>) -> Dyn<'a, <Fr as Frame>::Float> {
            assert_eq!(cx.tk.word(), "map");
            let id = cx.tk.int();
            assert_eq!(cx.tk.int(), 8);
            let _k = cx.tk.int();
            let s = parse(cx);
            dy(s.map(move |x: Fr| {
                log(&[3, id]);
                x.to_float_frame()
            }))
        }
    };
    (@float none) => {
        fn parse_float<'t, 'a>(_cx: &mut Cx<'t, 'a>) -> Dyn<'a, <Fr as Frame>::Float> {
            panic!("mul_amp between signals is only driven for the float formats")
        }
    };
}

/// words that register a leaf handle when parsed (`ref` registers as many as its base has: the
/// lift bodies generated never contain `ref` before `arg`)
fn is_leaf_word(w: &str) -> bool {
    matches!(w, "iter" | "samp" | "gen" | "genmut")
}

fmt_mod!(i16x2, [i16; 2], i16, i16, [i16; 2], f32, [f32; 2], same, none, yes);
fmt_mod!(u8x3, [u8; 3], u8, i8, [i8; 3], f32, [f32; 3], conv, none, yes);
fmt_mod!(i32x1, i32, i32, i32, i32, f32, f32, same, none, yes);
fmt_mod!(f64x1, f64, f64, f64, f64, f64, f64, same, same, yes);
fmt_mod!(f32x2, [f32; 2], f32, f32, [f32; 2], f32, [f32; 2], same, same, yes);
// every other sample format (Signed / Float companions per impl_sample!)
fmt_mod!(i24x1, I24, I24, I24, I24, f32, f32, same, conv, yes);
fmt_mod!(i24x2, [I24; 2], I24, I24, [I24; 2], f32, [f32; 2], same, conv, no);
fmt_mod!(u24x1, U24, U24, i32, i32, f32, f32, conv, conv, no);
fmt_mod!(u24x3, [U24; 3], U24, i32, [i32; 3], f32, [f32; 3], conv, conv, no);
fmt_mod!(i48x1, I48, I48, I48, I48, f64, f64, same, conv, no);
fmt_mod!(i48x2, [I48; 2], I48, I48, [I48; 2], f64, [f64; 2], same, conv, no);
fmt_mod!(u48x1, U48, U48, i64, i64, f64, f64, conv, conv, yes);
fmt_mod!(u48x2, [U48; 2], U48, i64, [i64; 2], f64, [f64; 2], conv, conv, no);
fmt_mod!(i8x2, [i8; 2], i8, i8, [i8; 2], f32, [f32; 2], same, conv, no);
fmt_mod!(u16x1, u16, u16, i16, i16, f32, f32, conv, conv, no);
fmt_mod!(u32x2, [u32; 2], u32, i32, [i32; 2], f32, [f32; 2], conv, conv, no);
fmt_mod!(i64x1, i64, i64, i64, i64, f64, f64, same, conv, no);
fmt_mod!(u64x1, u64, u64, i64, i64, f64, f64, conv, conv, no);
fmt_mod!(u64x2, [u64; 2], u64, i64, [i64; 2], f64, [f64; 2], conv, conv, no);

fn main() {
    serve(|l| {
        let parts: Vec<&str> = l.split(';').collect();
        let fmt = parts[0].trim().to_string();
        let mut out: Vec<String> = Vec::new();
        let r = catch(|| match fmt.as_str() {
            "i16x2" => i16x2::run(&parts[1..], &mut out),
            "u8x3" => u8x3::run(&parts[1..], &mut out),
            "i32x1" => i32x1::run(&parts[1..], &mut out),
            "f64x1" => f64x1::run(&parts[1..], &mut out),
            "f32x2" => f32x2::run(&parts[1..], &mut out),
            "i24x1" => i24x1::run(&parts[1..], &mut out),
            "i24x2" => i24x2::run(&parts[1..], &mut out),
            "u24x1" => u24x1::run(&parts[1..], &mut out),
            "u24x3" => u24x3::run(&parts[1..], &mut out),
            "i48x1" => i48x1::run(&parts[1..], &mut out),
            "i48x2" => i48x2::run(&parts[1..], &mut out),
            "u48x1" => u48x1::run(&parts[1..], &mut out),
            "u48x2" => u48x2::run(&parts[1..], &mut out),
            "i8x2" => i8x2::run(&parts[1..], &mut out),
            "u16x1" => u16x1::run(&parts[1..], &mut out),
            "u32x2" => u32x2::run(&parts[1..], &mut out),
            "i64x1" => i64x1::run(&parts[1..], &mut out),
            "u64x1" => u64x1::run(&parts[1..], &mut out),
            "u64x2" => u64x2::run(&parts[1..], &mut out),
            other => panic!("unknown format {}", other),
        });
        drain();
        if let Err(c) = r {
            out.push(obs(8, &[c]));
        }
        out.join(";")
    });
}
