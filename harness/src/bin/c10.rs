//! C10: drives dasp_slice's sample<->frame slice views (shared, mutable, boxed) and the
//! in-place slice operations through the public API.
//!
//! Input lines (integer groups separated by ';'):
//!   `V <fmt> <N> ; d0 d1 ... ; wi wc wx ; wi wc wx ; sj sx ; sj sx`
//!   `B <fmt> <N> ; d0 d1 ...`
//!   `Z <op> <fmt> <k> ; a flat (2 per frame) ; b flat ; amp0 amp1`
//! fmt (V, B): 0 u8, 1 i16, 2 f32 (bit patterns), 3 I24 (inner), 4 u64
//! fmt (Z):    0 [i32; 2], 1 [f32; 2] (bit patterns), 2 [u8; 2], 3 f32 (a bare sample as a
//!             one-channel frame: one value per frame, amp = one value)
//! op: 0 equilibrium, 1 map_in_place, 2 zip_map_in_place, 3 write, 4 add_in_place,
//!     5 add_in_place_with_amp_per_channel
//!   `W <op> <fmt> <shape> ; a flat ; b flat ; amp (one value per channel) ; k`
//! the in-place operations over EVERY sample format: fmt = 0 i8, 1 i16, 2 I24, 3 i32, 4 I48, 5 i64, 6 u8, 7 u16,
//! 8 U24, 9 u32, 10 U48, 11 u64, 12 f32, 13 f64 (the codes of C03) is FA's sample format; shape 0 = the bare sample
//! type is the frame, 2 / 3 = [S; 2] / [S; 3]; b = frames of the Signed format (op 3 write: of FA's format), amp = a
//! frame of the Float format of the Signed format, k = a Signed sample.  Values may need more than 64 bits (u64,
//! f64 bit patterns): parsed and printed as i128.  op 1 = map_in_place(a, |f| f.offset_amp(k)),
//! op 2 = zip_map_in_place(a, b, |x, y| x.add_amp(y.scale_amp(amp[0]))).  A panic inside the frame operation (the
//! overflow check of `+`: code 1, the `expect` of the I24/I48 operators: code 4) is caught and the destination
//! printed as it was left.
//!   `I <fmt> ; d0 d1 ...`   the identity impls (a slice of samples viewed as a slice of samples, a slice of
//! [S; 2] frames viewed as a slice of the same frames, shared / mutable / boxed) and the free-function forms
//! `to_boxed_frame_slice` / `to_boxed_sample_slice`; fmt as for V.
//!
//! Observations: `0` None, `1 same len ...` a view (same = 1 iff its data pointer equals the
//! original's; raw addresses are never printed), `4 d` a live-heap-bytes delta, `5 ...` contents,
//! `7` completed, `8 code` panic.
use dasp_frame::Frame;
use dasp_sample::{Sample, I24, I48, U24, U48};
use dasp_slice::{ToBoxedFrameSlice, ToBoxedSampleSlice};
use dasp_verif_harness::*;
use std::alloc::{GlobalAlloc, Layout, System};
use std::sync::atomic::{AtomicI64, Ordering};

// ---------------------------------------------------------------------------
// counting allocator: live heap bytes of this process

struct Counting;
static LIVE: AtomicI64 = AtomicI64::new(0);

unsafe impl GlobalAlloc for Counting {
    unsafe fn alloc(&self, l: Layout) -> *mut u8 {
        let p = System.alloc(l);
        if !p.is_null() {
            LIVE.fetch_add(l.size() as i64, Ordering::SeqCst);
        }
        p
    }
    unsafe fn dealloc(&self, p: *mut u8, l: Layout) {
        LIVE.fetch_sub(l.size() as i64, Ordering::SeqCst);
        System.dealloc(p, l)
    }
    unsafe fn realloc(&self, p: *mut u8, l: Layout, new_size: usize) -> *mut u8 {
        let q = System.realloc(p, l, new_size);
        if !q.is_null() {
            LIVE.fetch_add(new_size as i64 - l.size() as i64, Ordering::SeqCst);
        }
        q
    }
}

#[global_allocator]
static ALLOC: Counting = Counting;

fn live() -> i64 {
    LIVE.load(Ordering::SeqCst)
}

// ---------------------------------------------------------------------------
// sample formats: lossless to/from i64 (floats as raw bit patterns)

trait Smp: Sample {
    fn from_i64(x: i64) -> Self;
    fn to_i64(self) -> i64;
}
impl Smp for u8 {
    fn from_i64(x: i64) -> Self {
        x as u8
    }
    fn to_i64(self) -> i64 {
        self as i64
    }
}
impl Smp for i16 {
    fn from_i64(x: i64) -> Self {
        x as i16
    }
    fn to_i64(self) -> i64 {
        self as i64
    }
}
impl Smp for f32 {
    fn from_i64(x: i64) -> Self {
        f32::from_bits(x as u32)
    }
    fn to_i64(self) -> i64 {
        self.to_bits() as i64
    }
}
impl Smp for I24 {
    fn from_i64(x: i64) -> Self {
        I24::new_unchecked(x as i32)
    }
    fn to_i64(self) -> i64 {
        self.inner() as i64
    }
}
impl Smp for u64 {
    fn from_i64(x: i64) -> Self {
        x as u64
    }
    fn to_i64(self) -> i64 {
        self as i64
    }
}

fn b(x: bool) -> i64 {
    x as i64
}

fn flat_frames<S: Smp, const N: usize>(fs: &[[S; N]]) -> Vec<i64> {
    let mut v = Vec::with_capacity(fs.len() * N);
    for f in fs.iter() {
        for c in 0..N {
            v.push(f[c].to_i64());
        }
    }
    v
}

fn flat_samples<S: Smp>(ss: &[S]) -> Vec<i64> {
    ss.iter().map(|s| s.to_i64()).collect()
}

/// `1 same len contents...` for a frame view
fn fview<S: Smp, const N: usize>(p0: usize, fs: &[[S; N]]) -> String {
    let mut v = vec![b(fs.as_ptr() as usize == p0), fs.len() as i64];
    v.extend(flat_frames(fs));
    obs(1, &v)
}

fn sview<S: Smp>(p0: usize, ss: &[S]) -> String {
    let mut v = vec![b(ss.as_ptr() as usize == p0), ss.len() as i64];
    v.extend(flat_samples(ss));
    obs(1, &v)
}

fn status(r: Result<(), i64>) -> String {
    match r {
        Ok(()) => obs(7, &[]),
        Err(c) => obs(8, &[c]),
    }
}

// ---------------------------------------------------------------------------
// one instance of every conversion per channel count (the impls are macro-generated per N)

macro_rules! view_body {
    ($S:ident, $N:literal, $g:expr) => {{
        let g: &Vec<Vec<i64>> = $g;
        let (d, w1, w2, s1, s2) = (&g[1], &g[2], &g[3], &g[4], &g[5]);
        let mut out: Vec<String> = Vec::new();
        let mut v: Vec<$S> = d.iter().map(|&x| <$S as Smp>::from_i64(x)).collect();
        let p0 = v.as_ptr() as usize;
        // 1. to_frame_slice (free function -> ToFrameSlice -> FromSampleSlice)
        out.push(match dasp_slice::to_frame_slice::<&[$S], [$S; $N]>(&v[..]) {
            None => obs(0, &[]),
            Some(fs) => fview::<$S, $N>(p0, fs),
        });
        // 2. from_sample_slice
        out.push(match dasp_slice::from_sample_slice::<&[[$S; $N]], $S>(&v[..]) {
            None => obs(0, &[]),
            Some(fs) => fview::<$S, $N>(p0, fs),
        });
        // 3. to_frame_slice_mut, then a store through the view, then the original
        match dasp_slice::to_frame_slice_mut::<&mut [$S], [$S; $N]>(&mut v[..]) {
            None => {
                out.push(obs(0, &[]));
                out.push(obs(0, &[]));
            }
            Some(fs) => {
                out.push(obs(1, &[b(fs.as_ptr() as usize == p0), fs.len() as i64]));
                let (wi, wc, wx) = (w1[0] as usize, w1[1] as usize, <$S as Smp>::from_i64(w1[2]));
                out.push(status(catch(|| {
                    fs[wi][wc] = wx;
                })));
            }
        }
        out.push(obs(5, &flat_samples(&v[..])));
        // 4. from_sample_slice_mut, second store
        match dasp_slice::from_sample_slice_mut::<&mut [[$S; $N]], $S>(&mut v[..]) {
            None => {
                out.push(obs(0, &[]));
                out.push(obs(0, &[]));
            }
            Some(fs) => {
                out.push(obs(1, &[b(fs.as_ptr() as usize == p0), fs.len() as i64]));
                let (wi, wc, wx) = (w2[0] as usize, w2[1] as usize, <$S as Smp>::from_i64(w2[2]));
                out.push(status(catch(|| {
                    fs[wi][wc] = wx;
                })));
            }
        }
        out.push(obs(5, &flat_samples(&v[..])));
        // 5. samples -> frames -> samples
        out.push(match dasp_slice::to_frame_slice::<&[$S], [$S; $N]>(&v[..]) {
            None => obs(0, &[]),
            Some(fs) => sview::<$S>(p0, dasp_slice::to_sample_slice::<&[[$S; $N]], $S>(fs)),
        });
        // a separate allocation holding the first L/N frames of the current samples
        let k = v.len() / $N;
        let mut fv: Vec<[$S; $N]> = (0..k)
            .map(|i| {
                let mut f = [<$S as Smp>::from_i64(0); $N];
                f.copy_from_slice(&v[i * $N..(i + 1) * $N]);
                f
            })
            .collect();
        let q0 = fv.as_ptr() as usize;
        // 6. to_sample_slice   7. from_frame_slice
        out.push(sview::<$S>(q0, dasp_slice::to_sample_slice::<&[[$S; $N]], $S>(&fv[..])));
        out.push(sview::<$S>(q0, dasp_slice::from_frame_slice::<&[$S], [$S; $N]>(&fv[..])));
        // 8. to_sample_slice_mut + store, 9. from_frame_slice_mut + store
        {
            let ss = dasp_slice::to_sample_slice_mut::<&mut [[$S; $N]], $S>(&mut fv[..]);
            out.push(obs(1, &[b(ss.as_ptr() as usize == q0), ss.len() as i64]));
            let (sj, sx) = (s1[0] as usize, <$S as Smp>::from_i64(s1[1]));
            out.push(status(catch(|| {
                ss[sj] = sx;
            })));
        }
        out.push(obs(5, &flat_frames::<$S, $N>(&fv[..])));
        {
            let ss = dasp_slice::from_frame_slice_mut::<&mut [$S], [$S; $N]>(&mut fv[..]);
            out.push(obs(1, &[b(ss.as_ptr() as usize == q0), ss.len() as i64]));
            let (sj, sx) = (s2[0] as usize, <$S as Smp>::from_i64(s2[1]));
            out.push(status(catch(|| {
                ss[sj] = sx;
            })));
        }
        out.push(obs(5, &flat_frames::<$S, $N>(&fv[..])));
        // 10. frames -> samples -> frames
        {
            let ss = dasp_slice::to_sample_slice::<&[[$S; $N]], $S>(&fv[..]);
            out.push(match dasp_slice::to_frame_slice::<&[$S], [$S; $N]>(ss) {
                None => obs(0, &[]),
                Some(fs) => fview::<$S, $N>(q0, fs),
            });
        }
        out.join(";")
    }};
}

macro_rules! boxed_body {
    ($S:ident, $N:literal, $g:expr) => {{
        let g: &Vec<Vec<i64>> = $g;
        let d = &g[1];
        // every number is taken before any string is built: nothing else is allocated
        // between two readings of the live-byte counter around a step
        let mut rec: Vec<Vec<i64>> = Vec::with_capacity(16);
        for form in 0..2 {
            let l0 = live();
            let bx: Box<[$S]> = d.iter().map(|&x| <$S as Smp>::from_i64(x)).collect::<Vec<$S>>().into_boxed_slice();
            let l1 = live();
            rec.push(vec![4, l1 - l0]);
            let p0 = bx.as_ptr() as usize;
            let a0 = live();
            let r: Option<Box<[[$S; $N]]>> = if form == 0 {
                <Box<[$S]> as ToBoxedFrameSlice<[$S; $N]>>::to_boxed_frame_slice(bx)
            } else {
                dasp_slice::from_boxed_sample_slice::<Box<[[$S; $N]]>, $S>(bx)
            };
            let a1 = live();
            match r {
                None => rec.push(vec![0, a1 - a0]),
                Some(fb) => {
                    let mut o = vec![1, b(fb.as_ptr() as usize == p0), fb.len() as i64, a1 - a0];
                    o.extend(flat_frames::<$S, $N>(&fb[..]));
                    rec.push(o);
                    let c0 = live();
                    let sb: Box<[$S]> = if form == 0 {
                        <Box<[[$S; $N]]> as ToBoxedSampleSlice<$S>>::to_boxed_sample_slice(fb)
                    } else {
                        dasp_slice::from_boxed_frame_slice::<Box<[$S]>, [$S; $N]>(fb)
                    };
                    let c1 = live();
                    let mut o = vec![1, b(sb.as_ptr() as usize == p0), sb.len() as i64, c1 - c0];
                    o.extend(flat_samples::<$S>(&sb[..]));
                    rec.push(o);
                    let e0 = live();
                    drop(sb);
                    let e1 = live();
                    rec.push(vec![4, e1 - e0]);
                }
            }
        }
        rec.iter().map(|o| obs(o[0], &o[1..])).collect::<Vec<_>>().join(";")
    }};
}

macro_rules! per_n {
    ($($N:literal)*) => {
        fn view_case<S: Smp>(n: i64, g: &Vec<Vec<i64>>) -> String {
            match n {
                $( $N => view_body!(S, $N, g), )*
                _ => panic!("channel count {} has no impl", n),
            }
        }
        fn boxed_case<S: Smp>(n: i64, g: &Vec<Vec<i64>>) -> String {
            match n {
                $( $N => boxed_body!(S, $N, g), )*
                _ => panic!("channel count {} has no impl", n),
            }
        }
    };
}

per_n! {
    1 2 3 4 5 6 7 8 9 10 11 12 13 14 15 16 17 18 19 20 21 22 23 24 25 26 27 28 29 30 31 32
}

// ---------------------------------------------------------------------------
// in-place operations on slices of 2-channel frames

fn c32(x: f32) -> i64 {
    if x.is_nan() {
        0x7fc0_0000
    } else {
        x.to_bits() as i64
    }
}

fn pairs<T: Copy>(v: &[i64], f: impl Fn(i64) -> T) -> Vec<[T; 2]> {
    v.chunks(2).map(|c| [f(c[0]), f(c[1])]).collect()
}

fn op_case(op: i64, fmt: i64, k: i64, g: &Vec<Vec<i64>>) -> String {
    let (af, bf, amp) = (&g[1], &g[2], &g[3]);
    match fmt {
        0 => {
            let mut a: Vec<[i32; 2]> = pairs(af, |x| x as i32);
            let bb: Vec<[i32; 2]> = pairs(bf, |x| x as i32);
            let enc = |a: &Vec<[i32; 2]>| a.iter().flat_map(|f| vec![f[0] as i64, f[1] as i64]).collect::<Vec<i64>>();
            let before = enc(&a);
            let k = k as i32;
            let st = catch(|| match op {
                0 => dasp_slice::equilibrium(&mut a[..]),
                1 => dasp_slice::map_in_place(&mut a[..], |f| [f[1] + k, 2 * f[0]]),
                2 => dasp_slice::zip_map_in_place(&mut a[..], &bb[..], |x: [i32; 2], y: [i32; 2]| [x[0] - y[1], x[1] + 2 * y[0]]),
                3 => dasp_slice::write(&mut a[..], &bb[..]),
                4 => dasp_slice::add_in_place(&mut a[..], &bb[..]),
                _ => panic!("op {} not available for i32 frames", op),
            });
            format!("{};{};{}", obs(5, &before), status(st), obs(5, &enc(&a)))
        }
        1 => {
            let mut a: Vec<[f32; 2]> = pairs(af, |x| f32::from_bits(x as u32));
            let bb: Vec<[f32; 2]> = pairs(bf, |x| f32::from_bits(x as u32));
            let am: [f32; 2] = [f32::from_bits(amp[0] as u32), f32::from_bits(amp[1] as u32)];
            let enc = |a: &Vec<[f32; 2]>| a.iter().flat_map(|f| vec![c32(f[0]), c32(f[1])]).collect::<Vec<i64>>();
            let before = enc(&a);
            let st = catch(|| match op {
                0 => dasp_slice::equilibrium(&mut a[..]),
                3 => dasp_slice::write(&mut a[..], &bb[..]),
                4 => dasp_slice::add_in_place(&mut a[..], &bb[..]),
                5 => dasp_slice::add_in_place_with_amp_per_channel(&mut a[..], &bb[..], am),
                _ => panic!("op {} not available for f32 frames", op),
            });
            format!("{};{};{}", obs(5, &before), status(st), obs(5, &enc(&a)))
        }
        3 => {
            let mut a: Vec<f32> = af.iter().map(|&x| f32::from_bits(x as u32)).collect();
            let bb: Vec<f32> = bf.iter().map(|&x| f32::from_bits(x as u32)).collect();
            let am: f32 = f32::from_bits(amp[0] as u32);
            let enc = |a: &Vec<f32>| a.iter().map(|&f| c32(f)).collect::<Vec<i64>>();
            let before = enc(&a);
            let st = catch(|| match op {
                0 => dasp_slice::equilibrium(&mut a[..]),
                3 => dasp_slice::write(&mut a[..], &bb[..]),
                4 => dasp_slice::add_in_place(&mut a[..], &bb[..]),
                5 => dasp_slice::add_in_place_with_amp_per_channel(&mut a[..], &bb[..], am),
                _ => panic!("op {} not available for mono f32 frames", op),
            });
            format!("{};{};{}", obs(5, &before), status(st), obs(5, &enc(&a)))
        }
        _ => {
            let mut a: Vec<[u8; 2]> = pairs(af, |x| x as u8);
            let bb: Vec<[u8; 2]> = pairs(bf, |x| x as u8);
            let enc = |a: &Vec<[u8; 2]>| a.iter().flat_map(|f| vec![f[0] as i64, f[1] as i64]).collect::<Vec<i64>>();
            let before = enc(&a);
            let st = catch(|| match op {
                0 => dasp_slice::equilibrium(&mut a[..]),
                3 => dasp_slice::write(&mut a[..], &bb[..]),
                _ => panic!("op {} not available for u8 frames", op),
            });
            format!("{};{};{}", obs(5, &before), status(st), obs(5, &enc(&a)))
        }
    }
}

// ---------------------------------------------------------------------------
// `W`: the in-place operations over every sample format and three frame shapes

/// lossless transport of a sample of any of the 14 formats (floats as bit patterns, NaN canonicalised on output)
trait Cd: Copy {
    fn mk(v: i128) -> Self;
    fn val(self) -> i128;
}
macro_rules! prim_cd { ($($T:ty)*) => {$( impl Cd for $T {
    #[inline] fn mk(v: i128) -> Self { v as $T }
    #[inline] fn val(self) -> i128 { self as i128 }
} )*}; }
prim_cd! { i8 i16 i32 i64 u8 u16 u32 u64 }
macro_rules! custom_cd { ($($T:ident $Rep:ty;)*) => {$( impl Cd for $T {
    #[inline] fn mk(v: i128) -> Self { $T::new_unchecked(v as $Rep) }
    #[inline] fn val(self) -> i128 { self.inner() as i128 }
} )*}; }
custom_cd! { I24 i32; I48 i64; U24 i32; U48 i64; }
impl Cd for f32 {
    fn mk(v: i128) -> Self { f32::from_bits(v as u32) }
    fn val(self) -> i128 { if self.is_nan() { 0x7FC0_0000 } else { self.to_bits() as i128 } }
}
impl Cd for f64 {
    fn mk(v: i128) -> Self { f64::from_bits(v as u64) }
    fn val(self) -> i128 { if self.is_nan() { 0x7FF8_0000_0000_0000 } else { self.to_bits() as i128 } }
}

/// a frame type built from / flattened to its channel values without going through dasp_frame's own constructors
trait Fr: Frame {
    fn build(v: &[i128]) -> Self;
    fn flat(&self, out: &mut Vec<i128>);
}
impl<S: Sample + Cd, const N: usize> Fr for [S; N]
where
    [S; N]: Frame<Sample = S>,
{
    fn build(v: &[i128]) -> Self {
        assert!(v.len() == N, "harness: frame with {} values, N = {}", v.len(), N);
        core::array::from_fn(|i| S::mk(v[i]))
    }
    fn flat(&self, out: &mut Vec<i128>) {
        for s in self.iter() {
            out.push(s.val());
        }
    }
}
macro_rules! bare_fr { ($($T:ty)*) => {$( impl Fr for $T {
    fn build(v: &[i128]) -> Self { assert!(v.len() == 1, "harness: bare frame with {} values", v.len()); <$T as Cd>::mk(v[0]) }
    fn flat(&self, out: &mut Vec<i128>) { out.push(self.val()); }
} )*}; }
bare_fr! { i8 i16 I24 i32 I48 i64 u8 u16 U24 u32 U48 u64 f32 f64 }

fn frames<F: Fr>(v: &[i128]) -> Vec<F> {
    assert!(v.len() % F::CHANNELS == 0, "harness: {} values for {}-channel frames", v.len(), F::CHANNELS);
    v.chunks(F::CHANNELS).map(|c| F::build(c)).collect()
}
fn flat_all<F: Fr>(fs: &[F]) -> Vec<i128> {
    let mut out = Vec::with_capacity(fs.len() * F::CHANNELS);
    for f in fs {
        f.flat(&mut out);
    }
    out
}
fn obs128(tag: i64, v: &[i128]) -> String {
    let mut s = tag.to_string();
    for x in v {
        s.push(' ');
        s.push_str(&x.to_string());
    }
    s
}

/// panic kinds as the model's: 1 rustc overflow check, 2 index, 3 assert, 4 `expect` of the I24/I48 operators
fn catch_w<T>(f: impl FnOnce() -> T) -> Result<T, i64> {
    std::panic::catch_unwind(std::panic::AssertUnwindSafe(f)).map_err(|p| {
        let msg: String = if let Some(s) = p.downcast_ref::<&str>() {
            s.to_string()
        } else if let Some(s) = p.downcast_ref::<String>() {
            s.clone()
        } else {
            String::new()
        };
        if msg == "arithmetic operation overflowed" {
            4
        } else if msg.contains("overflow") {
            1
        } else if msg.contains("assertion") {
            3
        } else if msg.contains("out of bounds") || msg.contains("out of range") {
            2
        } else {
            9
        }
    })
}

fn w_run<FA, FB, A>(op: i64, g: &[Vec<i128>]) -> String
where
    FA: Fr,
    FB: Fr + Frame<Sample = <FA::Sample as Sample>::Signed, NumChannels = FA::NumChannels>,
    A: Fr + Frame<Sample = <FB::Sample as Sample>::Float, NumChannels = FB::NumChannels>,
    FB::Sample: Cd,
    A::Sample: Cd,
{
    let mut a: Vec<FA> = frames(&g[1]);
    let before = flat_all(&a);
    let st = catch_w(|| match op {
        0 => dasp_slice::equilibrium(&mut a[..]),
        1 => {
            let k = <FB::Sample as Cd>::mk(g[4][0]);
            dasp_slice::map_in_place(&mut a[..], |f: FA| f.offset_amp(k))
        }
        2 => {
            let bb: Vec<FB> = frames(&g[2]);
            let gain = <A::Sample as Cd>::mk(g[3][0]);
            dasp_slice::zip_map_in_place(&mut a[..], &bb[..], |x: FA, y: FB| x.add_amp(y.scale_amp(gain)))
        }
        3 => {
            let bb: Vec<FA> = frames(&g[2]);
            dasp_slice::write(&mut a[..], &bb[..])
        }
        4 => {
            let bb: Vec<FB> = frames(&g[2]);
            dasp_slice::add_in_place(&mut a[..], &bb[..])
        }
        5 => {
            let bb: Vec<FB> = frames(&g[2]);
            let amp: A = A::build(&g[3]);
            dasp_slice::add_in_place_with_amp_per_channel(&mut a[..], &bb[..], amp)
        }
        _ => panic!("harness: unknown W op {}", op),
    });
    let status = match st {
        Ok(()) => "7".to_string(),
        Err(c) => format!("8 {}", c),
    };
    format!("{};{};{}", obs128(5, &before), status, obs128(5, &flat_all(&a)))
}

macro_rules! w_fmt {
    ($op:expr, $shape:expr, $g:expr, $S:ty, $SG:ty, $FL:ty) => {
        match $shape {
            0 => w_run::<$S, $SG, $FL>($op, $g),
            2 => w_run::<[$S; 2], [$SG; 2], [$FL; 2]>($op, $g),
            3 => w_run::<[$S; 3], [$SG; 3], [$FL; 3]>($op, $g),
            n => panic!("harness: no W instance for shape {}", n),
        }
    };
}

fn w_case(line: &str) -> String {
    let rest = &line[line.find('W').unwrap() + 1..];
    let mut g: Vec<Vec<i128>> = rest
        .split(';')
        .map(|p| p.split_whitespace().map(|t| t.parse::<i128>().expect("int token")).collect())
        .collect();
    while g.len() < 5 {
        g.push(Vec::new());
    }
    if g[4].is_empty() {
        g[4].push(0);
    }
    let (op, fmt, shape) = (g[0][0] as i64, g[0][1], g[0][2]);
    match fmt {
        0 => w_fmt!(op, shape, &g, i8, i8, f32),
        1 => w_fmt!(op, shape, &g, i16, i16, f32),
        2 => w_fmt!(op, shape, &g, I24, I24, f32),
        3 => w_fmt!(op, shape, &g, i32, i32, f32),
        4 => w_fmt!(op, shape, &g, I48, I48, f64),
        5 => w_fmt!(op, shape, &g, i64, i64, f64),
        6 => w_fmt!(op, shape, &g, u8, i8, f32),
        7 => w_fmt!(op, shape, &g, u16, i16, f32),
        8 => w_fmt!(op, shape, &g, U24, i32, f32),
        9 => w_fmt!(op, shape, &g, u32, i32, f32),
        10 => w_fmt!(op, shape, &g, U48, i64, f64),
        11 => w_fmt!(op, shape, &g, u64, i64, f64),
        12 => w_fmt!(op, shape, &g, f32, f32, f32),
        13 => w_fmt!(op, shape, &g, f64, f64, f64),
        n => panic!("harness: unknown W format {}", n),
    }
}

// ---------------------------------------------------------------------------
// `I`: the identity impls (a slice of S as a slice of S, a slice of F as a slice of F; shared, mutable, boxed) and
// the free-function forms `to_boxed_frame_slice` / `to_boxed_sample_slice`

macro_rules! ident_body {
    ($S:ident, $g:expr) => {{
        let g: &Vec<Vec<i64>> = $g;
        let d = &g[1];
        let mut out: Vec<String> = Vec::new();
        let mut v: Vec<$S> = d.iter().map(|&x| <$S as Smp>::from_i64(x)).collect();
        let p0 = v.as_ptr() as usize;
        // samples as samples: FromSampleSlice / ToSampleSlice (+ Mut) for &[S]
        out.push(match dasp_slice::from_sample_slice::<&[$S], $S>(&v[..]) {
            None => obs(0, &[]),
            Some(ss) => sview::<$S>(p0, ss),
        });
        out.push(sview::<$S>(p0, dasp_slice::to_sample_slice::<&[$S], $S>(&v[..])));
        out.push(match dasp_slice::from_sample_slice_mut::<&mut [$S], $S>(&mut v[..]) {
            None => obs(0, &[]),
            Some(ss) => obs(1, &[b(ss.as_ptr() as usize == p0), ss.len() as i64]),
        });
        {
            let ss = dasp_slice::to_sample_slice_mut::<&mut [$S], $S>(&mut v[..]);
            out.push(obs(1, &[b(ss.as_ptr() as usize == p0), ss.len() as i64]));
        }
        // frames as frames: FromFrameSlice / ToFrameSlice (+ Mut) for &[F], F = [S; 2]
        let k = v.len() / 2;
        let mut fv: Vec<[$S; 2]> = (0..k).map(|i| [v[2 * i], v[2 * i + 1]]).collect();
        let q0 = fv.as_ptr() as usize;
        out.push(fview::<$S, 2>(q0, dasp_slice::from_frame_slice::<&[[$S; 2]], [$S; 2]>(&fv[..])));
        out.push(match dasp_slice::to_frame_slice::<&[[$S; 2]], [$S; 2]>(&fv[..]) {
            None => obs(0, &[]),
            Some(fs) => fview::<$S, 2>(q0, fs),
        });
        {
            let fs = dasp_slice::from_frame_slice_mut::<&mut [[$S; 2]], [$S; 2]>(&mut fv[..]);
            out.push(obs(1, &[b(fs.as_ptr() as usize == q0), fs.len() as i64]));
        }
        out.push(match dasp_slice::to_frame_slice_mut::<&mut [[$S; 2]], [$S; 2]>(&mut fv[..]) {
            None => obs(0, &[]),
            Some(fs) => obs(1, &[b(fs.as_ptr() as usize == q0), fs.len() as i64]),
        });
        // boxed identities: every number is taken before any string is built
        let mut rec: Vec<Vec<i64>> = Vec::with_capacity(16);
        {
            let bx: Box<[$S]> = v.clone().into_boxed_slice();
            let p = bx.as_ptr() as usize;
            let l0 = live();
            let r = dasp_slice::from_boxed_sample_slice::<Box<[$S]>, $S>(bx);
            let l1 = live();
            match r {
                None => rec.push(vec![0, l1 - l0]),
                Some(sb) => {
                    let mut o = vec![1, b(sb.as_ptr() as usize == p), sb.len() as i64, l1 - l0];
                    o.extend(flat_samples::<$S>(&sb[..]));
                    rec.push(o);
                    let l2 = live();
                    let sb2 = dasp_slice::to_boxed_sample_slice::<Box<[$S]>, $S>(sb);
                    let l3 = live();
                    let mut o = vec![1, b(sb2.as_ptr() as usize == p), sb2.len() as i64, l3 - l2];
                    o.extend(flat_samples::<$S>(&sb2[..]));
                    rec.push(o);
                }
            }
            let fb: Box<[[$S; 2]]> = fv.clone().into_boxed_slice();
            let q = fb.as_ptr() as usize;
            let l0 = live();
            let r = dasp_slice::to_boxed_frame_slice::<Box<[[$S; 2]]>, [$S; 2]>(fb);
            let l1 = live();
            match r {
                None => rec.push(vec![0, l1 - l0]),
                Some(fb1) => {
                    let mut o = vec![1, b(fb1.as_ptr() as usize == q), fb1.len() as i64, l1 - l0];
                    o.extend(flat_frames::<$S, 2>(&fb1[..]));
                    rec.push(o);
                    let l2 = live();
                    let fb2 = dasp_slice::from_boxed_frame_slice::<Box<[[$S; 2]]>, [$S; 2]>(fb1);
                    let l3 = live();
                    let mut o = vec![1, b(fb2.as_ptr() as usize == q), fb2.len() as i64, l3 - l2];
                    o.extend(flat_frames::<$S, 2>(&fb2[..]));
                    rec.push(o);
                }
            }
        }
        // the free-function forms of the real conversions (N = 2): samples -> frames -> samples
        {
            let l0 = live();
            let bx: Box<[$S]> = d.iter().map(|&x| <$S as Smp>::from_i64(x)).collect::<Vec<$S>>().into_boxed_slice();
            let l1 = live();
            rec.push(vec![4, l1 - l0]);
            let p = bx.as_ptr() as usize;
            let a0 = live();
            let r = dasp_slice::to_boxed_frame_slice::<Box<[$S]>, [$S; 2]>(bx);
            let a1 = live();
            match r {
                None => rec.push(vec![0, a1 - a0]),
                Some(fb) => {
                    let mut o = vec![1, b(fb.as_ptr() as usize == p), fb.len() as i64, a1 - a0];
                    o.extend(flat_frames::<$S, 2>(&fb[..]));
                    rec.push(o);
                    let c0 = live();
                    let sb = dasp_slice::to_boxed_sample_slice::<Box<[[$S; 2]]>, $S>(fb);
                    let c1 = live();
                    let mut o = vec![1, b(sb.as_ptr() as usize == p), sb.len() as i64, c1 - c0];
                    o.extend(flat_samples::<$S>(&sb[..]));
                    rec.push(o);
                    let e0 = live();
                    drop(sb);
                    let e1 = live();
                    rec.push(vec![4, e1 - e0]);
                }
            }
        }
        out.extend(rec.iter().map(|o| obs(o[0], &o[1..])));
        out.join(";")
    }};
}

fn ident_case<S: Smp>(g: &Vec<Vec<i64>>) -> String {
    ident_body!(S, g)
}

fn main() {
    serve(|line| {
        let kind = line.split_whitespace().next().unwrap_or("");
        if kind == "W" {
            return w_case(line);
        }
        let rest = &line[line.find(kind).unwrap() + kind.len()..];
        let mut g: Vec<Vec<i64>> = rest.split(';').map(ints).collect();
        while g.len() < 6 {
            g.push(Vec::new());
        }
        let h = g[0].clone();
        match kind {
            "V" => match h[0] {
                0 => view_case::<u8>(h[1], &g),
                1 => view_case::<i16>(h[1], &g),
                2 => view_case::<f32>(h[1], &g),
                3 => view_case::<I24>(h[1], &g),
                _ => view_case::<u64>(h[1], &g),
            },
            "B" => match h[0] {
                0 => boxed_case::<u8>(h[1], &g),
                1 => boxed_case::<i16>(h[1], &g),
                2 => boxed_case::<f32>(h[1], &g),
                3 => boxed_case::<I24>(h[1], &g),
                _ => boxed_case::<u64>(h[1], &g),
            },
            "I" => match h[0] {
                0 => ident_case::<u8>(&g),
                1 => ident_case::<i16>(&g),
                2 => ident_case::<f32>(&g),
                3 => ident_case::<I24>(&g),
                _ => ident_case::<u64>(&g),
            },
            "Z" => op_case(h[0], h[1], h[2], &g),
            other => panic!("unknown case kind {}", other),
        }
    })
}
