//! C01: integer <-> integer sample conversion through the PUBLIC trait dispatch
//! (`Sample::to_sample`, `Sample::from_sample`), all 12 x 12 format pairs.
//!
//! Input line: `<op> <src> <dst> <args...>`; formats are coded
//!   0 i8, 1 i16, 2 I24, 3 i32, 4 I48, 5 i64, 6 u8, 7 u16, 8 U24, 9 u32, 10 U48, 11 u64
//! ops:
//!   vals  v1 v2 ...        one observation per value: `0 r` (EVERY entry point returned r: Sample::to_sample, Sample::from_sample,
//!                          ToSample::to_sample_, FromSample::from_sample_, the same two through a `Duplex<_>` bound only, and the
//!                          module function conv::<src>::to_<dst>), `7 r1 r2` (two of them differ), `8 k` (panic of kind k),
//!                          `6 r` (returned r, but the target is I24/U24/I48/U48 and `T::new(r)` is not `Some(r)`:
//!                          not a valid value of the target format by the crate's own validity check)
//!   ovals v1 v2 ...        the given values against the i128 oracle (same output as sweep)
//!   consts <fmt> 0         `0 MIN MAX <T as Sample>::EQUILIBRIUM types::EQUILIBRIUM new(MIN)ok new(MAX)ok new(MIN-1)none new(MAX+1)none`
//!                          the crate's own constants (types::i24::MIN etc. / the primitive's) and its validity check at the ends
//!   range lo n             digest of the observations of lo, lo+1, .., lo+n-1 (same digest as Sample/ConvRun.v)
//!   sweep lo n step        compares with the independent i128 oracle of the SPECIFICATION on lo, lo+step, ...
//!   rand  seed n           same on n pseudo-random in-range values (half uniform, half near powers of two)
//!                          -> `1 count` all agree | `2 v tag got expected nfail` first disagreement
//! float ops (validation of the translator's float emission; the float properties are C02's):
//!   i2f <src> <32|64> v...     `0 bits` of to_sample::<f32|f64>()
//!   f2i <32|64> <dst> bits...  `0 r` of f32|f64::to_sample::<dst>()
//!   f2f <32|64> 0 bits...      `0 bits` of f32 -> f64 (32) / f64 -> f32 (64)
//! src = dst is the blanket identity impl `impl<S> FromSample<S> for S` (no module function exists there).
//! 24/48-bit sources are built with `new_unchecked` (so out-of-range representation values can be fed too),
//! results are read with `.inner()`.
use dasp_sample::{Duplex, FromSample, Sample, ToSample, I24, I48, U24, U48};
use dasp_verif_harness::*;
#[path = "../direct.rs"]
mod direct;
use direct::Direct;

trait Fmt: Copy + Sample {
    const BITS: u32;
    const SIGNED: bool;
    fn mk(v: i128) -> Self;
    fn val(self) -> i128;
    /// the crate's own validity check of a value of this format (`T::new`); primitives are always valid
    fn valid(self) -> bool;
    fn consts() -> Vec<i128>;
}

macro_rules! prim_fmt {
    ($($T:ty, $bits:expr, $signed:expr;)*) => {$(
        impl Fmt for $T {
            const BITS: u32 = $bits;
            const SIGNED: bool = $signed;
            #[inline] fn mk(v: i128) -> Self { v as $T }
            #[inline] fn val(self) -> i128 { self as i128 }
            #[inline] fn valid(self) -> bool { true }
            fn consts() -> Vec<i128> {
                let eq = <$T as Sample>::EQUILIBRIUM as i128;
                vec![<$T>::MIN as i128, <$T>::MAX as i128, eq, eq, 1, 1, 1, 1]
            }
        }
    )*};
}
prim_fmt! { i8, 8, true; i16, 16, true; i32, 32, true; i64, 64, true; u8, 8, false; u16, 16, false; u32, 32, false; u64, 64, false; }

macro_rules! custom_fmt {
    ($($T:ident, $m:ident, $Rep:ty, $bits:expr, $signed:expr;)*) => {$(
        impl Fmt for $T {
            const BITS: u32 = $bits;
            const SIGNED: bool = $signed;
            #[inline] fn mk(v: i128) -> Self { $T::new_unchecked(v as $Rep) }
            #[inline] fn val(self) -> i128 { self.inner() as i128 }
            #[inline] fn valid(self) -> bool { $T::new(self.inner()) == Some(self) }
            fn consts() -> Vec<i128> {
                use dasp_sample::types::$m;
                let (lo, hi) = ($m::MIN.inner(), $m::MAX.inner());
                vec![lo as i128, hi as i128, <$T as Sample>::EQUILIBRIUM.inner() as i128, $m::EQUILIBRIUM.inner() as i128,
                     $T::new(lo).is_some() as i128, $T::new(hi).is_some() as i128,
                     $T::new(lo - 1).is_none() as i128, $T::new(hi + 1).is_none() as i128]
            }
        }
    )*};
}
custom_fmt! { I24, i24, i32, 24, true; I48, i48, i64, 48, true; U24, u24, i32, 24, false; U48, u48, i64, 48, false; }

fn fmin<S: Fmt>() -> i128 { if S::SIGNED { -(1i128 << (S::BITS - 1)) } else { 0 } }
fn fmax<S: Fmt>() -> i128 { if S::SIGNED { (1i128 << (S::BITS - 1)) - 1 } else { (1i128 << S::BITS) - 1 } }

/// The specification, independently of the crate and of the Coq development:
/// floor(amp * 2^bits(D) / 2^bits(S)) + offset(D), in i128 (|amp| <= 2^63, so amp << 64 fits exactly).
#[inline]
fn spec<S: Fmt, D: Fmt>(v: i128) -> i128 {
    let amp = if S::SIGNED { v } else { v - (1i128 << (S::BITS - 1)) };
    let scaled = (amp << D::BITS) >> S::BITS; // arithmetic shift = floor
    scaled + if D::SIGNED { 0 } else { 1i128 << (D::BITS - 1) }
}

/// what the sweeps compare: Sample::to_sample, and the first of Sample::from_sample / conv::<src>::to_<dst> that differs
/// from it (else from_sample's)
#[inline]
fn both<S, D>(v: i128) -> (i128, i128, bool)
where
    S: Fmt + ToSample<D> + Direct<D>,
    D: Fmt + FromSample<S>,
{
    let s = S::mk(v);
    let a: D = s.to_sample::<D>();
    let b: D = D::from_sample(s);
    let c: D = s.direct();
    (a.val(), if b.val() != a.val() { b.val() } else { c.val() }, a.valid() && b.valid() && c.valid())
}

/// conversions reached with nothing but a `Duplex<_>` bound in scope (the marker trait generic code is written against)
#[inline]
fn via_duplex_to<A: Duplex<B>, B>(a: A) -> B { a.to_sample_() }
#[inline]
fn via_duplex_from<A: Duplex<B>, B>(b: B) -> A { A::from_sample_(b) }

/// every public entry point of one conversion: (Sample::to_sample, first differing other one or the same, all valid)
#[inline]
fn every<S, D>(v: i128) -> (i128, i128, bool)
where
    S: Fmt + ToSample<D> + Direct<D> + Duplex<D>,
    D: Fmt + FromSample<S> + Duplex<S>,
{
    let s = S::mk(v);
    let a: D = s.to_sample::<D>();
    let rest: [D; 6] = [
        D::from_sample(s),
        ToSample::<D>::to_sample_(s),
        <D as FromSample<S>>::from_sample_(s),
        via_duplex_to::<S, D>(s),
        via_duplex_from::<D, S>(s),
        s.direct(),
    ];
    let mut other = a.val();
    let mut ok = a.valid();
    for r in rest.iter() {
        ok = ok && r.valid();
        if other == a.val() && r.val() != a.val() { other = r.val(); }
    }
    (a.val(), other, ok)
}

const DIG_P: u128 = (1u128 << 61) - 1;
fn dig_step(acc: u128, enc: u128) -> u128 { (acc * 1_000_003 + enc + 1) % DIG_P }

struct Xs(u64);
impl Xs {
    fn next(&mut self) -> u64 {
        let mut x = self.0;
        x ^= x >> 12;
        x ^= x << 25;
        x ^= x >> 27;
        self.0 = x;
        x.wrapping_mul(0x2545F4914F6CDD1D)
    }
}

/// tag, got, (to_sample, another entry point) of one value with the panic caught
fn one<S, D>(v: i128) -> (i64, i128, i128)
where
    S: Fmt + ToSample<D> + Direct<D> + Duplex<D>,
    D: Fmt + FromSample<S> + Duplex<S>,
{
    match catch(|| every::<S, D>(v)) {
        Ok((a, b, ok)) if a == b => (if ok { 0 } else { 6 }, a, b),
        Ok((a, b, _)) => (7, a, b),
        Err(k) => (8, k as i128, k as i128),
    }
}

fn run<S, D>(op: &str, a: &[i128]) -> String
where
    S: Fmt + ToSample<D> + Direct<D> + Duplex<D>,
    D: Fmt + FromSample<S> + Duplex<S>,
{
    match op {
        "vals" => a
            .iter()
            .map(|&v| match one::<S, D>(v) {
                (0, r, _) => format!("0 {}", r),
                (6, r, _) => format!("6 {}", r),
                (7, r1, r2) => format!("7 {} {}", r1, r2),
                (_, k, _) => format!("8 {}", k),
            })
            .collect::<Vec<_>>()
            .join(";"),
        "range" => {
            let (lo, n) = (a[0], a[1]);
            let mut acc = 0u128;
            for v in lo..lo + n {
                let enc = match one::<S, D>(v) {
                    (0, r, _) => r.rem_euclid(DIG_P as i128) as u128,
                    (8, k, _) => (1u128 << 60) + k as u128,
                    _ => 7,
                };
                acc = dig_step(acc, enc);
            }
            format!("{}", acc)
        }
        "sweep" | "rand" | "ovals" => {
            let (lo_r, hi_r) = (fmin::<S>(), fmax::<S>());
            let total = (hi_r - lo_r + 1) as u128;
            let mut rng = Xs((a.get(0).copied().unwrap_or(1) as u64) | 1);
            let n = if op == "ovals" { a.len() as u64 } else { a[1] as u64 };
            let gen = |i: u64, rng: &mut Xs| -> i128 {
                if op == "ovals" {
                    a[i as usize]
                } else if op == "sweep" {
                    a[0] + (i as i128) * a[2]
                } else {
                    let r = rng.next();
                    if i % 2 == 0 {
                        lo_r + ((r as u128) % total) as i128
                    } else {
                        // near a power of two (or its negation / the range ends): the shapes shifts and offsets care about
                        let k = (r % (S::BITS as u64 + 1)) as u32;
                        let base: i128 = match (r >> 8) % 4 { 0 => 1i128 << k, 1 => -(1i128 << k), 2 => hi_r - (1i128 << k) + 1, _ => lo_r + (1i128 << k) };
                        let delta = ((r >> 16) % 5) as i128 - 2;
                        let v = base + delta;
                        if v < lo_r { lo_r } else if v > hi_r { hi_r } else { v }
                    }
                }
            };
            // fast path: the whole loop under one catch (no panic expected on in-range inputs)
            let mut rng_fast = Xs(rng.0);
            let fast = catch(|| {
                let mut first: Option<(i128, i128, i128, i64)> = None;
                let mut nfail = 0u64;
                for i in 0..n {
                    let v = gen(i, &mut rng_fast);
                    let (x, y, ok) = both::<S, D>(v);
                    let e = spec::<S, D>(v);
                    if x != e || y != e || !ok {
                        nfail += 1;
                        if first.is_none() {
                            first = Some((v, if x != e { x } else { y }, e, if x != y { 7 } else if x != e { 0 } else { 6 }));
                        }
                    }
                }
                (first, nfail)
            });
            match fast {
                Ok((None, _)) => format!("1 {}", n),
                Ok((Some((v, got, e, tag)), nfail)) => format!("2 {} {} {} {} {}", v, tag, got, e, nfail),
                Err(_) => {
                    // a panic somewhere: redo value by value to locate the first failing input
                    let mut first: Option<(i128, i64, i128, i128)> = None;
                    let mut nfail = 0u64;
                    for i in 0..n {
                        let v = gen(i, &mut rng);
                        let (tag, x, y) = one::<S, D>(v);
                        let e = spec::<S, D>(v);
                        if tag != 0 || x != e || y != e {
                            nfail += 1;
                            if first.is_none() {
                                first = Some((v, tag, if x != e { x } else { y }, e));
                            }
                        }
                    }
                    let (v, tag, got, e) = first.unwrap();
                    format!("2 {} {} {} {} {}", v, tag, got, e, nfail)
                }
            }
        }
        _ => "-1".to_string(),
    }
}

fn c32(x: f32) -> i128 { if x.is_nan() { 0x7fc0_0000 } else { x.to_bits() as i128 } }
fn c64(x: f64) -> i128 { if x.is_nan() { 0x7ff8_0000_0000_0000u64 as i128 } else { x.to_bits() as i128 } }

fn fmt_res(r: Result<i128, i64>) -> String {
    match r { Ok(v) => format!("0 {}", v), Err(k) => format!("8 {}", k) }
}

fn i2f<S>(f: i128, a: &[i128]) -> String
where
    S: Fmt + ToSample<f32> + ToSample<f64>,
{
    a.iter()
        .map(|&v| fmt_res(catch(|| if f == 32 { c32(S::mk(v).to_sample::<f32>()) } else { c64(S::mk(v).to_sample::<f64>()) })))
        .collect::<Vec<_>>()
        .join(";")
}

fn f2i<D>(f: i128, a: &[i128]) -> String
where
    D: Fmt + FromSample<f32> + FromSample<f64>,
{
    a.iter()
        .map(|&b| fmt_res(catch(|| if f == 32 { f32::from_bits(b as u32).to_sample::<D>().val() } else { f64::from_bits(b as u64).to_sample::<D>().val() })))
        .collect::<Vec<_>>()
        .join(";")
}

fn consts_of<S: Fmt>(_x: i128, _a: &[i128]) -> String {
    format!("0 {}", S::consts().iter().map(|v| v.to_string()).collect::<Vec<_>>().join(" "))
}

macro_rules! by_fmt {
    ($c:expr, $f:ident, $x:expr, $a:expr) => {
        match $c {
            0 => $f::<i8>($x, $a), 1 => $f::<i16>($x, $a), 2 => $f::<I24>($x, $a), 3 => $f::<i32>($x, $a),
            4 => $f::<I48>($x, $a), 5 => $f::<i64>($x, $a), 6 => $f::<u8>($x, $a), 7 => $f::<u16>($x, $a),
            8 => $f::<U24>($x, $a), 9 => $f::<u32>($x, $a), 10 => $f::<U48>($x, $a), 11 => $f::<u64>($x, $a),
            _ => "-1".to_string(),
        }
    };
}

macro_rules! by_dst {
    ($S:ty, $d:expr, $op:expr, $a:expr) => {
        match $d {
            0 => run::<$S, i8>($op, $a),
            1 => run::<$S, i16>($op, $a),
            2 => run::<$S, I24>($op, $a),
            3 => run::<$S, i32>($op, $a),
            4 => run::<$S, I48>($op, $a),
            5 => run::<$S, i64>($op, $a),
            6 => run::<$S, u8>($op, $a),
            7 => run::<$S, u16>($op, $a),
            8 => run::<$S, U24>($op, $a),
            9 => run::<$S, u32>($op, $a),
            10 => run::<$S, U48>($op, $a),
            11 => run::<$S, u64>($op, $a),
            _ => "-1".to_string(),
        }
    };
}

fn main() {
    serve(|line| {
        let mut it = line.split_whitespace();
        let op = it.next().unwrap_or("");
        let t: Vec<i128> = it.map(|s| s.parse::<i128>().expect("int token")).collect();
        let (s, d, a) = (t[0], t[1], &t[2..]);
        match op {
            "consts" => return by_fmt!(s, consts_of, d, a),
            "i2f" => return by_fmt!(s, i2f, d, a),
            "f2i" => return by_fmt!(d, f2i, s, a),
            "f2f" => {
                return a
                    .iter()
                    .map(|&b| fmt_res(catch(|| if s == 32 { c64(f32::from_bits(b as u32).to_sample::<f64>()) } else { c32(f64::from_bits(b as u64).to_sample::<f32>()) })))
                    .collect::<Vec<_>>()
                    .join(";")
            }
            _ => {}
        }
        match s {
            0 => by_dst!(i8, d, op, a),
            1 => by_dst!(i16, d, op, a),
            2 => by_dst!(I24, d, op, a),
            3 => by_dst!(i32, d, op, a),
            4 => by_dst!(I48, d, op, a),
            5 => by_dst!(i64, d, op, a),
            6 => by_dst!(u8, d, op, a),
            7 => by_dst!(u16, d, op, a),
            8 => by_dst!(U24, d, op, a),
            9 => by_dst!(u32, d, op, a),
            10 => by_dst!(U48, d, op, a),
            11 => by_dst!(u64, d, op, a),
            _ => "-1".to_string(),
        }
    });
}
