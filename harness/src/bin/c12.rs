//! C12: drives dasp_signal's `Signal::fork` / `Fork::by_ref` / `Fork::by_rc` and the four
//! branch types through schedules of `next` / `pending_frames` / `is_exhausted` calls.
//! Input line:  `<nch> <store> <cap> <start> <len0> <src> <fin> ; op , op , ...`
//!   nch    1 = mono frames (i64), 2 = stereo frames ([i64; 2], channel 1 = -channel 0)
//!   store  ring-buffer storage: 0 Vec, 1 Box<[T]>, 2 &mut [T], 3 [T; N] (N <= 8, else Vec)
//!   the ring buffer is Bounded::from_raw_parts(start, len0, storage with cap slots)
//!   src    0 signal::gen_mut(closure with pull counter), 1 a counting Signal impl,
//!          2 signal::from_iter(fin frames).map(counting closure) (fin >= 0), 3 `&mut` of 1
//!   fin    number of frames of a finite source (equilibrium afterwards), -1 = endless;
//!          source frame i (0-based) has value i+1
//!   ops    na nb (next on A/B)  pa pb (pending_frames)  ea eb (is_exhausted)
//!          ref (drop the by_ref pair, split again by reference)  rc (drop it, fork.by_rc())
//! Output: observations joined by ';'; every observation ends with
//!         `<pull counter> <A.pending_frames()> <B.pending_frames()>`:
//!   0 fork constructed and first split; 1 frame channels.. ; 2 count; 3 re-split by_ref;
//!   4 split by_rc; 5 bool; 8 panic code (construction: nothing follows)
use dasp_ring_buffer::{Bounded, SliceMut};
use dasp_signal::{self as signal, BranchRcA, BranchRcB, BranchRefA, BranchRefB, Signal};
use dasp_verif_harness::*;
use std::cell::Cell;
use std::rc::Rc;

trait Fr: dasp_frame::Frame + Copy + 'static {
    fn mk(v: i64) -> Self;
    fn chans(&self) -> Vec<i64>;
}
impl Fr for i64 {
    fn mk(v: i64) -> Self {
        v
    }
    fn chans(&self) -> Vec<i64> {
        vec![*self]
    }
}
impl Fr for [i64; 2] {
    fn mk(v: i64) -> Self {
        [v, -v]
    }
    fn chans(&self) -> Vec<i64> {
        vec![self[0], self[1]]
    }
}

/// a branch of either flavour: the Signal methods plus the inherent `pending_frames`
trait Br: Signal {
    fn pend(&self) -> usize;
}
macro_rules! impl_br {
    ($($T:ident)*) => {$(
        impl<S, D> Br for $T<S, D>
        where
            S: Signal,
            D: SliceMut<Element = S::Frame>,
        {
            fn pend(&self) -> usize {
                self.pending_frames()
            }
        }
    )*};
}
impl_br!(BranchRcA BranchRcB);
macro_rules! impl_br_ref {
    ($($T:ident)*) => {$(
        impl<'a, S, D> Br for $T<'a, S, D>
        where
            S: Signal,
            D: SliceMut<Element = S::Frame>,
        {
            fn pend(&self) -> usize {
                self.pending_frames()
            }
        }
    )*};
}
impl_br_ref!(BranchRefA BranchRefB);

/// instrumented source implemented directly against the Signal trait
struct Counted<F> {
    cnt: Rc<Cell<i64>>,
    fin: i64,
    _f: std::marker::PhantomData<F>,
}
impl<F: Fr> Signal for Counted<F> {
    type Frame = F;
    fn next(&mut self) -> F {
        let i = self.cnt.get();
        self.cnt.set(i + 1);
        if self.fin >= 0 && i >= self.fin {
            F::EQUILIBRIUM
        } else {
            F::mk(i + 1)
        }
    }
    fn is_exhausted(&self) -> bool {
        self.fin >= 0 && self.cnt.get() >= self.fin
    }
}

enum Stop {
    End,
    Resplit,
    ByRc,
}

fn drive<F: Fr, A: Br<Frame = F>, B: Br<Frame = F>>(
    a: &mut A,
    b: &mut B,
    ops: &[&str],
    i: &mut usize,
    cnt: &Rc<Cell<i64>>,
    out: &mut Vec<String>,
    split_tag: i64,
) -> Stop {
    let tail = |a: &A, b: &B| vec![cnt.get(), a.pend() as i64, b.pend() as i64];
    out.push(obs(split_tag, &tail(a, b)));
    while *i < ops.len() {
        let op = ops[*i];
        *i += 1;
        let r = catch(|| match op {
            "na" => (1, a.next().chans()),
            "nb" => (1, b.next().chans()),
            "pa" => (2, vec![a.pend() as i64]),
            "pb" => (2, vec![b.pend() as i64]),
            "ea" => (5, vec![a.is_exhausted() as i64]),
            "eb" => (5, vec![b.is_exhausted() as i64]),
            "ref" | "rc" => (-1, vec![]),
            other => panic!("unknown op {}", other),
        });
        match r {
            Ok((-1, _)) => return if op == "ref" { Stop::Resplit } else { Stop::ByRc },
            Ok((tag, mut v)) => {
                v.extend(tail(a, b));
                out.push(obs(tag, &v));
            }
            Err(c) => out.push(obs(8, &[c])),
        }
    }
    Stop::End
}

fn run<F, Sig, S>(sig: Sig, cnt: Rc<Cell<i64>>, mk_rb: impl FnOnce() -> Bounded<S>, ops: &[&str]) -> Vec<String>
where
    F: Fr,
    Sig: Signal<Frame = F>,
    S: SliceMut<Element = F>,
{
    let mut out = Vec::new();
    let rb = match catch(mk_rb) {
        Ok(rb) => rb,
        Err(c) => return vec![obs(8, &[c])],
    };
    let mut fork = match catch(move || sig.fork(rb)) {
        Ok(f) => f,
        Err(c) => return vec![obs(8, &[c])],
    };
    let mut i = 0;
    let mut tag = 0;
    loop {
        let stop = {
            let (mut a, mut b) = fork.by_ref();
            drive(&mut a, &mut b, ops, &mut i, &cnt, &mut out, tag)
        };
        match stop {
            Stop::End => return out,
            Stop::Resplit => tag = 3,
            Stop::ByRc => break,
        }
    }
    let (mut a, mut b) = fork.by_rc();
    match drive(&mut a, &mut b, ops, &mut i, &cnt, &mut out, 4) {
        Stop::End => out,
        _ => panic!("the fork was consumed by by_rc: it cannot be split again"),
    }
}

fn with_source<F, S>(src: i64, fin: i64, mk_rb: impl FnOnce() -> Bounded<S>, ops: &[&str]) -> Vec<String>
where
    F: Fr,
    S: SliceMut<Element = F>,
{
    let cnt = Rc::new(Cell::new(0i64));
    match src {
        0 => {
            let c = cnt.clone();
            let sig = signal::gen_mut(move || {
                let i = c.get();
                c.set(i + 1);
                if fin >= 0 && i >= fin {
                    F::EQUILIBRIUM
                } else {
                    F::mk(i + 1)
                }
            });
            run(sig, cnt, mk_rb, ops)
        }
        2 => {
            assert!(fin >= 0);
            let c = cnt.clone();
            let frames: Vec<F> = (0..fin).map(|i| F::mk(i + 1)).collect();
            let sig = signal::from_iter(frames.into_iter()).map(move |f: F| {
                c.set(c.get() + 1);
                f
            });
            run(sig, cnt, mk_rb, ops)
        }
        3 => {
            let mut counted = Counted { cnt: cnt.clone(), fin, _f: std::marker::PhantomData::<F> };
            run(&mut counted, cnt, mk_rb, ops)
        }
        _ => run(Counted { cnt: cnt.clone(), fin, _f: std::marker::PhantomData::<F> }, cnt, mk_rb, ops),
    }
}

fn with_store<F: Fr>(store: i64, cap: usize, start: usize, len0: usize, src: i64, fin: i64, ops: &[&str]) -> Vec<String> {
    let data: Vec<F> = vec![F::mk(-7); cap];
    match store {
        1 => with_source(src, fin, || Bounded::from_raw_parts(start, len0, data.clone().into_boxed_slice()), ops),
        2 => {
            let mut st = data.clone();
            with_source(src, fin, || Bounded::from_raw_parts(start, len0, &mut st[..]), ops)
        }
        3 if cap <= 8 => {
            macro_rules! go { ($($N:literal)*) => { match cap {
                $($N => with_source(src, fin, || Bounded::from_raw_parts(start, len0, [F::mk(-7); $N]), ops),)*
                _ => unreachable!() } } }
            go!(0 1 2 3 4 5 6 7 8)
        }
        _ => with_source(src, fin, || Bounded::from_raw_parts(start, len0, data.clone()), ops),
    }
}

fn main() {
    serve(|line| {
        let (head, tail) = line.split_once(';').expect("case needs ';'");
        let h = ints(head);
        let ops: Vec<&str> = tail.split(',').map(|o| o.trim()).filter(|o| !o.is_empty()).collect();
        let (nch, store, cap, start, len0, src, fin) = (h[0], h[1], h[2] as usize, h[3] as usize, h[4] as usize, h[5], h[6]);
        let res = if nch == 1 {
            with_store::<i64>(store, cap, start, len0, src, fin, &ops)
        } else {
            with_store::<[i64; 2]>(store, cap, start, len0, src, fin, &ops)
        };
        res.join(";")
    });
}
