//! C18: drives dasp_interpolate::sinc::Sinc directly (Interpolator trait) and through
//! dasp_signal::interpolate::Converter with an instrumented source.
//! Input line (fields separated by '|'):
//!   `D <fmt> <ch> <depth> | <sin args> | <cos args> | op , op , ...`
//!   `V <fmt> <ch> <depth> <ratio bits> | <source samples, frame after frame> | <sin args> | <cos args> | op , ...`
//! fmt: 0 f64, 1 f32, 2 i16; 10.. = 10 + code of the fourteen sample formats
//! (i8 i16 I24 i32 I48 i64 u8 u16 U24 u32 U48 u64 f32 f64); ch: 1 (bare sample as frame) or 2 ([S; 2]).
//! Integer samples travel as their (inner) value.
//! ops D: `push s0 [s1]`, `interp <x bits>`, `reset`;  ops V: `next`, `ratio <bits>` (set_playback_hz_scale),
//!   `hz <a bits> <b bits>` (set_hz_to_hz), `srate <bits>` (set_sample_hz_scale), `src` (source()), `srcpull`
//!   (source_mut().next()), `exh` (is_exhausted), `acc` (accumulator hook), `rebuild <kind> <a bits> <b bits>`
//!   (into_source(), then kind 0 scale_playback_hz(a) | 1 from_hz_to_hz(a, b) | 2 scale_sample_hz(a) over the
//!   returned source with a fresh Sinc of the same depth).
//! Floats travel as IEEE bit patterns (decimal), NaN canonicalised; i16 as integers.
//! Output: `<sin values>;<cos values>;<7 | 8 code>;` then one observation per op:
//!   7 unit, `1 v..` interpolated frame (D), `1 pulls v..` converter output (V), `8 code` panic,
//!   `2 pulls` source(), `3 pulls v..` frame pulled through source_mut(), `4 b` is_exhausted, `5 bits` accumulator.
//! The sin/cos values are f64::sin / f64::cos (what sinc/ops.rs calls with std) at the requested
//! arguments: the model takes libm's results from here as data instead of modelling libm.
use dasp_frame::Frame;
use dasp_interpolate::sinc::Sinc;
use dasp_interpolate::Interpolator;
use dasp_ring_buffer as ring_buffer;
use dasp_sample::types::{I24, I48, U24, U48};
use dasp_sample::Duplex;
use dasp_signal::interpolate::Converter;
use dasp_signal::Signal;
use dasp_verif_harness::*;

fn nums(s: &str) -> Vec<i128> {
    s.split_whitespace().map(|t| t.parse::<i128>().expect("int token")).collect()
}

fn f64_bits(x: f64) -> i128 {
    if x.is_nan() {
        0x7FF8_0000_0000_0000u64 as i128
    } else {
        x.to_bits() as i128
    }
}

fn f32_bits(x: f32) -> i128 {
    if x.is_nan() {
        0x7FC0_0000u32 as i128
    } else {
        x.to_bits() as i128
    }
}

trait Cod: Frame + Copy {
    fn dec(v: &[i128]) -> Self;
    fn enc(&self) -> Vec<i128>;
}

impl Cod for f64 {
    fn dec(v: &[i128]) -> Self {
        f64::from_bits(v[0] as u64)
    }
    fn enc(&self) -> Vec<i128> {
        vec![f64_bits(*self)]
    }
}
impl Cod for [f64; 2] {
    fn dec(v: &[i128]) -> Self {
        [f64::from_bits(v[0] as u64), f64::from_bits(v[1] as u64)]
    }
    fn enc(&self) -> Vec<i128> {
        self.iter().map(|x| f64_bits(*x)).collect()
    }
}
impl Cod for f32 {
    fn dec(v: &[i128]) -> Self {
        f32::from_bits(v[0] as u32)
    }
    fn enc(&self) -> Vec<i128> {
        vec![f32_bits(*self)]
    }
}
impl Cod for [f32; 2] {
    fn dec(v: &[i128]) -> Self {
        [f32::from_bits(v[0] as u32), f32::from_bits(v[1] as u32)]
    }
    fn enc(&self) -> Vec<i128> {
        self.iter().map(|x| f32_bits(*x)).collect()
    }
}
macro_rules! cod_int {
    ($T:ty, $dec:expr, $enc:expr) => {
        impl Cod for $T {
            fn dec(v: &[i128]) -> Self {
                ($dec)(v[0])
            }
            fn enc(&self) -> Vec<i128> {
                vec![($enc)(*self)]
            }
        }
        impl Cod for [$T; 2] {
            fn dec(v: &[i128]) -> Self {
                [($dec)(v[0]), ($dec)(v[1])]
            }
            fn enc(&self) -> Vec<i128> {
                self.iter().map(|x| ($enc)(*x)).collect()
            }
        }
    };
}
cod_int!(i8, |z: i128| z as i8, |x: i8| x as i128);
cod_int!(i16, |z: i128| z as i16, |x: i16| x as i128);
cod_int!(i32, |z: i128| z as i32, |x: i32| x as i128);
cod_int!(i64, |z: i128| z as i64, |x: i64| x as i128);
cod_int!(u8, |z: i128| z as u8, |x: u8| x as i128);
cod_int!(u16, |z: i128| z as u16, |x: u16| x as i128);
cod_int!(u32, |z: i128| z as u32, |x: u32| x as i128);
cod_int!(u64, |z: i128| z as u64, |x: u64| x as i128);
cod_int!(I24, |z: i128| I24::new_unchecked(z as i32), |x: I24| x.inner() as i128);
cod_int!(U24, |z: i128| U24::new_unchecked(z as i32), |x: U24| x.inner() as i128);
cod_int!(I48, |z: i128| I48::new_unchecked(z as i64), |x: I48| x.inner() as i128);
cod_int!(U48, |z: i128| U48::new_unchecked(z as i64), |x: U48| x.inner() as i128);

fn jn(v: &[i128]) -> String {
    v.iter().map(|x| x.to_string()).collect::<Vec<_>>().join(" ")
}

fn tagged(tag: i128, v: &[i128]) -> String {
    if v.is_empty() {
        tag.to_string()
    } else {
        format!("{} {}", tag, jn(v))
    }
}

/// Source signal that counts how often it is pulled: the listed frames, then equilibrium.
struct Src<F> {
    frames: Vec<F>,
    pulls: usize,
}

impl<F: Frame> Signal for Src<F> {
    type Frame = F;
    fn next(&mut self) -> F {
        let f = if self.pulls < self.frames.len() { self.frames[self.pulls] } else { F::EQUILIBRIUM };
        self.pulls += 1;
        f
    }
    fn is_exhausted(&self) -> bool {
        self.pulls >= self.frames.len()
    }
}

fn mk_sinc<F: Cod>(depth: usize) -> Result<Sinc<Vec<F>>, i64> {
    catch(|| Sinc::new(ring_buffer::Fixed::from(vec![F::EQUILIBRIUM; 2 * depth])))
}

fn run_direct<F: Cod>(depth: usize, ops: &[Vec<&str>], out: &mut Vec<String>)
where
    F::Sample: Duplex<f64>,
{
    let mut s = match mk_sinc::<F>(depth) {
        Ok(s) => s,
        Err(c) => {
            out.push(tagged(8, &[c as i128]));
            return;
        }
    };
    out.push(tagged(7, &[]));
    for op in ops {
        let a: Vec<i128> = op[1..].iter().map(|t| t.parse().unwrap()).collect();
        let r = catch(|| match op[0] {
            "push" => {
                s.next_source_frame(F::dec(&a));
                tagged(7, &[])
            }
            "interp" => tagged(1, &s.interpolate(f64::from_bits(a[0] as u64)).enc()),
            "reset" => {
                s.reset();
                tagged(7, &[])
            }
            other => panic!("unknown op {}", other),
        });
        match r {
            Ok(o) => out.push(o),
            Err(c) => out.push(tagged(8, &[c as i128])),
        }
    }
}

fn run_conv<F: Cod>(depth: usize, ratio: f64, source: &[i128], ch: usize, ops: &[Vec<&str>], out: &mut Vec<String>)
where
    F::Sample: Duplex<f64>,
{
    let s = match mk_sinc::<F>(depth) {
        Ok(s) => s,
        Err(c) => {
            out.push(tagged(8, &[c as i128]));
            return;
        }
    };
    out.push(tagged(7, &[]));
    let frames: Vec<F> = source.chunks(ch).map(|c| F::dec(c)).collect();
    let mut conv = Some(Converter::scale_playback_hz(Src { frames, pulls: 0 }, s, ratio));
    for op in ops {
        let a: Vec<i128> = op[1..].iter().map(|t| t.parse().unwrap()).collect();
        let fb = |i: usize| f64::from_bits(a[i] as u64);
        let r = catch(|| match op[0] {
            "next" => {
                let conv = conv.as_mut().unwrap();
                let f = conv.next();
                let mut v = vec![conv.source().pulls as i128];
                v.extend(f.enc());
                tagged(1, &v)
            }
            "ratio" => {
                conv.as_mut().unwrap().set_playback_hz_scale(fb(0));
                tagged(7, &[])
            }
            "hz" => {
                conv.as_mut().unwrap().set_hz_to_hz(fb(0), fb(1));
                tagged(7, &[])
            }
            "srate" => {
                conv.as_mut().unwrap().set_sample_hz_scale(fb(0));
                tagged(7, &[])
            }
            "src" => tagged(2, &[conv.as_ref().unwrap().source().pulls as i128]),
            "srcpull" => {
                let conv = conv.as_mut().unwrap();
                let f = conv.source_mut().next();
                let mut v = vec![conv.source().pulls as i128];
                v.extend(f.enc());
                tagged(3, &v)
            }
            // is_exhausted of the Converter itself
            "exh" => tagged(4, &[Signal::is_exhausted(conv.as_ref().unwrap()) as i128]),
            "acc" => tagged(5, &[f64_bits(conv.as_ref().unwrap().verif_interpolation_value())]),
            "rebuild" => {
                let source = conv.take().unwrap().into_source();
                let s2 = Sinc::new(ring_buffer::Fixed::from(vec![F::EQUILIBRIUM; 2 * depth]));
                conv = Some(match a[0] {
                    0 => Converter::scale_playback_hz(source, s2, fb(1)),
                    1 => Converter::from_hz_to_hz(source, s2, fb(1), fb(2)),
                    _ => Converter::scale_sample_hz(source, s2, fb(1)),
                });
                tagged(7, &[])
            }
            other => panic!("unknown op {}", other),
        });
        match r {
            Ok(o) => out.push(o),
            Err(c) => {
                // a panic inside next() leaves the converter half-advanced (a panicking constructor has consumed
                // the source): the case ends here
                out.push(tagged(8, &[c as i128]));
                return;
            }
        }
    }
}

fn parse_ops(s: &str) -> Vec<Vec<&str>> {
    s.split(',').map(|o| o.split_whitespace().collect::<Vec<_>>()).filter(|o| !o.is_empty()).collect()
}

fn main() {
    serve(|line| {
        let parts: Vec<&str> = line.split('|').collect();
        let head: Vec<&str> = parts[0].split_whitespace().collect();
        let kind = head[0];
        let fmt: usize = head[1].parse().unwrap();
        let ch: usize = head[2].parse().unwrap();
        let depth: usize = head[3].parse().unwrap();
        let (sin_i, cos_i, ops_i) = if kind == "D" { (1, 2, 3) } else { (2, 3, 4) };
        let sin_v: Vec<i128> = nums(parts[sin_i]).iter().map(|b| f64_bits(f64::from_bits(*b as u64).sin())).collect();
        let cos_v: Vec<i128> = nums(parts[cos_i]).iter().map(|b| f64_bits(f64::from_bits(*b as u64).cos())).collect();
        let ops = parse_ops(parts[ops_i]);
        let mut out = vec![jn(&sin_v), jn(&cos_v)];
        macro_rules! go {
            ($F1:ty, $F2:ty) => {
                if kind == "D" {
                    if ch == 1 {
                        run_direct::<$F1>(depth, &ops, &mut out)
                    } else {
                        run_direct::<$F2>(depth, &ops, &mut out)
                    }
                } else {
                    let ratio = f64::from_bits(head[4].parse::<u64>().unwrap());
                    let source = nums(parts[1]);
                    if ch == 1 {
                        run_conv::<$F1>(depth, ratio, &source, ch, &ops, &mut out)
                    } else {
                        run_conv::<$F2>(depth, ratio, &source, ch, &ops, &mut out)
                    }
                }
            };
        }
        assert!(ch == 1 || ch == 2, "unsupported channel count");
        match fmt {
            0 | 23 => go!(f64, [f64; 2]),
            1 | 22 => go!(f32, [f32; 2]),
            2 | 11 => go!(i16, [i16; 2]),
            10 => go!(i8, [i8; 2]),
            12 => go!(I24, [I24; 2]),
            13 => go!(i32, [i32; 2]),
            14 => go!(I48, [I48; 2]),
            15 => go!(i64, [i64; 2]),
            16 => go!(u8, [u8; 2]),
            17 => go!(u16, [u16; 2]),
            18 => go!(U24, [U24; 2]),
            19 => go!(u32, [u32; 2]),
            20 => go!(U48, [U48; 2]),
            21 => go!(u64, [u64; 2]),
            _ => panic!("unsupported format"),
        }
        out.join(";")
    });
}
