//! C14: drives dasp_signal's `Signal::buffered` / `Buffered::next_frames` / `BufferedFrames`
//! over a real `ring_buffer::Bounded` in an arbitrary raw (start,len) state and an
//! instrumented `signal::from_iter` source.
//! Input line:  `<store> <ftype> <start> <len> | d0 d1 ... | s0 s1 ... ; op , op , ...`
//!   store: 0 Vec, 1 Box<[T]>, 2 &mut [T], 3 [T; N] (N <= 8, else Vec)
//!   ftype: 0 mono frame i64, 1 stereo frame [i32; 2] (integer v encoded as [v, -v])
//!   ops:   next | frames k (next_frames().take(k)) | manual k (k direct calls of
//!          BufferedFrames::next, also past None) | all (next_frames() until None) |
//!          hint (next_frames().size_hint()) | exh (is_exhausted)
//! Output: one observation per op, then one for into_parts(), joined by ';'.
//!   `1 p ip f` next | `5 p ip f...` frames | `4 p ip lo hi` size_hint (hi -1 = None) |
//!   `3 p ip b` is_exhausted | `6 p ip src_exhausted len items...` into_parts | `8 code` panic
//!   p = calls of Signal::next on the source so far, ip = calls of the iterator's next.
use dasp_frame::Frame;
use dasp_ring_buffer::{Bounded, Slice, SliceMut};
use dasp_signal::{self as signal, Signal};
use dasp_verif_harness::*;
use std::cell::Cell;
use std::rc::Rc;

trait Enc: Frame + Copy {
    fn enc(v: i64) -> Self;
    fn dec(self) -> i64;
}
impl Enc for i64 {
    fn enc(v: i64) -> Self {
        v
    }
    fn dec(self) -> i64 {
        self
    }
}
impl Enc for [i32; 2] {
    fn enc(v: i64) -> Self {
        [v as i32, -(v as i32)]
    }
    fn dec(self) -> i64 {
        if self[1] == -self[0] {
            self[0] as i64
        } else {
            -999_999_999
        }
    }
}

/// counts calls of Iterator::next
struct CountIter<I> {
    inner: I,
    n: Rc<Cell<i64>>,
}
impl<I: Iterator> Iterator for CountIter<I> {
    type Item = I::Item;
    fn next(&mut self) -> Option<I::Item> {
        self.n.set(self.n.get() + 1);
        self.inner.next()
    }
}

/// counts calls of Signal::next, forwards is_exhausted
struct CountSig<S> {
    inner: S,
    n: Rc<Cell<i64>>,
}
impl<S: Signal> Signal for CountSig<S> {
    type Frame = S::Frame;
    fn next(&mut self) -> S::Frame {
        self.n.set(self.n.get() + 1);
        self.inner.next()
    }
    fn is_exhausted(&self) -> bool {
        self.inner.is_exhausted()
    }
}

fn run<F, D>(mk: impl FnOnce() -> Bounded<D>, src: &[i64], ops: &[Vec<&str>]) -> Vec<String>
where
    F: Enc,
    D: Slice<Element = F> + SliceMut,
{
    let rb = match catch(mk) {
        Ok(rb) => rb,
        Err(c) => return vec![obs(8, &[c])],
    };
    let ip = Rc::new(Cell::new(0i64));
    let p = Rc::new(Cell::new(0i64));
    let frames: Vec<F> = src.iter().map(|&v| F::enc(v)).collect();
    let source = CountSig {
        inner: signal::from_iter(CountIter { inner: frames.into_iter(), n: ip.clone() }),
        n: p.clone(),
    };
    let mut buffered = source.buffered(rb);
    let mut out = Vec::new();
    for op in ops {
        let a: Vec<i64> = op[1..].iter().map(|t| t.parse().unwrap()).collect();
        let r = catch(|| match op[0] {
            "next" => (1, vec![buffered.next().dec()]),
            "frames" => (5, buffered.next_frames().take(a[0] as usize).map(Enc::dec).collect::<Vec<_>>()),
            "manual" => {
                let mut it = buffered.next_frames();
                let mut v = Vec::new();
                for _ in 0..a[0] {
                    if let Some(f) = it.next() {
                        v.push(f.dec());
                    }
                }
                (5, v)
            }
            "all" => (5, buffered.next_frames().map(Enc::dec).collect::<Vec<_>>()),
            "hint" => {
                let (lo, hi) = buffered.next_frames().size_hint();
                (4, vec![lo as i64, hi.map(|h| h as i64).unwrap_or(-1)])
            }
            "exh" => (3, vec![buffered.is_exhausted() as i64]),
            other => panic!("unknown op {}", other),
        });
        out.push(match r {
            Ok((tag, payload)) => {
                let mut v = vec![p.get(), ip.get()];
                v.extend(payload);
                obs(tag, &v)
            }
            Err(c) => obs(8, &[c]),
        });
    }
    let (sig, rb) = buffered.into_parts();
    let mut v = vec![p.get(), ip.get(), sig.is_exhausted() as i64, rb.len() as i64];
    v.extend(rb.iter().map(|f| f.dec()));
    out.push(obs(6, &v));
    out
}

fn arr<F: Enc, const N: usize>(d: &[F]) -> [F; N] {
    let mut a = [F::EQUILIBRIUM; N];
    a.copy_from_slice(d);
    a
}

fn dispatch<F: Enc>(store: i64, start: usize, len: usize, data: &[i64], src: &[i64], ops: &[Vec<&str>]) -> Vec<String> {
    let data: Vec<F> = data.iter().map(|&v| F::enc(v)).collect();
    match store {
        1 => run(|| Bounded::from_raw_parts(start, len, data.clone().into_boxed_slice()), src, ops),
        2 => {
            let mut st = data.clone();
            run(|| Bounded::from_raw_parts(start, len, &mut st[..]), src, ops)
        }
        3 if data.len() <= 8 => {
            let n = data.len();
            macro_rules! go { ($($N:literal)*) => { match n {
                $($N => run(|| Bounded::from_raw_parts(start, len, arr::<F, $N>(&data)), src, ops),)*
                _ => unreachable!() } } }
            go!(0 1 2 3 4 5 6 7 8)
        }
        _ => run(|| Bounded::from_raw_parts(start, len, data.clone()), src, ops),
    }
}

fn main() {
    serve(|line| {
        let (head, tail) = line.split_once(';').expect("case needs ';'");
        let parts: Vec<&str> = head.split('|').collect();
        let h = ints(parts[0]);
        let data = ints(parts[1]);
        let src = ints(parts[2]);
        let ops: Vec<Vec<&str>> = tail
            .split(',')
            .map(|o| o.split_whitespace().collect::<Vec<_>>())
            .filter(|o| !o.is_empty())
            .collect();
        let (store, ftype, start, len) = (h[0], h[1], h[2] as usize, h[3] as usize);
        let res = if ftype == 1 {
            dispatch::<[i32; 2]>(store, start, len, &data, &src, &ops)
        } else {
            dispatch::<i64>(store, start, len, &data, &src, &ops)
        };
        res.join(";")
    });
}
