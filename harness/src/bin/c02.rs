//! C02: float <-> integer sample conversion (and f32 <-> f64) through the PUBLIC trait dispatch
//! (`Sample::to_sample`, `Sample::from_sample`).
//!
//! Formats are coded 0 i8, 1 i16, 2 I24, 3 i32, 4 I48, 5 i64, 6 u8, 7 u16, 8 U24, 9 u32, 10 U48, 11 u64.
//! Floats travel as IEEE bit patterns (NaN canonicalised to the quiet NaN).
//!
//! model-vs-crate ops (one observation per input: `0 r` every entry point returned r | `7 r1 r2` two of them differ | `8 k` panic;
//! entry points: Sample::to_sample, Sample::from_sample, ToSample::to_sample_, FromSample::from_sample_, those two again with only a
//! `Duplex<_>` bound in scope, and the module function conv::<src>::to_<dst>):
//!   i2f <src> <32|64> v...       bits of S::to_sample::<f32|f64>()
//!   f2i <32|64> <dst> bits...    f32|f64::to_sample::<D>()
//!   f2f <32|64> 0 bits...        f32 -> f64 (32) / f64 -> f32 (64)
//!   f2f <32|64> 1 bits...        f32 -> f32 (32) / f64 -> f64 (64): the blanket identity impl `impl<S> FromSample<S> for S`
//! crate-vs-oracle ops (independent exact-integer oracle of the SPECIFICATION, computed from the bit
//! pattern / the integer with i128 arithmetic, no float operation involved):
//!   oi2f <src> <32|64> lo n step     integers lo, lo+step, ...   round_NE(amp)/2^(bits-1), [-1,1], round trip
//!   ri2f <src> <32|64> seed n        n pseudo-random in-range integers (half uniform, half near powers of two)
//!   of2i <32|64> <dst> lo n step     bit patterns lo, lo+step, ... trunc(f*2^(bits-1)) (+ offset), saturating
//!   rf2i <32|64> <dst> seed n        n pseudo-random bit patterns of the domain [-1,1)
//!   of2f <32|64> 0 lo n step         bit patterns lo, lo+step, ...  widening exact / narrowing round-to-nearest-even
//!   rf2f <32|64> 0 seed n            n pseudo-random bit patterns (any class)
//!   of2f / rf2f <32|64> 1 ...        the same-format conversion: the bit pattern itself (NaN canonicalised)
//! (the sweeps compare to_sample, from_sample and the module function)
//!     -> `1 count nontrivial` all agree | `2 input tag got expected nfail` first disagreement
//! 24/48-bit values are built with `new_unchecked`, results are read with `.inner()`.
use dasp_sample::{Duplex, FromSample, Sample, ToSample, I24, I48, U24, U48};
use dasp_verif_harness::*;
#[path = "../direct.rs"]
mod direct;
use direct::Direct;

trait Fmt: Copy + Sample {
    const BITS: u32;
    const SIGNED: bool;
    /// width of the primitive the float is cast to (`as iN`): the saturation range outside the domain
    const REPBITS: u32;
    fn mk(v: i128) -> Self;
    fn val(self) -> i128;
}

macro_rules! prim_fmt {
    ($($T:ty, $bits:expr, $signed:expr;)*) => {$(
        impl Fmt for $T {
            const BITS: u32 = $bits;
            const SIGNED: bool = $signed;
            const REPBITS: u32 = $bits;
            #[inline] fn mk(v: i128) -> Self { v as $T }
            #[inline] fn val(self) -> i128 { self as i128 }
        }
    )*};
}
prim_fmt! { i8, 8, true; i16, 16, true; i32, 32, true; i64, 64, true; u8, 8, false; u16, 16, false; u32, 32, false; u64, 64, false; }

macro_rules! custom_fmt {
    ($($T:ident, $Rep:ty, $bits:expr, $signed:expr, $rb:expr;)*) => {$(
        impl Fmt for $T {
            const BITS: u32 = $bits;
            const SIGNED: bool = $signed;
            const REPBITS: u32 = $rb;
            #[inline] fn mk(v: i128) -> Self { $T::new_unchecked(v as $Rep) }
            #[inline] fn val(self) -> i128 { self.inner() as i128 }
        }
    )*};
}
custom_fmt! { I24, i32, 24, true, 32; I48, i64, 48, true, 64; U24, i32, 24, false, 32; U48, i64, 48, false, 64; }

fn fmin<S: Fmt>() -> i128 { if S::SIGNED { -(1i128 << (S::BITS - 1)) } else { 0 } }
fn fmax<S: Fmt>() -> i128 { if S::SIGNED { (1i128 << (S::BITS - 1)) - 1 } else { (1i128 << S::BITS) - 1 } }
fn offset<S: Fmt>() -> i128 { if S::SIGNED { 0 } else { 1i128 << (S::BITS - 1) } }

/// the two float formats: (precision, mantissa field width, exponent field width)
#[derive(Clone, Copy)]
struct FF { prec: u32, mw: u32, ew: u32 }
const F32F: FF = FF { prec: 24, mw: 23, ew: 8 };
const F64F: FF = FF { prec: 53, mw: 52, ew: 11 };
impl FF {
    fn bias(self) -> i64 { (1i64 << (self.ew - 1)) - 1 }
    fn total(self) -> u32 { 1 + self.mw + self.ew }
    fn nan(self) -> u64 { (((1u64 << self.ew) - 1) << self.mw) | (1u64 << (self.mw - 1)) }
    fn inf(self) -> u64 { ((1u64 << self.ew) - 1) << self.mw }
    /// decode: None = NaN; Some((neg, inf, m, e)) value = (-1)^neg * m * 2^e
    fn decode(self, b: u64) -> Option<(bool, bool, u64, i64)> {
        let neg = (b >> (self.total() - 1)) & 1 == 1;
        let ef = (b >> self.mw) & ((1u64 << self.ew) - 1);
        let frac = b & ((1u64 << self.mw) - 1);
        if ef == (1u64 << self.ew) - 1 {
            if frac != 0 { None } else { Some((neg, true, 0, 0)) }
        } else if ef == 0 {
            Some((neg, false, frac, 1 - self.bias() - self.mw as i64))
        } else {
            Some((neg, false, frac | (1u64 << self.mw), ef as i64 - self.bias() - self.mw as i64))
        }
    }
    /// bits of the float nearest (ties to even) to (-1)^neg * a * 2^e, a exact (overflow -> infinity)
    fn encode_round(self, neg: bool, a: u128, e: i64) -> u64 {
        let sign = (neg as u64) << (self.total() - 1);
        if a == 0 { return sign; }
        let emin = 1 - self.bias() - self.mw as i64; // exponent of the last place of subnormals
        let nb = 128 - a.leading_zeros() as i64; // a in [2^(nb-1), 2^nb)
        // target: mantissa of prec bits at exponent q = max(e + nb - prec, emin)
        let mut q = e + nb - self.prec as i64;
        if q < emin { q = emin; }
        let mut m: u128;
        if q <= e {
            let sh = (e - q) as u32;
            m = a << sh; // fits: nb + sh <= prec
        } else {
            let sh = (q - e) as u32;
            if sh >= 128 {
                m = 0; // a < 2^128 <= half of the last place
            } else {
                m = a >> sh;
                let rem = a & ((1u128 << sh) - 1);
                let half = 1u128 << (sh - 1);
                if rem > half || (rem == half && (m & 1) == 1) { m += 1; }
            }
        }
        if m == (1u128 << self.prec) { m >>= 1; q += 1; }
        if m == 0 { return sign; }
        if m < (1u128 << self.mw) {
            // subnormal (q == emin)
            return sign | (m as u64);
        }
        let ef = q - emin + 1;
        if ef >= (1i64 << self.ew) - 1 { return sign | self.inf(); }
        sign | ((ef as u64) << self.mw) | ((m as u64) & ((1u64 << self.mw) - 1))
    }
}

fn c32(x: f32) -> i128 { if x.is_nan() { 0x7fc0_0000 } else { x.to_bits() as i128 } }
fn c64(x: f64) -> i128 { if x.is_nan() { 0x7ff8_0000_0000_0000u64 as i128 } else { x.to_bits() as i128 } }

// ---------------------------------------------------------------------------------------------
// the crate, through the public trait dispatch (both directions of the dispatch compared)

/// conversions reached with nothing but a `Duplex<_>` bound in scope (the marker trait generic code is written against)
#[inline]
fn via_duplex_to<A: Duplex<B>, B>(a: A) -> B { a.to_sample_() }
#[inline]
fn via_duplex_from<A: Duplex<B>, B>(b: B) -> A { A::from_sample_(b) }

/// (Sample::to_sample, the first other entry point that differs from it -- else the same value), each read by `rd`.
/// all = false (the sweeps): to_sample, from_sample, module function; all = true: every public entry point
#[inline]
fn entry_points<A, B>(a: A, all: bool, rd: impl Fn(B) -> i128) -> (i128, i128)
where A: Copy + Sample + ToSample<B> + Direct<B> + Duplex<B>, B: Copy + Sample + FromSample<A> + Duplex<A> {
    let r0 = rd(a.to_sample::<B>());
    let mut other = r0;
    let mut see = |r: i128| if other == r0 && r != r0 { other = r; };
    see(rd(B::from_sample(a)));
    see(rd(a.direct()));
    if all {
        see(rd(ToSample::<B>::to_sample_(a)));
        see(rd(<B as FromSample<A>>::from_sample_(a)));
        see(rd(via_duplex_to::<A, B>(a)));
        see(rd(via_duplex_from::<B, A>(a)));
    }
    (r0, other)
}

#[inline]
fn crate_i2f<S>(fw: i128, v: i128, all: bool) -> (i128, i128)
where S: Fmt + Duplex<f32> + Duplex<f64> + Direct<f32> + Direct<f64>, f32: Duplex<S>, f64: Duplex<S> {
    let s = S::mk(v);
    if fw == 32 { entry_points::<S, f32>(s, all, c32) } else { entry_points::<S, f64>(s, all, c64) }
}

#[inline]
fn crate_f2i<D>(fw: i128, b: i128, all: bool) -> (i128, i128)
where D: Fmt + Duplex<f32> + Duplex<f64>, f32: Duplex<D> + Direct<D>, f64: Duplex<D> + Direct<D> {
    if fw == 32 { entry_points::<f32, D>(f32::from_bits(b as u32), all, |r: D| r.val()) }
    else { entry_points::<f64, D>(f64::from_bits(b as u64), all, |r: D| r.val()) }
}

/// same = false: f32 -> f64 (fw 32) / f64 -> f32 (fw 64); same = true: f32 -> f32 / f64 -> f64 (blanket identity impl)
#[inline]
fn crate_f2f(fw: i128, same: bool, b: i128, all: bool) -> (i128, i128) {
    match (fw == 32, same) {
        (true, false) => entry_points::<f32, f64>(f32::from_bits(b as u32), all, c64),
        (false, false) => entry_points::<f64, f32>(f64::from_bits(b as u64), all, c32),
        (true, true) => entry_points::<f32, f32>(f32::from_bits(b as u32), all, c32),
        (false, true) => entry_points::<f64, f64>(f64::from_bits(b as u64), all, c64),
    }
}

fn fmt_obs(r: Result<(i128, i128), i64>) -> String {
    match r {
        Ok((a, b)) if a == b => format!("0 {}", a),
        Ok((a, b)) => format!("7 {} {}", a, b),
        Err(k) => format!("8 {}", k),
    }
}

// ---------------------------------------------------------------------------------------------
// the specification, in exact integer arithmetic

/// integer -> float: bits of round_NE(amp) / 2^(bits-1)  (one rounding, of the integer; the division is exact)
fn spec_i2f<S: Fmt>(ff: FF, v: i128) -> u64 {
    let amp = v - offset::<S>();
    ff.encode_round(amp < 0, amp.unsigned_abs(), -((S::BITS - 1) as i64))
}

/// does the integer -> float conversion of this value need a rounding?
fn i2f_rounds(ff: FF, amp: i128) -> bool {
    let a = amp.unsigned_abs();
    a != 0 && (128 - a.leading_zeros()) - a.trailing_zeros() > ff.prec
}

/// float -> integer: Some(expected) where the oracle claims a value:
///   trunc(f * 2^(bits-1)) saturated to the primitive the float is cast to (NaN -> 0), re-offset for an
///   unsigned target when the signed value is inside the signed format (always the case on the domain [-1,1)).
/// second component: the product f * 2^(bits-1) is not an integer (truncation matters)
fn spec_f2i<D: Fmt>(ff: FF, b: u64) -> (Option<i128>, bool) {
    let k = (D::BITS - 1) as i64;
    let (lo, hi) = (-(1i128 << (D::REPBITS - 1)), (1i128 << (D::REPBITS - 1)) - 1);
    let mut frac = false;
    let r: i128 = match ff.decode(b) {
        None => 0,
        Some((neg, true, _, _)) => if neg { lo } else { hi },
        Some((neg, false, m, e)) => {
            // f * 2^k = m * 2^(e+k) exactly (scaling by a power of two; overflow of the float product to
            // infinity only happens far beyond the saturation bound)
            let ee = e + k;
            let mag: i128 = if m == 0 { 0 } else if ee >= 0 {
                if ee >= 70 { i128::MAX } else { (m as i128) << ee }
            } else if -ee >= 64 { frac = true; 0 } else {
                frac = (m as u128) & ((1u128 << (-ee)) - 1) != 0;
                (m as i128) >> (-ee)
            };
            let t = if neg { -mag } else { mag };
            if t < lo { lo } else if t > hi { hi } else { t }
        }
    };
    if D::SIGNED {
        (Some(r), frac)
    } else {
        let (slo, shi) = (-(1i128 << (D::BITS - 1)), (1i128 << (D::BITS - 1)) - 1);
        if r >= slo && r <= shi { (Some(r + offset::<D>()), frac) } else { (None, frac) }
    }
}

/// is the float (by bit pattern) finite and in the documented domain -1 <= f < 1 ?
fn in_domain(ff: FF, b: u64) -> bool {
    match ff.decode(b) {
        Some((neg, false, m, e)) => {
            // |f| < 1, or f = -1
            let one_m = 1u64 << ff.mw;
            let e1 = -(ff.mw as i64);
            let lt1 = m == 0 || e < e1 || (e == e1 && m < one_m) ;
            lt1 || (neg && e == e1 && m == one_m)
        }
        _ => false,
    }
}

/// f32 -> f64 (exact) / f64 -> f32 (round to nearest even, overflow to infinity), NaN -> NaN
fn spec_f2f(fw: i128, b: u64) -> (u64, bool) {
    let (src, dst) = if fw == 32 { (F32F, F64F) } else { (F64F, F32F) };
    match src.decode(b) {
        None => (dst.nan(), false),
        Some((neg, true, _, _)) => (((neg as u64) << (dst.total() - 1)) | dst.inf(), false),
        Some((neg, false, m, e)) => {
            let r = dst.encode_round(neg, m as u128, e);
            // non-trivial: the value is not representable in the target (rounded, overflowed or underflowed)
            let back = match dst.decode(r) { Some((_, false, m2, e2)) => exact_eq(m, e, m2, e2), _ => false };
            (r, !back)
        }
    }
}

fn exact_eq(m1: u64, e1: i64, m2: u64, e2: i64) -> bool {
    if m1 == 0 || m2 == 0 { return m1 == m2; }
    let (t1, t2) = (m1.trailing_zeros() as i64, m2.trailing_zeros() as i64);
    (m1 >> t1) == (m2 >> t2) && e1 + t1 == e2 + t2
}

// ---------------------------------------------------------------------------------------------

struct Xs(u64);
impl Xs {
    fn next(&mut self) -> u64 {
        let mut x = self.0;
        x ^= x >> 12;
        x ^= x << 25;
        x ^= x >> 27;
        self.0 = x;
        x.wrapping_mul(0x2545F4914F6CDD1D)
    }
}

/// shared sweep driver: `gen(i, rng)` the i-th input, `eval(input)` = (crate pair, expected or None = no claim,
/// extra failure, non-trivial).  Fast path under one catch; on a panic redo input by input.
fn sweep(n: u64, seed: u64, gen: &dyn Fn(u64, &mut Xs) -> i128,
         eval: &dyn Fn(i128) -> ((i128, i128), Option<i128>, bool, bool)) -> String {
    let mut rng_fast = Xs(seed | 1);
    let fast = catch(|| {
        let mut first: Option<(i128, i64, i128, i128)> = None;
        let (mut nfail, mut nt) = (0u64, 0u64);
        for i in 0..n {
            let v = gen(i, &mut rng_fast);
            let ((x, y), e, extra, nontriv) = eval(v);
            nt += nontriv as u64;
            let bad = x != y || extra || match e { Some(e) => x != e, None => false };
            if bad {
                nfail += 1;
                if first.is_none() {
                    first = Some((v, if x != y { 7 } else if extra { 6 } else { 0 }, x, e.unwrap_or(y)));
                }
            }
        }
        (first, nfail, nt)
    });
    match fast {
        Ok((None, _, nt)) => format!("1 {} {}", n, nt),
        Ok((Some((v, tag, got, e)), nfail, _)) => format!("2 {} {} {} {} {}", v, tag, got, e, nfail),
        Err(_) => {
            let mut rng = Xs(seed | 1);
            let mut first: Option<(i128, i64, i128, i128)> = None;
            let mut nfail = 0u64;
            for i in 0..n {
                let v = gen(i, &mut rng);
                match catch(|| eval(v)) {
                    Ok(((x, y), e, extra, _)) => {
                        let bad = x != y || extra || match e { Some(e) => x != e, None => false };
                        if bad {
                            nfail += 1;
                            if first.is_none() { first = Some((v, if x != y { 7 } else if extra { 6 } else { 0 }, x, e.unwrap_or(y))); }
                        }
                    }
                    Err(k) => {
                        nfail += 1;
                        if first.is_none() { first = Some((v, 8, k as i128, 0)); }
                    }
                }
            }
            match first {
                Some((v, tag, got, e)) => format!("2 {} {} {} {} {}", v, tag, got, e, nfail),
                None => format!("1 {} 0", n),
            }
        }
    }
}

fn i2f<S>(op: &str, fw: i128, a: &[i128]) -> String
where S: Fmt + Duplex<f32> + Duplex<f64> + Direct<f32> + Direct<f64>,
      f32: Duplex<S> + Direct<S>, f64: Duplex<S> + Direct<S> {
    let ff = if fw == 32 { F32F } else { F64F };
    match op {
        "i2f" => a.iter().map(|&v| fmt_obs(catch(|| crate_i2f::<S>(fw, v, true)))).collect::<Vec<_>>().join(";"),
        "oi2f" | "ri2f" => {
            let (lo_r, hi_r) = (fmin::<S>(), fmax::<S>());
            let total = (hi_r - lo_r + 1) as u128;
            let sweep_mode = op == "oi2f";
            let (a0, a2) = (a[0], if a.len() > 2 { a[2] } else { 1 });
            let gen = move |i: u64, rng: &mut Xs| -> i128 {
                if sweep_mode { a0 + (i as i128) * a2 } else {
                    let r = rng.next();
                    if i % 2 == 0 { lo_r + ((r as u128) % total) as i128 } else {
                        // amplitude near a power of two / with few significant bits beyond the mantissa: rounding boundaries
                        let k = (r % (S::BITS as u64)) as u32;
                        let base: i128 = match (r >> 8) % 4 { 0 => 1i128 << k, 1 => -(1i128 << k), 2 => (1i128 << k) | (1i128 << (k.saturating_sub(ff.prec + ((r >> 20) % 3) as u32 - 1))), _ => (3i128 << k) >> 1 };
                        let delta = ((r >> 16) % 5) as i128 - 2;
                        let v = base + delta + offset::<S>();
                        if v < lo_r { lo_r } else if v > hi_r { hi_r } else { v }
                    }
                }
            };
            let one_bits: i128 = if fw == 32 { 0x3f80_0000 } else { 0x3ff0_0000_0000_0000 };
            let sign_bit: i128 = 1i128 << (fw - 1);
            let eval = move |v: i128| {
                let pair = crate_i2f::<S>(fw, v, false);
                let e = spec_i2f::<S>(ff, v) as i128;
                let amp = v - offset::<S>();
                // within [-1, 1]: magnitude bits <= bits of 1.0 ; round trip where the conversion is exact
                let mag = pair.0 & !sign_bit;
                let mut extra = mag > one_bits;
                if S::BITS <= ff.prec {
                    let back = crate_f2i::<S>(fw, pair.0, false);
                    extra |= back.0 != v || back.1 != v;
                }
                (pair, Some(e), extra, i2f_rounds(ff, amp) || !S::SIGNED)
            };
            sweep(a[1] as u64, a[0] as u64, &gen, &eval)
        }
        _ => "-1".to_string(),
    }
}

fn f2i<D>(op: &str, fw: i128, a: &[i128]) -> String
where D: Fmt + Duplex<f32> + Duplex<f64>, f32: Duplex<D> + Direct<D>, f64: Duplex<D> + Direct<D> {
    let ff = if fw == 32 { F32F } else { F64F };
    match op {
        "f2i" => a.iter().map(|&b| fmt_obs(catch(|| crate_f2i::<D>(fw, b, true)))).collect::<Vec<_>>().join(";"),
        "of2i" | "rf2i" => {
            let sweep_mode = op == "of2i";
            let (a0, a2) = (a[0], if a.len() > 2 { a[2] } else { 1 });
            let gen = move |i: u64, rng: &mut Xs| -> i128 {
                if sweep_mode { a0 + (i as i128) * a2 } else {
                    // a bit pattern of the domain: sign, exponent in [-(bias-1) .. -1] biased towards the
                    // exponents where the truncation happens, random fraction; sometimes few mantissa bits
                    let r = rng.next();
                    let r2 = rng.next();
                    let neg = r & 1;
                    let span = match (r >> 1) % 4 { 0 => 3, 1 => D::BITS as u64 + 2, 2 => 70, _ => ff.bias() as u64 };
                    let e = -(1 + ((r >> 8) % span) as i64);
                    let ef = (e + ff.bias()).max(0) as u64;
                    let mut frac = r2 & ((1u64 << ff.mw) - 1);
                    if (r >> 3) % 4 == 0 { frac &= !((1u64 << ((r >> 40) % (ff.mw as u64))) - 1); }
                    ((neg << (ff.total() - 1)) | (ef << ff.mw) | frac) as i128
                }
            };
            let eval = move |b: i128| {
                let pair = crate_f2i::<D>(fw, b, false);
                let (e, frac) = spec_f2i::<D>(ff, b as u64);
                let dom = in_domain(ff, b as u64);
                // on the domain the result must be a valid value of the target format
                let extra = dom && (pair.0 < fmin::<D>() || pair.0 > fmax::<D>() || e.is_none());
                (pair, e, extra, dom && (frac || !D::SIGNED))
            };
            sweep(a[1] as u64, a[0] as u64, &gen, &eval)
        }
        _ => "-1".to_string(),
    }
}

fn f2f(op: &str, fw: i128, same: bool, a: &[i128]) -> String {
    match op {
        "f2f" => a.iter().map(|&b| fmt_obs(catch(|| crate_f2f(fw, same, b, true)))).collect::<Vec<_>>().join(";"),
        "of2f" | "rf2f" => {
            let sweep_mode = op == "of2f";
            let (a0, a2) = (a[0], if a.len() > 2 { a[2] } else { 1 });
            let src = if fw == 32 { F32F } else { F64F };
            let gen = move |i: u64, rng: &mut Xs| -> i128 {
                if sweep_mode { a0 + (i as i128) * a2 } else {
                    let r = rng.next();
                    let r2 = rng.next();
                    if fw == 32 || r % 4 == 0 { (r2 & (u64::MAX >> (64 - src.total()))) as i128 } else {
                        // f64 near the f32 range: exponents around the f32 normal/subnormal/overflow boundaries
                        let e: i64 = match (r >> 2) % 4 { 0 => -(((r >> 8) % 30) as i64), 1 => -120 - ((r >> 8) % 40) as i64, 2 => 120 + ((r >> 8) % 10) as i64, _ => ((r >> 8) % 300) as i64 - 150 };
                        let mut frac = r2 & ((1u64 << 52) - 1);
                        if (r >> 5) % 3 == 0 { frac &= !((1u64 << 29) - 1); if (r >> 7) % 2 == 0 { frac |= 1u64 << 28; } }
                        (((r >> 1) & 1) << 63 | (((e + 1023) as u64) << 52) | frac) as i128
                    }
                }
            };
            let eval = move |b: i128| {
                let pair = crate_f2f(fw, same, b, false);
                let (e, nt) = if same {
                    // the same format: the bit pattern itself (the harness canonicalises a NaN it reads back)
                    (match src.decode(b as u64) { None => src.nan(), Some(_) => b as u64 }, false)
                } else { spec_f2f(fw, b as u64) };
                (pair, Some(e as i128), false, nt)
            };
            sweep(a[1] as u64, a[0] as u64, &gen, &eval)
        }
        _ => "-1".to_string(),
    }
}

macro_rules! by_fmt {
    ($c:expr, $f:ident, $op:expr, $x:expr, $a:expr) => {
        match $c {
            0 => $f::<i8>($op, $x, $a), 1 => $f::<i16>($op, $x, $a), 2 => $f::<I24>($op, $x, $a), 3 => $f::<i32>($op, $x, $a),
            4 => $f::<I48>($op, $x, $a), 5 => $f::<i64>($op, $x, $a), 6 => $f::<u8>($op, $x, $a), 7 => $f::<u16>($op, $x, $a),
            8 => $f::<U24>($op, $x, $a), 9 => $f::<u32>($op, $x, $a), 10 => $f::<U48>($op, $x, $a), 11 => $f::<u64>($op, $x, $a),
            _ => "-1".to_string(),
        }
    };
}

fn main() {
    serve(|line| {
        let mut it = line.split_whitespace();
        let op = it.next().unwrap_or("");
        let t: Vec<i128> = it.map(|s| s.parse::<i128>().expect("int token")).collect();
        let (s, d, a) = (t[0], t[1], &t[2..]);
        match op {
            "i2f" | "oi2f" | "ri2f" => by_fmt!(s, i2f, op, d, a),
            "f2i" | "of2i" | "rf2i" => by_fmt!(d, f2i, op, s, a),
            "f2f" | "of2f" | "rf2f" => f2f(op, s, d == 1, a),
            _ => "-1".to_string(),
        }
    });
}
