//! C03: sample and frame amplitude arithmetic through the PUBLIC traits `dasp_sample::Sample` and
//! `dasp_frame::Frame`, monomorphised for N = 1..=32 over u8, i16, I24, u32, f32, f64 and for
//! N in {1, 2, 3, 8, 32} over the other eight formats, plus every format as a bare sample (mono impl).
//!
//! Input line:  `<fmt> <n> <bare> ; op , op , ...`   (fmt: 0 i8, 1 i16, 2 I24, 3 i32, 4 I48, 5 i64, 6 u8, 7 u16,
//!   8 U24, 9 u32, 10 U48, 11 u64, 12 f32, 13 f64; bare = 1: the bare sample type is the frame, n = 1)
//! Values: integers as their value (I24.. built with new_unchecked, read with inner()), floats as bit patterns
//! (NaN canonicalised on output).  List arguments of an op are separated by `|`.
//!   sadd v a | smul v g | ssig v | sflt v | seq                      Sample::{add_amp, mul_amp, to_signed_sample, to_float_sample, EQUILIBRIUM}
//!   ssigf v | sfltf v                                                <S::Signed as Sample>::from_sample(v), <S::Float as Sample>::from_sample(v): the
//!                                                                    other spelling of the same two conversions (same expected value)
//!   sid                                                              <S as Sample>::IDENTITY (bits), also compared with <S::Float as FloatSample>::IDENTITY
//!   map fr|outs       Frame::map with an FnMut that records its argument and returns outs[#calls]   -> 0 result.. log..
//!   zip fr|other|outs Frame::zip_map (other: frame of the Signed type), same closure                  -> 0 result.. logA.. logB..
//!   fromfn outs       Frame::from_fn with an FnMut that records the index and returns outs[idx]       -> 0 result.. idxlog..
//!   fromsamples l     Frame::from_samples(&mut it), it counts its next() calls                        -> 1 frame.. calls rest.. | 0 calls rest..
//!   channels fr       Frame::channels(): len(), every item, len() at the end, two more next()         -> 0 len items.. 0 len_end #Some
//!   channel fr|i      Frame::channel(i)                                                               -> 1 v | 0
//!   offset fr|a, scale fr|g, addf fr|other, mulf fr|other, tosigned fr, tofloat fr, equil             -> 0 frame..
//!   iter kind|fr|script   ONE iterator instance (kind 0 channels() by value, 1 channels_ref(), 2 channels_mut()) driven by a script of
//!                        steps `code a b`: 0 next, 1 nth(a), 2 by_ref().skip(a).next(), 3 by_ref().step_by(a).take(b).collect(), 4 by_ref().count(),
//!                        5 by_ref().last(), 6 len()+size_hint(), 7 next_back(), 8 by_ref().rev().take(a).collect() (7, 8: kinds 1, 2 only)
//!                        -> 0 then per step: Option `1 v`|`0`, list `len items..`, count `n`, len `len lo hi|-1`
//!                        9 clone: `let mut c = it.clone()`, then c.next() and c.len() (`it` itself is not advanced; kinds 0, 1: ChannelsMut is not Clone)
//!   nch                   <F as Frame>::CHANNELS                                                                         -> 0 n
//!   chmut fr|i|v          if let Some(r) = fr.channel_mut(i) { *r = v }                                                  -> 0 flag frame..
//!   chun fr|i             unsafe { *fr.channel_unchecked(i) }          (only generated with i < N)                       -> 0 v
//!   chunmut fr|i|v        unsafe { *fr.channel_unchecked_mut(i) = v }  (only generated with i < N)                       -> 0 frame..
//!   chw fr|news|dir       for (r, v) in fr.channels_mut()[.rev() if dir = 1].zip(news) { *r = v }                        -> 0 frame..
//!   bare only: mapba fr|outs (bare -> [S; 1]), mapab fr|outs ([S; 1] -> bare), addfa fr|other (other: [Signed; 1])
//! A panic inside an op is observed as `8 k`: 1 = rustc overflow check, 2 = index, 4 = `expect("arithmetic operation
//! overflowed")` of the I24/I48 operators, 9 = other.
use dasp_frame::Frame;
use dasp_sample::{FloatSample, Sample, I24, I48, U24, U48};
use dasp_verif_harness::serve;
use std::panic::{self, AssertUnwindSafe};

trait Cd: Copy {
    fn mk(v: i128) -> Self;
    fn val(self) -> i128;
}
macro_rules! prim_cd { ($($T:ty)*) => {$( impl Cd for $T {
    #[inline] fn mk(v: i128) -> Self { v as $T }
    #[inline] fn val(self) -> i128 { self as i128 }
} )*}; }
prim_cd! { i8 i16 i32 i64 u8 u16 u32 u64 }
macro_rules! custom_cd { ($($T:ident $Rep:ty;)*) => {$( impl Cd for $T {
    #[inline] fn mk(v: i128) -> Self { $T::new_unchecked(v as $Rep) }
    #[inline] fn val(self) -> i128 { self.inner() as i128 }
} )*}; }
custom_cd! { I24 i32; I48 i64; U24 i32; U48 i64; }
impl Cd for f32 {
    fn mk(v: i128) -> Self { f32::from_bits(v as u32) }
    fn val(self) -> i128 { if self.is_nan() { 0x7FC0_0000 } else { self.to_bits() as i128 } }
}
impl Cd for f64 {
    fn mk(v: i128) -> Self { f64::from_bits(v as u64) }
    fn val(self) -> i128 { if self.is_nan() { 0x7FF8_0000_0000_0000 } else { self.to_bits() as i128 } }
}

fn catch<T>(f: impl FnOnce() -> T) -> Result<T, i64> {
    panic::catch_unwind(AssertUnwindSafe(f)).map_err(|p| {
        let msg: String = if let Some(s) = p.downcast_ref::<&str>() { s.to_string() }
            else if let Some(s) = p.downcast_ref::<String>() { s.clone() } else { String::new() };
        if msg == "arithmetic operation overflowed" { 4 }
        else if msg.contains("overflow") { 1 }
        else if msg.contains("out of bounds") || msg.contains("out of range") { 2 }
        else { 9 }
    })
}

fn fmt_obs(tag: i128, v: &[i128]) -> String {
    let mut s = tag.to_string();
    for x in v { s.push(' '); s.push_str(&x.to_string()); }
    s
}
fn fin(r: Result<String, i64>) -> String { match r { Ok(s) => s, Err(k) => format!("8 {}", k) } }

struct Op<'a> { name: &'a str, l: Vec<Vec<i128>> }
fn parse_ops(s: &str) -> Vec<Op<'_>> {
    s.split(',').filter(|t| !t.trim().is_empty()).map(|t| {
        let t = t.trim();
        let (name, rest) = match t.find(' ') { Some(i) => (&t[..i], &t[i + 1..]), None => (t, "") };
        let l = rest.split('|').map(|p| p.split_whitespace().map(|x| x.parse::<i128>().expect("int token")).collect()).collect();
        Op { name, l }
    }).collect()
}

fn arr<T: Cd, const N: usize>(v: &[i128]) -> [T; N] {
    assert!(v.len() == N, "harness: frame argument has {} values, N = {}", v.len(), N);
    core::array::from_fn(|i| T::mk(v[i]))
}
fn vals<T: Cd>(v: &[T]) -> Vec<i128> { v.iter().map(|x| x.val()).collect() }
fn mkv<T: Cd>(v: &[i128]) -> Vec<T> { v.iter().map(|&x| T::mk(x)).collect() }

struct CountIt<T> { v: Vec<T>, pos: usize, calls: usize }
impl<T: Copy> Iterator for CountIt<T> {
    type Item = T;
    fn next(&mut self) -> Option<T> {
        self.calls += 1;
        if self.pos < self.v.len() { self.pos += 1; Some(self.v[self.pos - 1]) } else { None }
    }
}


/// iterator-adaptor script on one iterator instance; $back = true adds the DoubleEndedIterator steps
macro_rules! run_script {
    ($it:expr, $script:expr, $val:expr, $back:tt, $clone:tt) => {{
        let mut it = $it;
        let val = $val;
        let mut o: Vec<i128> = Vec::new();
        for st in $script.chunks(3) {
            let (a, b) = (st[1] as usize, st[2] as usize);
            match st[0] {
                0 => match it.next() { Some(s) => { o.push(1); o.push(val(s)); } None => o.push(0) },
                1 => match it.nth(a) { Some(s) => { o.push(1); o.push(val(s)); } None => o.push(0) },
                2 => match it.by_ref().skip(a).next() { Some(s) => { o.push(1); o.push(val(s)); } None => o.push(0) },
                3 => { let v: Vec<_> = it.by_ref().step_by(a).take(b).collect(); o.push(v.len() as i128); for s in v { o.push(val(s)); } }
                4 => o.push(it.by_ref().count() as i128),
                5 => match it.by_ref().last() { Some(s) => { o.push(1); o.push(val(s)); } None => o.push(0) },
                6 => { let (lo, hi) = it.size_hint(); o.push(it.len() as i128); o.push(lo as i128); o.push(hi.map(|h| h as i128).unwrap_or(-1)); }
                9 => run_script!(@clone $clone, it, o, val),
                c => run_script!(@back $back, it, o, val, a, c),
            }
        }
        fmt_obs(0, &o)
    }};
    (@clone true, $it:ident, $o:ident, $val:ident) => {{
        let mut c = $it.clone();
        match c.next() { Some(s) => { $o.push(1); $o.push($val(s)); } None => $o.push(0) }
        $o.push(c.len() as i128);
    }};
    (@clone false, $it:ident, $o:ident, $val:ident) => {
        panic!("harness: ChannelsMut is not Clone")
    };
    (@back true, $it:ident, $o:ident, $val:ident, $a:ident, $c:ident) => {
        match $c {
            7 => match $it.next_back() { Some(s) => { $o.push(1); $o.push($val(s)); } None => $o.push(0) },
            8 => { let v: Vec<_> = $it.by_ref().rev().take($a).collect(); $o.push(v.len() as i128); for s in v { $o.push($val(s)); } }
            c => panic!("harness: unknown script step {}", c),
        }
    };
    (@back false, $it:ident, $o:ident, $val:ident, $a:ident, $c:ident) => {
        panic!("harness: script step {} not available on a by-value Channels iterator", $c)
    };
}

/// the Sample:: methods (shared by the array and the bare runners)
fn sample_op<S>(op: &Op) -> Option<String>
where S: Sample + Cd, S::Signed: Cd, S::Float: Cd {
    let a = &op.l[0];
    Some(fin(match op.name {
        "sadd" => catch(|| fmt_obs(0, &[Sample::add_amp(S::mk(a[0]), <S::Signed as Cd>::mk(a[1])).val()])),
        "smul" => catch(|| fmt_obs(0, &[Sample::mul_amp(S::mk(a[0]), <S::Float as Cd>::mk(a[1])).val()])),
        "ssig" => catch(|| fmt_obs(0, &[Sample::to_signed_sample(S::mk(a[0])).val()])),
        "sflt" => catch(|| fmt_obs(0, &[Sample::to_float_sample(S::mk(a[0])).val()])),
        "seq" => catch(|| fmt_obs(0, &[<S as Sample>::EQUILIBRIUM.val()])),
        "ssigf" => catch(|| fmt_obs(0, &[<S::Signed as Sample>::from_sample(S::mk(a[0])).val()])),
        "sfltf" => catch(|| fmt_obs(0, &[<S::Float as Sample>::from_sample(S::mk(a[0])).val()])),
        "sid" => catch(|| {
            let (x, y) = (<S as Sample>::IDENTITY.val(), <S::Float as FloatSample>::IDENTITY.val());
            if x == y { fmt_obs(0, &[x]) } else { fmt_obs(7, &[x, y]) }
        }),
        _ => return None,
    }))
}

fn run_arr<S, const N: usize>(ops: &[Op]) -> Vec<String>
where S: Sample + Cd, S::Signed: Cd, S::Float: Cd {
    ops.iter().map(|op| {
        if let Some(s) = sample_op::<S>(op) { return s; }
        let l = &op.l;
        fin(catch(|| match op.name {
            "map" => {
                let fr: [S; N] = arr(&l[0]);
                let outs: Vec<S> = mkv(&l[1]);
                let (mut log, mut k) = (Vec::new(), 0usize);
                let r: [S; N] = Frame::map(fr, |s: S| { log.push(s.val()); let y = outs[k]; k += 1; y });
                let mut o = vals(&r); o.extend(log); fmt_obs(0, &o)
            }
            "zip" => {
                let fr: [S; N] = arr(&l[0]);
                let other: [S::Signed; N] = arr(&l[1]);
                let outs: Vec<S> = mkv(&l[2]);
                let (mut la, mut lb, mut k) = (Vec::new(), Vec::new(), 0usize);
                let r: [S; N] = Frame::zip_map(fr, other, |a: S, b: S::Signed| { la.push(a.val()); lb.push(b.val()); let y = outs[k]; k += 1; y });
                let mut o = vals(&r); o.extend(la); o.extend(lb); fmt_obs(0, &o)
            }
            "fromfn" => {
                let outs: Vec<S> = mkv(&l[0]);
                let mut log = Vec::new();
                let r = <[S; N] as Frame>::from_fn(|i| { log.push(i as i128); outs[i] });
                let mut o = vals(&r); o.extend(log); fmt_obs(0, &o)
            }
            "fromsamples" => {
                let mut it = CountIt { v: mkv::<S>(&l[0]), pos: 0, calls: 0 };
                let r = <[S; N] as Frame>::from_samples(&mut it);
                let mut o = Vec::new();
                let tag = match r { Some(fr) => { o.extend(vals(&fr)); 1 } None => 0 };
                o.push(it.calls as i128);
                o.extend(vals(&it.v[it.pos..]));
                fmt_obs(tag, &o)
            }
            "channels" => {
                let fr: [S; N] = arr(&l[0]);
                let mut it = Frame::channels(fr);
                let mut o = vec![it.len() as i128];
                while let Some(s) = it.next() { o.push(s.val()); }
                let x1 = it.next().is_some() as i128;
                let x2 = it.next().is_some() as i128;
                o.push(0); o.push(it.len() as i128); o.push(x1 + x2);
                fmt_obs(0, &o)
            }
            "iter" => {
                let mut fr: [S; N] = arr(&l[1]);
                match l[0][0] {
                    0 => run_script!(Frame::channels(fr), &l[2], |s: S| s.val(), false, true),
                    1 => run_script!(Frame::channels_ref(&fr), &l[2], |s: &S| s.val(), true, true),
                    _ => run_script!(Frame::channels_mut(&mut fr), &l[2], |s: &mut S| s.val(), true, false),
                }
            }
            "channel" => {
                let fr: [S; N] = arr(&l[0]);
                match Frame::channel(&fr, l[1][0] as usize) { Some(s) => fmt_obs(1, &[s.val()]), None => fmt_obs(0, &[]) }
            }
            "offset" => fmt_obs(0, &vals(&Frame::offset_amp(arr::<S, N>(&l[0]), <S::Signed as Cd>::mk(l[1][0])))),
            "scale" => fmt_obs(0, &vals(&Frame::scale_amp(arr::<S, N>(&l[0]), <S::Float as Cd>::mk(l[1][0])))),
            "addf" => fmt_obs(0, &vals(&Frame::add_amp(arr::<S, N>(&l[0]), arr::<S::Signed, N>(&l[1])))),
            "mulf" => fmt_obs(0, &vals(&Frame::mul_amp(arr::<S, N>(&l[0]), arr::<S::Float, N>(&l[1])))),
            "tosigned" => { let r: [S::Signed; N] = Frame::to_signed_frame(arr::<S, N>(&l[0])); fmt_obs(0, &vals(&r)) }
            "tofloat" => { let r: [S::Float; N] = Frame::to_float_frame(arr::<S, N>(&l[0])); fmt_obs(0, &vals(&r)) }
            "equil" => fmt_obs(0, &vals(&<[S; N] as Frame>::EQUILIBRIUM)),
            "nch" => fmt_obs(0, &[<[S; N] as Frame>::CHANNELS as i128]),
            "chmut" => {
                let mut fr: [S; N] = arr(&l[0]);
                let flag = match Frame::channel_mut(&mut fr, l[1][0] as usize) { Some(r) => { *r = S::mk(l[2][0]); 1 } None => 0 };
                let mut o = vec![flag]; o.extend(vals(&fr)); fmt_obs(0, &o)
            }
            "chun" => {
                let fr: [S; N] = arr(&l[0]);
                let i = l[1][0] as usize;
                assert!(i < N, "harness: channel_unchecked is only called inside the bounds");
                fmt_obs(0, &[unsafe { *Frame::channel_unchecked(&fr, i) }.val()])
            }
            "chunmut" => {
                let mut fr: [S; N] = arr(&l[0]);
                let i = l[1][0] as usize;
                assert!(i < N, "harness: channel_unchecked_mut is only called inside the bounds");
                unsafe { *Frame::channel_unchecked_mut(&mut fr, i) = S::mk(l[2][0]); }
                fmt_obs(0, &vals(&fr))
            }
            "chw" => {
                let mut fr: [S; N] = arr(&l[0]);
                let news: Vec<S> = mkv(&l[1]);
                if l[2][0] == 0 { for (r, v) in Frame::channels_mut(&mut fr).zip(news) { *r = v; } }
                else { for (r, v) in Frame::channels_mut(&mut fr).rev().zip(news) { *r = v; } }
                fmt_obs(0, &vals(&fr))
            }
            other => panic!("unknown op {}", other),
        }))
    }).collect()
}

/// a bare sample used as a frame (the mono impls of impl_frame_for_sample!)
macro_rules! bare_runner {
    ($name:ident, $T:ty) => {
        fn $name(ops: &[Op]) -> Vec<String> {
            type S = $T;
            type Sg = <$T as Sample>::Signed;
            type Fl = <$T as Sample>::Float;
            ops.iter().map(|op| {
                if let Some(s) = sample_op::<S>(op) { return s; }
                let l = &op.l;
                let one = |v: &Vec<i128>| -> S { assert!(v.len() == 1); S::mk(v[0]) };
                fin(catch(|| match op.name {
                    "map" => {
                        let outs: Vec<S> = mkv(&l[1]);
                        let (mut log, mut k) = (Vec::new(), 0usize);
                        let r: S = Frame::map(one(&l[0]), |s: S| { log.push(s.val()); let y = outs[k]; k += 1; y });
                        let mut o = vec![r.val()]; o.extend(log); fmt_obs(0, &o)
                    }
                    "mapba" => {
                        let outs: Vec<S> = mkv(&l[1]);
                        let (mut log, mut k) = (Vec::new(), 0usize);
                        let r: [S; 1] = Frame::map(one(&l[0]), |s: S| { log.push(s.val()); let y = outs[k]; k += 1; y });
                        let mut o = vals(&r); o.extend(log); fmt_obs(0, &o)
                    }
                    "mapab" => {
                        let outs: Vec<S> = mkv(&l[1]);
                        let (mut log, mut k) = (Vec::new(), 0usize);
                        let fr: [S; 1] = arr(&l[0]);
                        let r: S = Frame::map(fr, |s: S| { log.push(s.val()); let y = outs[k]; k += 1; y });
                        let mut o = vec![r.val()]; o.extend(log); fmt_obs(0, &o)
                    }
                    "zip" => {
                        let outs: Vec<S> = mkv(&l[2]);
                        let other: Sg = <Sg as Cd>::mk(l[1][0]);
                        let (mut la, mut lb, mut k) = (Vec::new(), Vec::new(), 0usize);
                        let r: S = Frame::zip_map(one(&l[0]), other, |a: S, b: Sg| { la.push(a.val()); lb.push(b.val()); let y = outs[k]; k += 1; y });
                        let mut o = vec![r.val()]; o.extend(la); o.extend(lb); fmt_obs(0, &o)
                    }
                    "fromfn" => {
                        let outs: Vec<S> = mkv(&l[0]);
                        let mut log = Vec::new();
                        let r = <S as Frame>::from_fn(|i| { log.push(i as i128); outs[i] });
                        let mut o = vec![r.val()]; o.extend(log); fmt_obs(0, &o)
                    }
                    "fromsamples" => {
                        let mut it = CountIt { v: mkv::<S>(&l[0]), pos: 0, calls: 0 };
                        let r = <S as Frame>::from_samples(&mut it);
                        let mut o = Vec::new();
                        let tag = match r { Some(s) => { o.push(s.val()); 1 } None => 0 };
                        o.push(it.calls as i128);
                        o.extend(vals(&it.v[it.pos..]));
                        fmt_obs(tag, &o)
                    }
                    "channels" => {
                        let mut it = Frame::channels(one(&l[0]));
                        let mut o = vec![it.len() as i128];
                        while let Some(s) = it.next() { o.push(s.val()); }
                        let x1 = it.next().is_some() as i128;
                        let x2 = it.next().is_some() as i128;
                        o.push(0); o.push(it.len() as i128); o.push(x1 + x2);
                        fmt_obs(0, &o)
                    }
                    "iter" => {
                        let mut s0 = one(&l[1]);
                        match l[0][0] {
                            0 => run_script!(Frame::channels(s0), &l[2], |s: S| s.val(), false, true),
                            1 => run_script!(Frame::channels_ref(&s0), &l[2], |s: &S| s.val(), true, true),
                            _ => run_script!(Frame::channels_mut(&mut s0), &l[2], |s: &mut S| s.val(), true, false),
                        }
                    }
                    "channel" => {
                        let s = one(&l[0]);
                        match Frame::channel(&s, l[1][0] as usize) { Some(s) => fmt_obs(1, &[s.val()]), None => fmt_obs(0, &[]) }
                    }
                    "offset" => fmt_obs(0, &[Frame::offset_amp(one(&l[0]), <Sg as Cd>::mk(l[1][0])).val()]),
                    "scale" => fmt_obs(0, &[Frame::scale_amp(one(&l[0]), <Fl as Cd>::mk(l[1][0])).val()]),
                    "addf" => fmt_obs(0, &[Frame::add_amp(one(&l[0]), <Sg as Cd>::mk(l[1][0])).val()]),
                    "addfa" => fmt_obs(0, &[Frame::add_amp(one(&l[0]), arr::<Sg, 1>(&l[1])).val()]),
                    "mulf" => fmt_obs(0, &[Frame::mul_amp(one(&l[0]), <Fl as Cd>::mk(l[1][0])).val()]),
                    "tosigned" => { let r: Sg = Frame::to_signed_frame(one(&l[0])); fmt_obs(0, &[r.val()]) }
                    "tofloat" => { let r: Fl = Frame::to_float_frame(one(&l[0])); fmt_obs(0, &[r.val()]) }
                    "equil" => fmt_obs(0, &[<S as Frame>::EQUILIBRIUM.val()]),
                    "nch" => fmt_obs(0, &[<S as Frame>::CHANNELS as i128]),
                    "chmut" => {
                        let mut s0 = one(&l[0]);
                        let flag = match Frame::channel_mut(&mut s0, l[1][0] as usize) { Some(r) => { *r = S::mk(l[2][0]); 1 } None => 0 };
                        fmt_obs(0, &[flag, s0.val()])
                    }
                    "chun" => {
                        let s0 = one(&l[0]);
                        assert!(l[1][0] == 0, "harness: channel_unchecked is only called inside the bounds");
                        fmt_obs(0, &[unsafe { *Frame::channel_unchecked(&s0, 0) }.val()])
                    }
                    "chunmut" => {
                        let mut s0 = one(&l[0]);
                        assert!(l[1][0] == 0, "harness: channel_unchecked_mut is only called inside the bounds");
                        unsafe { *Frame::channel_unchecked_mut(&mut s0, 0) = S::mk(l[2][0]); }
                        fmt_obs(0, &[s0.val()])
                    }
                    "chw" => {
                        let mut s0 = one(&l[0]);
                        let news: Vec<S> = mkv(&l[1]);
                        if l[2][0] == 0 { for (r, v) in Frame::channels_mut(&mut s0).zip(news) { *r = v; } }
                        else { for (r, v) in Frame::channels_mut(&mut s0).rev().zip(news) { *r = v; } }
                        fmt_obs(0, &[s0.val()])
                    }
                    other => panic!("unknown op {}", other),
                }))
            }).collect()
        }
    };
}
bare_runner!(bare_i8, i8);
bare_runner!(bare_i16, i16);
bare_runner!(bare_i24, I24);
bare_runner!(bare_i32, i32);
bare_runner!(bare_i48, I48);
bare_runner!(bare_i64, i64);
bare_runner!(bare_u8, u8);
bare_runner!(bare_u16, u16);
bare_runner!(bare_u24, U24);
bare_runner!(bare_u32, u32);
bare_runner!(bare_u48, U48);
bare_runner!(bare_u64, u64);
bare_runner!(bare_f32, f32);
bare_runner!(bare_f64, f64);

macro_rules! disp {
    ($T:ty, $n:expr, $ops:expr; $($N:literal)*) => {
        match $n { $($N => run_arr::<$T, $N>($ops),)* n => panic!("harness: no monomorphisation for N = {}", n) }
    };
}
macro_rules! all32 { ($T:ty, $n:expr, $ops:expr) => {
    disp!($T, $n, $ops; 1 2 3 4 5 6 7 8 9 10 11 12 13 14 15 16 17 18 19 20 21 22 23 24 25 26 27 28 29 30 31 32)
}; }
macro_rules! few { ($T:ty, $n:expr, $ops:expr) => { disp!($T, $n, $ops; 1 2 3 8 32) }; }

fn main() {
    serve(|line| {
        let (head, ops) = line.split_once(';').expect("harness: `fmt n bare ; ops`");
        let h: Vec<i64> = head.split_whitespace().map(|t| t.parse().expect("int token")).collect();
        let (fmt, n, bare) = (h[0], h[1], h[2]);
        let ops = parse_ops(ops);
        let ops = &ops[..];
        let out = if bare == 1 {
            match fmt {
                0 => bare_i8(ops), 1 => bare_i16(ops), 2 => bare_i24(ops), 3 => bare_i32(ops), 4 => bare_i48(ops),
                5 => bare_i64(ops), 6 => bare_u8(ops), 7 => bare_u16(ops), 8 => bare_u24(ops), 9 => bare_u32(ops),
                10 => bare_u48(ops), 11 => bare_u64(ops), 12 => bare_f32(ops), 13 => bare_f64(ops),
                f => panic!("harness: format {}", f),
            }
        } else {
            match fmt {
                0 => few!(i8, n, ops), 1 => all32!(i16, n, ops), 2 => all32!(I24, n, ops), 3 => few!(i32, n, ops),
                4 => few!(I48, n, ops), 5 => few!(i64, n, ops), 6 => all32!(u8, n, ops), 7 => few!(u16, n, ops),
                8 => few!(U24, n, ops), 9 => all32!(u32, n, ops), 10 => few!(U48, n, ops), 11 => few!(u64, n, ops),
                12 => all32!(f32, n, ops), 13 => all32!(f64, n, ops),
                f => panic!("harness: format {}", f),
            }
        };
        out.join(";")
    });
}
