//! C06: drives dasp_ring_buffer::{Bounded, Fixed} through operation sequences.
//! Input line:  `B <kind> <start> <len> <d0> <d1> ... ; op , op , ...`
//!          or  `F <kind> <first> <d0> <d1> ... ; op , op , ...`
//! kind: 0 Vec, 1 Box<[T]>, 2 &mut [T], 3 [T; N] (N <= 8, else Vec), 4 Vec with spare capacity
//! Output: observations joined by ';', each `tag payload...`
//! tags: 0 None, 1 Some x, 2 value, 3 bool, 4 nat, 5 list, 6 pair (len1 then items), 7 unit, 8 panic code
use dasp_ring_buffer::{Bounded, Fixed, Slice, SliceMut};
use dasp_verif_harness::*;

fn opt(o: Option<i64>) -> String {
    match o {
        None => obs(0, &[]),
        Some(x) => obs(1, &[x]),
    }
}

fn pair(a: &[i64], b: &[i64]) -> String {
    let mut v = vec![a.len() as i64];
    v.extend_from_slice(a);
    v.extend_from_slice(b);
    obs(6, &v)
}

fn run_bounded<S>(mk: impl FnOnce() -> Bounded<S>, ops: &[Vec<&str>]) -> Vec<String>
where
    S: SliceMut<Element = i64>,
{
    let mut out = Vec::new();
    let mut rb = match catch(mk) {
        Ok(rb) => rb,
        Err(c) => return vec![obs(8, &[c])],
    };
    for op in ops {
        let a: Vec<i64> = op[1..].iter().map(|t| t.parse().unwrap()).collect();
        let r = catch(|| match op[0] {
            "push" => opt(rb.push(a[0])),
            "pop" => opt(rb.pop()),
            "get" => opt(rb.get(a[0] as usize).cloned()),
            "set" => match rb.get_mut(a[0] as usize) {
                Some(r) => {
                    *r = a[1];
                    obs(3, &[1])
                }
                None => obs(3, &[0]),
            },
            "idx" => obs(2, &[rb[a[0] as usize]]),
            "idxset" => {
                rb[a[0] as usize] = a[1];
                obs(7, &[])
            }
            "slices" => {
                let (x, y) = rb.slices();
                pair(x, y)
            }
            "slicesmut" => {
                // same view through the mutable accessor, nothing stored
                let (x, y) = rb.slices_mut();
                pair(x, y)
            }
            "iter" => obs(5, &rb.iter().cloned().collect::<Vec<_>>()),
            "map" => {
                // iter_mut: read every item in visit order, then store item + k
                let mut seen = Vec::new();
                for r in rb.iter_mut() {
                    seen.push(*r);
                    *r += a[0];
                }
                obs(5, &seen)
            }
            "mapslices" => {
                let mut seen = Vec::new();
                let (x, y) = rb.slices_mut();
                for r in x.iter_mut().chain(y.iter_mut()) {
                    seen.push(*r);
                    *r += a[0];
                }
                obs(5, &seen)
            }
            "drain" => obs(5, &rb.drain().take(a[0] as usize).collect::<Vec<_>>()),
            "drainnth" => opt(rb.drain().nth(a[0] as usize)),
            "drainskip" => opt(rb.drain().skip(a[0] as usize).next()),
            "iternth" => opt(rb.iter().nth(a[0] as usize).cloned()),
            "iterrev" => obs(5, &rb.iter().rev().cloned().collect::<Vec<_>>()),
            "iterlast" => opt(rb.iter().last().cloned()),
            "drainlen" => {
                let d = rb.drain();
                let (lo, hi) = d.size_hint();
                obs(4, &[if Some(lo) == hi && lo == d.len() { lo as i64 } else { -1 }])
            }
            "extend" => {
                rb.extend(a.iter().cloned());
                obs(7, &[])
            }
            "len" => obs(4, &[rb.len() as i64]),
            "empty" => obs(3, &[rb.is_empty() as i64]),
            "full" => obs(3, &[rb.is_full() as i64]),
            "maxlen" => obs(4, &[rb.max_len() as i64]),
            other => panic!("unknown op {}", other),
        });
        out.push(match r {
            Ok(s) => s,
            Err(c) => obs(8, &[c]),
        });
    }
    out
}

fn run_fixed<S>(mk: impl FnOnce() -> Fixed<S>, ops: &[Vec<&str>]) -> Vec<String>
where
    S: SliceMut<Element = i64>,
{
    let mut out = Vec::new();
    let mut rb = match catch(mk) {
        Ok(rb) => rb,
        Err(c) => return vec![obs(8, &[c])],
    };
    for op in ops {
        let a: Vec<i64> = op[1..].iter().map(|t| t.parse().unwrap()).collect();
        let r = catch(|| match op[0] {
            "push" => obs(2, &[rb.push(a[0])]),
            "get" => obs(2, &[*rb.get(a[0] as usize)]),
            "idx" => obs(2, &[rb[a[0] as usize]]),
            "set" => {
                *rb.get_mut(a[0] as usize) = a[1];
                obs(7, &[])
            }
            "idxset" => {
                rb[a[0] as usize] = a[1];
                obs(7, &[])
            }
            "setfirst" => {
                rb.set_first(a[0] as usize);
                obs(7, &[])
            }
            "slices" => {
                let (x, y) = rb.slices();
                pair(x, y)
            }
            "slicesmut" => {
                let (x, y) = rb.slices_mut();
                pair(x, y)
            }
            "iter" => obs(5, &rb.iter().cloned().collect::<Vec<_>>()),
            "iterloop" => obs(5, &rb.iter_loop().take(a[0] as usize).cloned().collect::<Vec<_>>()),
            "map" => {
                let mut seen = Vec::new();
                for r in rb.iter_mut() {
                    seen.push(*r);
                    *r += a[0];
                }
                obs(5, &seen)
            }
            "extend" => {
                rb.extend(a.iter().cloned());
                obs(7, &[])
            }
            "len" => obs(4, &[rb.len() as i64]),
            other => panic!("unknown op {}", other),
        });
        out.push(match r {
            Ok(s) => s,
            Err(c) => obs(8, &[c]),
        });
    }
    out
}

fn arr<const N: usize>(d: &[i64]) -> [i64; N] {
    let mut a = [0i64; N];
    a.copy_from_slice(d);
    a
}


fn main() {
    serve(|line| {
        let (head, tail) = line.split_once(';').expect("case needs ';'");
        let h: Vec<&str> = head.split_whitespace().collect();
        let ops: Vec<Vec<&str>> = tail
            .split(',')
            .map(|o| o.split_whitespace().collect::<Vec<_>>())
            .filter(|o| !o.is_empty())
            .collect();
        let kind: i64 = h[1].parse().unwrap();
        let res = if h[0] == "B" {
            let start: usize = h[2].parse().unwrap();
            let len: usize = h[3].parse().unwrap();
            let data: Vec<i64> = h[4..].iter().map(|t| t.parse().unwrap()).collect();
            match kind {
                1 => run_bounded(|| Bounded::from_raw_parts(start, len, data.clone().into_boxed_slice()), &ops),
                2 => {
                    let mut store = data.clone();
                    run_bounded(|| Bounded::from_raw_parts(start, len, &mut store[..]), &ops)
                }
                3 if data.len() <= 8 => {
                    let n = data.len();
                    let ops2 = &ops;
                    macro_rules! go { ($($N:literal)*) => { match n {
                        $($N => run_bounded(|| Bounded::from_raw_parts(start, len, arr::<$N>(&data)), ops2),)*
                        _ => unreachable!() } } }
                    go!(0 1 2 3 4 5 6 7 8)
                }
                4 => {
                    // a Vec whose capacity exceeds its length: the spare capacity is not part of the buffer
                    let mut v: Vec<i64> = Vec::with_capacity(data.len() + 5);
                    v.extend_from_slice(&data);
                    run_bounded(|| Bounded::from_raw_parts(start, len, v), &ops)
                }
                // the safe constructors (the case's start/len describe what they must produce)
                5 => run_bounded(|| data.iter().cloned().collect::<Bounded<Vec<i64>>>(), &ops), // FromIterator: empty
                6 => run_bounded(|| Bounded::from_full(data.clone()), &ops),                    // full, start 0
                7 => run_bounded(|| Bounded::from(data.clone().into_boxed_slice()), &ops),      // From: empty
                8 => run_bounded(|| data.iter().cloned().collect::<Bounded<Box<[i64]>>>(), &ops),
                _ => run_bounded(|| Bounded::from_raw_parts(start, len, data.clone()), &ops),
            }
        } else {
            let first: usize = h[2].parse().unwrap();
            let data: Vec<i64> = h[3..].iter().map(|t| t.parse().unwrap()).collect();
            match kind {
                1 => run_fixed(|| Fixed::from_raw_parts(first, data.clone().into_boxed_slice()), &ops),
                2 => {
                    let mut store = data.clone();
                    run_fixed(|| Fixed::from_raw_parts(first, &mut store[..]), &ops)
                }
                3 if data.len() <= 8 => {
                    let n = data.len();
                    let ops2 = &ops;
                    macro_rules! go { ($($N:literal)*) => { match n {
                        $($N => run_fixed(|| Fixed::from_raw_parts(first, arr::<$N>(&data)), ops2),)*
                        _ => unreachable!() } } }
                    go!(0 1 2 3 4 5 6 7 8)
                }
                4 => {
                    let mut v: Vec<i64> = Vec::with_capacity(data.len() + 5);
                    v.extend_from_slice(&data);
                    run_fixed(|| Fixed::from_raw_parts(first, v), &ops)
                }
                5 => run_fixed(|| data.iter().cloned().collect::<Fixed<Vec<i64>>>(), &ops), // FromIterator: first 0
                6 => run_fixed(|| Fixed::from(data.clone()), &ops),                          // From: first 0
                7 => run_fixed(|| Fixed::from(data.clone().into_boxed_slice()), &ops),
                _ => run_fixed(|| Fixed::from_raw_parts(first, data.clone()), &ops),
            }
        };
        let _ = (Slice::slice(&vec![0i64]),); // keep the trait import used on every path
        res.join(";")
    });
}
