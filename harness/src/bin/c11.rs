//! C11: drives dasp_rms::Rms and the dasp_signal rms adaptor (std build in harness/, and the same
//! source built against the no_std-configured crates in harness_nightly_nostd/ with cargo +nightly).
//! `R ...` lines: see ../c11_body.rs.
//! `A <fmt> <nostd> <chans> <N> <sq> <k> <fin> <cl> ; <frames flattened>`: signal adaptor, zero window of N
//! frames, k x next() (sq = 1: next_squared()); output `2 out-bits..` per call, then `4 <count>`;
//! cl >= 0: before call number cl the adaptor is replaced by its clone().  After the k calls
//! `into_parts()` = (source, detector): `5 window..` ; `3 square_sum..` ; `4 window_frames` ;
//! `2 current()` of the returned detector, then `2 detector.next(source.next())`, (fin = 1:
//! `3 source.is_exhausted()`), `4 <count>` again.
//! fin = 0: the source is a counting closure (gen_mut: the given frames, then equilibrium; never
//! exhausted), count = frames pulled.  fin = 1: the source is signal::from_iter over the finite frame
//! list (through a counting iterator); `3 <is_exhausted>` is printed before the first call and after
//! every call; count = items taken from the iterator.
use dasp_verif_harness::*;
use dasp_signal::rms::SignalRms;
use dasp_signal::{self as signal, Signal};
use std::cell::Cell;

include!("../c11_body.rs");

/// what dasp_signal::rms::Rms::into_parts() returned, used on its own: the detector's window, running
/// sum, window_frames() and current(), then one more source frame through the detector
macro_rules! parts_obs {
    ($out:ident, $src:ident, $det:ident, $flbits:ident) => {
        let (w, sum) = $det.clone().into_parts();
        let mut flat = Vec::new();
        for f in w.iter() {
            for x in f.channels() {
                flat.push($flbits(x));
            }
        }
        $out.push(ob(5, &flat));
        $out.push(ob(3, &sum.channels().map(|x| $flbits(x)).collect::<Vec<_>>()));
        $out.push(ob(4, &[$det.window_frames() as u64]));
        $out.push(ob(2, &$det.current().channels().map(|x| $flbits(x)).collect::<Vec<_>>()));
        let fr = $src.next();
        $out.push(ob(2, &$det.next(fr).channels().map(|x| $flbits(x)).collect::<Vec<_>>()));
    };
}

macro_rules! adriver {
    ($name:ident, $S:ty, $Fl:ty, $C:expr, $samp:ident, $flbits:ident) => {
        fn $name(n: usize, sq: bool, k: usize, fin: bool, cl: i128, vals: &[i128]) -> Vec<String> {
            let frames: Vec<[$S; $C]> = vals
                .chunks($C)
                .map(|ch| {
                    let mut f = [<$S as dasp_sample::Sample>::EQUILIBRIUM; $C];
                    for c in 0..$C {
                        f[c] = $samp(ch[c]);
                    }
                    f
                })
                .collect();
            let cnt = Cell::new(0usize);
            if fin {
                let src = signal::from_iter(frames.iter().cloned().inspect(|_| cnt.set(cnt.get() + 1)));
                let ring = Fixed::from(vec![[<$Fl>::default(); $C]; n].into_boxed_slice());
                let mut r = src.rms(ring);
                let mut out = Vec::new();
                out.push(ob(3, &[r.is_exhausted() as u64]));
                for j in 0..k {
                    if j as i128 == cl {
                        let c = r.clone();
                        r = c;
                    }
                    let o = if sq { r.next_squared() } else { r.next() };
                    out.push(ob(2, &o.channels().map(|x| $flbits(x)).collect::<Vec<_>>()));
                    out.push(ob(3, &[r.is_exhausted() as u64]));
                }
                out.push(ob(4, &[cnt.get() as u64]));
                let (mut src, mut det) = r.into_parts();
                parts_obs!(out, src, det, $flbits);
                out.push(ob(3, &[src.is_exhausted() as u64]));
                out.push(ob(4, &[cnt.get() as u64]));
                return out;
            }
            let src = signal::gen_mut(|| {
                let i = cnt.get();
                cnt.set(i + 1);
                if i < frames.len() { frames[i] } else { [<$S as dasp_sample::Sample>::EQUILIBRIUM; $C] }
            });
            let ring = Fixed::from(vec![[<$Fl>::default(); $C]; n].into_boxed_slice());
            let mut r = src.rms(ring);
            let mut out = Vec::new();
            for j in 0..k {
                if j as i128 == cl {
                    let c = r.clone();
                    r = c;
                }
                let o = if sq { r.next_squared() } else { r.next() };
                out.push(ob(2, &o.channels().map(|x| $flbits(x)).collect::<Vec<_>>()));
            }
            out.push(ob(4, &[cnt.get() as u64]));
            let (mut src, mut det) = r.into_parts();
            parts_obs!(out, src, det, $flbits);
            out.push(ob(4, &[cnt.get() as u64]));
            out
        }
    };
}
macro_rules! adriver0 {
    ($name:ident, $S:ty, $Fl:ty, $samp:ident, $flbits:ident) => {
        fn $name(n: usize, sq: bool, k: usize, fin: bool, cl: i128, vals: &[i128]) -> Vec<String> {
            // the bare sample type as a mono frame
            let frames: Vec<$S> = vals.iter().map(|v| $samp(*v)).collect();
            let cnt = Cell::new(0usize);
            if fin {
                let src = signal::from_iter(frames.iter().cloned().inspect(|_| cnt.set(cnt.get() + 1)));
                let ring = Fixed::from(vec![<$Fl>::default(); n].into_boxed_slice());
                let mut r = src.rms(ring);
                let mut out = Vec::new();
                out.push(ob(3, &[r.is_exhausted() as u64]));
                for j in 0..k {
                    if j as i128 == cl {
                        let c = r.clone();
                        r = c;
                    }
                    let o = if sq { r.next_squared() } else { r.next() };
                    out.push(ob(2, &o.channels().map(|x| $flbits(x)).collect::<Vec<_>>()));
                    out.push(ob(3, &[r.is_exhausted() as u64]));
                }
                out.push(ob(4, &[cnt.get() as u64]));
                let (mut src, mut det) = r.into_parts();
                parts_obs!(out, src, det, $flbits);
                out.push(ob(3, &[src.is_exhausted() as u64]));
                out.push(ob(4, &[cnt.get() as u64]));
                return out;
            }
            let src = signal::gen_mut(|| {
                let i = cnt.get();
                cnt.set(i + 1);
                if i < frames.len() { frames[i] } else { <$S as dasp_sample::Sample>::EQUILIBRIUM }
            });
            let ring = Fixed::from(vec![<$Fl>::default(); n].into_boxed_slice());
            let mut r = src.rms(ring);
            let mut out = Vec::new();
            for j in 0..k {
                if j as i128 == cl {
                    let c = r.clone();
                    r = c;
                }
                let o = if sq { r.next_squared() } else { r.next() };
                out.push(ob(2, &o.channels().map(|x| $flbits(x)).collect::<Vec<_>>()));
            }
            out.push(ob(4, &[cnt.get() as u64]));
            let (mut src, mut det) = r.into_parts();
            parts_obs!(out, src, det, $flbits);
            out.push(ob(4, &[cnt.get() as u64]));
            out
        }
    };
}

adriver0!(a_f32_0, f32, f32, s_f32, bits32);
adriver0!(a_f64_0, f64, f64, s_f64, bits64);
adriver0!(a_i16_0, i16, f32, s_i16, bits32);
adriver0!(a_u8_0, u8, f32, s_u8, bits32);
adriver!(a_f32_1, f32, f32, 1, s_f32, bits32);
adriver!(a_f32_2, f32, f32, 2, s_f32, bits32);
adriver!(a_f32_3, f32, f32, 3, s_f32, bits32);
adriver!(a_f32_4, f32, f32, 4, s_f32, bits32);
adriver!(a_f64_1, f64, f64, 1, s_f64, bits64);
adriver!(a_f64_2, f64, f64, 2, s_f64, bits64);
adriver!(a_f64_3, f64, f64, 3, s_f64, bits64);
adriver!(a_f64_4, f64, f64, 4, s_f64, bits64);
adriver!(a_i16_1, i16, f32, 1, s_i16, bits32);
adriver!(a_i16_2, i16, f32, 2, s_i16, bits32);
adriver!(a_i16_3, i16, f32, 3, s_i16, bits32);
adriver!(a_i16_4, i16, f32, 4, s_i16, bits32);
adriver!(a_u8_1, u8, f32, 1, s_u8, bits32);
adriver!(a_u8_2, u8, f32, 2, s_u8, bits32);
adriver!(a_u8_3, u8, f32, 3, s_u8, bits32);
adriver!(a_u8_4, u8, f32, 4, s_u8, bits32);

fn run_a(line: &str) -> String {
    let parts: Vec<&str> = line.splitn(2, ';').collect();
    let head: Vec<&str> = parts[0].split_whitespace().collect();
    let h: Vec<i128> = head[1..].iter().map(|t| t.parse().unwrap()).collect();
    let (fmt, chans, n, sq, k, fin) = (h[0], h[2] as usize, h[3] as usize, h[4] == 1, h[5] as usize, h[6] == 1);
    let cl = if h.len() > 7 { h[7] } else { -1 };
    assert!(h[1] == build_nostd(), "case is for the other build configuration");
    let vals = nums(parts[1]);
    assert!(vals.len() % chans.max(1) == 0);
    let f = match (fmt, chans) {
        (0, 0) => a_f32_0, (1, 0) => a_f64_0, (2, 0) => a_i16_0, (3, 0) => a_u8_0,
        (0, 1) => a_f32_1, (0, 2) => a_f32_2, (0, 3) => a_f32_3, (0, 4) => a_f32_4,
        (1, 1) => a_f64_1, (1, 2) => a_f64_2, (1, 3) => a_f64_3, (1, 4) => a_f64_4,
        (2, 1) => a_i16_1, (2, 2) => a_i16_2, (2, 3) => a_i16_3, (2, 4) => a_i16_4,
        (3, 1) => a_u8_1, (3, 2) => a_u8_2, (3, 3) => a_u8_3, (3, 4) => a_u8_4,
        _ => panic!("unsupported fmt/chans"),
    };
    match catch(|| f(n, sq, k, fin, cl, &vals)) {
        Ok(v) => v.join(";"),
        Err(c) => ob(8, &[c as u64]),
    }
}

fn main() {
    serve(|line| if line.starts_with('A') { run_a(line) } else if line.starts_with('P') { run_probe() } else { run_r(line) });
}
