//! C16: drives the built-in dasp_graph nodes.  `Input::new` is pub(crate), so the `&[Input]`
//! slice a node sees is built by the real `Processor::process` over a small outer graph:
//! k source nodes (their buffers are written by the harness before each call) all feeding the
//! node under test.  The node under test sits in the graph inside a spy that records the
//! inputs it was handed (they must be the intended ones, in the intended order) and then
//! calls `Node::process(&inputs, &mut output)` of the node / wrapper stack under test.
//!
//! Input line (integers; sections separated by '|'):
//!   wrappers | spec | out | shape | call | call | ...
//!   wrappers: codes applied innermost first: 1 Box<T>, 2 &mut T, 3 BoxedNode::new, 4 BoxedNodeSend::new
//!             (BoxedNode::from(Box) when the node is not Send), 5 Box<dyn FnMut>, 6 Box<dyn Fn>, 7 fn pointer.
//!             none = the concrete node type is called directly.
//!   spec:  1 Sum | 2 SumBuffers | 3 Pass | 4 skind nr {first len data*}*nr  (Delay; skind 0 Vec, 1 Box<[f32]>,
//!          2 &'static mut [f32], 3 [f32; N]) | 5 ch nfr data*  (dyn Signal, from_iter; ch 0 = mono f32 frames)
//!          | 6 gkind k {nb fill*nb}*k nids id* cnb cfill*cnb nwr wr* spec   (GraphNode over a star:
//!          k `Pass` in-nodes -> core; gkind 0 Graph, 1 StableGraph; fill = one f32 per buffer)
//!          | 7 gkind n {nb fill*nb nwr wr* spec}*n ne {a b}*ne nrem rem* nids id* on   (GraphNode over an
//!          ARBITRARY inner graph: n nodes (each: its buffers, then a wrapped node spec, recursively), ne edges
//!          a -> b added in this order, nrem nodes removed afterwards (StableGraph only), input_nodes, output_node)
//!   out:   nbuf then nbuf*64 bit patterns (initial content of the node's own buffers)
//!   shape: number of buffers of each input
//!   call:  `op arg` then the bit patterns of all buffers of all inputs for this call (sum(shape)*64 values).
//!          op: what the graph's owner does to the node's `NodeData::buffers` (a pub Vec<Buffer>) before the
//!          call: 0 nothing, 1 `resize(arg, Buffer::SILENT)`, 2 `mem::take` for this call, put back afterwards.
//! Signals are instrumented: every `Signal::next` of every signal node of the case bumps one counter.
//! Output: per call `9 nbuf`, one observation per buffer (64 bit patterns, NaN canonical), then `7 pulls`
//!         (total Signal::next calls so far); a panic ends the case with `8 code`.
use dasp_graph::node::{Delay, GraphNode, Pass, Sum, SumBuffers};
use dasp_graph::{BoxedNode, BoxedNodeSend, Buffer, Input, Node, NodeData, Processor};
use dasp_ring_buffer::Fixed;
use dasp_signal::Signal;
use dasp_verif_harness::*;
use petgraph::graph::{DiGraph, NodeIndex};
use petgraph::stable_graph::StableDiGraph;
use std::cell::{Cell, RefCell};
use std::marker::PhantomData;
use std::panic::{self, AssertUnwindSafe};

const LEN: usize = Buffer::LEN;

fn f(b: i64) -> f32 {
    f32::from_bits(b as u32)
}

fn bits(x: f32) -> i64 {
    if x.is_nan() {
        0x7fc00000
    } else {
        x.to_bits() as i64
    }
}

fn buffer(vals: &[i64]) -> Buffer {
    let mut a = [0.0f32; LEN];
    for (d, s) in a.iter_mut().zip(vals) {
        *d = f(*s);
    }
    Buffer::from(a)
}

fn filled(v: i64) -> Buffer {
    Buffer::from([f(v); LEN])
}

struct Cur<'a> {
    v: &'a [i64],
    p: usize,
}

impl<'a> Cur<'a> {
    fn next(&mut self) -> i64 {
        let x = self.v[self.p];
        self.p += 1;
        x
    }
    fn take(&mut self, n: usize) -> &'a [i64] {
        let s = &self.v[self.p..self.p + n];
        self.p += n;
        s
    }
}

// ---- wrappers -------------------------------------------------------------------------------

enum Built {
    S(Box<dyn Node + Send>),
    N(Box<dyn Node>),
}

impl Built {
    fn into_dyn(self) -> Box<dyn Node> {
        match self {
            Built::S(n) => n as Box<dyn Node>,
            Built::N(n) => n,
        }
    }
}

thread_local! {
    static SLOTS: [RefCell<Option<Box<dyn Node>>>; 4] = Default::default();
    static NEXT_SLOT: Cell<usize> = Cell::new(0);
    static SEEN: RefCell<Vec<Vec<Vec<i64>>>> = RefCell::new(Vec::new());
    static PULLS: Cell<i64> = Cell::new(0);
}

/// counts the frames pulled from the wrapped signal
struct Counted<S>(S);

impl<S: Signal> Signal for Counted<S> {
    type Frame = S::Frame;
    fn next(&mut self) -> S::Frame {
        PULLS.with(|p| p.set(p.get() + 1));
        self.0.next()
    }
}

fn fwd<const K: usize>(i: &[Input], o: &mut [Buffer]) {
    SLOTS.with(|s| s[K].borrow_mut().as_mut().expect("slot").process(i, o))
}

fn wrap(b: Built, w: i64) -> Built {
    match (w, b) {
        (1, Built::S(n)) => Built::S(Box::new(n)),
        (1, Built::N(n)) => Built::N(Box::new(n)),
        (2, Built::S(n)) => {
            let r: &'static mut (dyn Node + Send) = Box::leak(n);
            Built::S(Box::new(r))
        }
        (2, Built::N(n)) => {
            let r: &'static mut dyn Node = Box::leak(n);
            Built::N(Box::new(r))
        }
        (3, b) => match b {
            Built::S(n) => Built::N(Box::new(BoxedNode::new(n))),
            Built::N(n) => Built::N(Box::new(BoxedNode::new(n))),
        },
        (4, Built::S(n)) => Built::S(Box::new(BoxedNodeSend::new(n))),
        (4, Built::N(n)) => Built::N(Box::new(BoxedNode::from(Box::new(n)))),
        (5, b) => {
            let mut n = b.into_dyn();
            let c: Box<dyn FnMut(&[Input], &mut [Buffer])> =
                Box::new(move |i: &[Input], o: &mut [Buffer]| n.process(i, o));
            Built::N(Box::new(c))
        }
        (6, b) => {
            let n = RefCell::new(b.into_dyn());
            let c: Box<dyn Fn(&[Input], &mut [Buffer])> =
                Box::new(move |i: &[Input], o: &mut [Buffer]| n.borrow_mut().process(i, o));
            Built::N(Box::new(c))
        }
        (7, b) => {
            let k = NEXT_SLOT.with(|c| {
                let k = c.get();
                c.set(k + 1);
                k
            });
            if k >= 4 {
                return wrap(b, 5);
            }
            SLOTS.with(|s| *s[k].borrow_mut() = Some(b.into_dyn()));
            let p: fn(&[Input], &mut [Buffer]) = match k {
                0 => fwd::<0>,
                1 => fwd::<1>,
                2 => fwd::<2>,
                _ => fwd::<3>,
            };
            Built::N(Box::new(p))
        }
        (w, _) => panic!("unknown wrapper {}", w),
    }
}

// ---- base nodes -----------------------------------------------------------------------------

type InnerG = DiGraph<NodeData<BoxedNode>, ()>;
type InnerSG = StableDiGraph<NodeData<BoxedNode>, ()>;

/// concrete node types, called without any wrapper when the wrapper list is empty
enum Base {
    Sum(Sum),
    SumB(SumBuffers),
    Pass(Pass),
    DVec(Delay<Vec<f32>>),
    DBox(Delay<Box<[f32]>>),
    DRef(Delay<&'static mut [f32]>),
    DA1(Delay<[f32; 1]>),
    DA2(Delay<[f32; 2]>),
    DA3(Delay<[f32; 3]>),
    DA5(Delay<[f32; 5]>),
    DA64(Delay<[f32; 64]>),
    DA100(Delay<[f32; 100]>),
    Sig(Box<dyn Node>), // Box<Box<dyn Signal<Frame = F>>>: the unsized `dyn Signal` can only live behind a pointer
    G(GraphNode<InnerG, BoxedNode>),
    SG(GraphNode<InnerSG, BoxedNode>),
}

macro_rules! each_base {
    ($s:expr, $n:ident => $e:expr) => {
        match $s {
            Base::Sum($n) => $e,
            Base::SumB($n) => $e,
            Base::Pass($n) => $e,
            Base::DVec($n) => $e,
            Base::DBox($n) => $e,
            Base::DRef($n) => $e,
            Base::DA1($n) => $e,
            Base::DA2($n) => $e,
            Base::DA3($n) => $e,
            Base::DA5($n) => $e,
            Base::DA64($n) => $e,
            Base::DA100($n) => $e,
            Base::Sig($n) => $e,
            Base::G($n) => $e,
            Base::SG($n) => $e,
        }
    };
}

impl Base {
    fn process(&mut self, i: &[Input], o: &mut [Buffer]) {
        each_base!(self, n => Node::process(n, i, o))
    }
    fn built(self) -> Built {
        match self {
            Base::Sum(n) => Built::S(Box::new(n)),
            Base::SumB(n) => Built::S(Box::new(n)),
            Base::Pass(n) => Built::S(Box::new(n)),
            Base::DVec(n) => Built::S(Box::new(n)),
            Base::DBox(n) => Built::S(Box::new(n)),
            Base::DRef(n) => Built::S(Box::new(n)),
            Base::DA1(n) => Built::S(Box::new(n)),
            Base::DA2(n) => Built::S(Box::new(n)),
            Base::DA3(n) => Built::S(Box::new(n)),
            Base::DA5(n) => Built::S(Box::new(n)),
            Base::DA64(n) => Built::S(Box::new(n)),
            Base::DA100(n) => Built::S(Box::new(n)),
            Base::Sig(n) => Built::N(n),
            Base::G(n) => Built::N(Box::new(n)),
            Base::SG(n) => Built::N(Box::new(n)),
        }
    }
}

fn arr<const N: usize>(d: &[f32]) -> [f32; N] {
    let mut a = [0.0f32; N];
    a.copy_from_slice(d);
    a
}

fn sig_node<const N: usize>(c: &mut Cur, nfr: usize) -> Box<dyn Node> {
    let frames: Vec<[f32; N]> = (0..nfr)
        .map(|_| {
            let mut a = [0.0f32; N];
            for x in a.iter_mut() {
                *x = f(c.next());
            }
            a
        })
        .collect();
    let s: Box<dyn Signal<Frame = [f32; N]>> = Box::new(Counted(dasp_signal::from_iter(frames)));
    Box::new(s)
}

macro_rules! star_graph {
    ($G:ty, $c:expr) => {{
        let c: &mut Cur = $c;
        let k = c.next() as usize;
        let mut g = <$G>::with_capacity(k + 1, k);
        let mut ins = Vec::new();
        for _ in 0..k {
            let nb = c.next() as usize;
            let bufs: Vec<Buffer> = (0..nb).map(|_| filled(c.next())).collect();
            ins.push(g.add_node(NodeData::new(BoxedNode::new(Pass), bufs)));
        }
        let nids = c.next() as usize;
        let ids: Vec<NodeIndex> = (0..nids).map(|_| NodeIndex::new(c.next() as usize)).collect();
        let cnb = c.next() as usize;
        let cbufs: Vec<Buffer> = (0..cnb).map(|_| filled(c.next())).collect();
        let core = BoxedNode(node_under_test(c).into_dyn());
        let core_id = g.add_node(NodeData::new(core, cbufs));
        // Incoming neighbours are yielded newest edge first: add in reverse so that the
        // core sees in-node 0 first
        for &n in ins.iter().rev() {
            g.add_edge(n, core_id, ());
        }
        GraphNode {
            processor: Processor::with_capacity(k + 1),
            graph: g,
            input_nodes: ids,
            output_node: core_id,
            node_type: PhantomData,
        }
    }};
}

macro_rules! general_graph {
    ($G:ty, $stable:tt, $c:expr) => {{
        let c: &mut Cur = $c;
        let n = c.next() as usize;
        let mut g = <$G>::with_capacity(n, n);
        for _ in 0..n {
            let nb = c.next() as usize;
            let bufs: Vec<Buffer> = (0..nb).map(|_| filled(c.next())).collect();
            let node = BoxedNode(node_under_test(c).into_dyn());
            g.add_node(NodeData::new(node, bufs));
        }
        let ne = c.next() as usize;
        for _ in 0..ne {
            let a = c.next() as usize;
            let b = c.next() as usize;
            g.add_edge(NodeIndex::new(a), NodeIndex::new(b), ());
        }
        let nrem = c.next() as usize;
        for _ in 0..nrem {
            let a = c.next() as usize;
            general_graph!(@remove $stable, g, a);
        }
        let nids = c.next() as usize;
        let ids: Vec<NodeIndex> = (0..nids).map(|_| NodeIndex::new(c.next() as usize)).collect();
        let on = NodeIndex::new(c.next() as usize);
        GraphNode {
            processor: Processor::with_capacity(n),
            graph: g,
            input_nodes: ids,
            output_node: on,
            node_type: PhantomData,
        }
    }};
    (@remove true, $g:ident, $a:expr) => {
        $g.remove_node(NodeIndex::new($a));
    };
    (@remove false, $g:ident, $a:expr) => {{
        let _ = $a;
        panic!("node removal is only supported on StableGraph")
    }};
}

fn base(c: &mut Cur) -> Base {
    match c.next() {
        1 => Base::Sum(Sum),
        2 => Base::SumB(SumBuffers),
        3 => Base::Pass(Pass),
        4 => {
            let skind = c.next();
            let nr = c.next() as usize;
            let raw: Vec<(usize, Vec<f32>)> = (0..nr)
                .map(|_| {
                    let first = c.next() as usize;
                    let len = c.next() as usize;
                    (first, c.take(len).iter().map(|&b| f(b)).collect())
                })
                .collect();
            let n0 = raw.get(0).map(|r| r.1.len()).unwrap_or(0);
            let same = raw.iter().all(|r| r.1.len() == n0);
            macro_rules! arrs {
                ($V:ident, $N:literal) => {
                    Base::$V(Delay(raw.iter().map(|(fi, d)| Fixed::from_raw_parts(*fi, arr::<$N>(d))).collect()))
                };
            }
            match (skind, same, n0) {
                (1, _, _) => Base::DBox(Delay(
                    raw.into_iter().map(|(fi, d)| Fixed::from_raw_parts(fi, d.into_boxed_slice())).collect(),
                )),
                (2, _, _) => Base::DRef(Delay(
                    raw.into_iter()
                        .map(|(fi, d)| Fixed::from_raw_parts(fi, &mut Box::leak(d.into_boxed_slice())[..]))
                        .collect(),
                )),
                (3, true, 1) => arrs!(DA1, 1),
                (3, true, 2) => arrs!(DA2, 2),
                (3, true, 3) => arrs!(DA3, 3),
                (3, true, 5) => arrs!(DA5, 5),
                (3, true, 64) => arrs!(DA64, 64),
                (3, true, 100) => arrs!(DA100, 100),
                _ => Base::DVec(Delay(raw.into_iter().map(|(fi, d)| Fixed::from_raw_parts(fi, d)).collect())),
            }
        }
        5 => {
            let ch = c.next();
            let nfr = c.next() as usize;
            Base::Sig(match ch {
                0 => {
                    let frames: Vec<f32> = (0..nfr).map(|_| f(c.next())).collect();
                    let s: Box<dyn Signal<Frame = f32>> = Box::new(Counted(dasp_signal::from_iter(frames)));
                    Box::new(s)
                }
                1 => sig_node::<1>(c, nfr),
                2 => sig_node::<2>(c, nfr),
                3 => sig_node::<3>(c, nfr),
                4 => sig_node::<4>(c, nfr),
                6 => sig_node::<6>(c, nfr),
                n => panic!("unsupported channel count {}", n),
            })
        }
        6 => match c.next() {
            0 => Base::G(star_graph!(InnerG, c)),
            _ => Base::SG(star_graph!(InnerSG, c)),
        },
        7 => match c.next() {
            0 => Base::G(general_graph!(InnerG, false, c)),
            _ => Base::SG(general_graph!(InnerSG, true, c)),
        },
        k => panic!("unknown node kind {}", k),
    }
}

/// `nwr wr* spec` -> the wrapped node
fn node_under_test(c: &mut Cur) -> Built {
    let nwr = c.next() as usize;
    let ws: Vec<i64> = (0..nwr).map(|_| c.next()).collect();
    let mut b = base(c).built();
    for w in ws {
        b = wrap(b, w);
    }
    b
}

// ---- the outer graph ------------------------------------------------------------------------

enum HNode {
    Src,
    Plain(Base),
    Dyn(Box<dyn Node>),
}

impl Node for HNode {
    fn process(&mut self, inputs: &[Input], output: &mut [Buffer]) {
        if let HNode::Src = self {
            return;
        }
        let seen: Vec<Vec<i64>> = inputs
            .iter()
            .map(|i| i.buffers().iter().flat_map(|b| b.iter().map(|x| x.to_bits() as i64)).collect())
            .collect();
        SEEN.with(|s| s.borrow_mut().push(seen));
        match self {
            HNode::Src => {}
            HNode::Plain(b) => b.process(inputs, output),
            HNode::Dyn(n) => n.process(inputs, output),
        }
    }
}

fn catch_here<T>(g: impl FnOnce() -> T) -> Result<T, i64> {
    panic::catch_unwind(AssertUnwindSafe(g)).map_err(|p| {
        let msg = p
            .downcast_ref::<&str>()
            .map(|s| s.to_string())
            .or_else(|| p.downcast_ref::<String>().cloned())
            .unwrap_or_default();
        // Option::expect in GraphNode::process: the model's PExpect
        if msg.contains("no node for graph node") || msg.contains("no node exists for the given index") {
            4
        } else {
            panic_code(&p)
        }
    })
}

fn run(line: &str) -> String {
    let secs: Vec<Vec<i64>> = line.split('|').map(ints).collect();
    assert!(secs.len() >= 4, "case needs wrappers | spec | out | shape");
    NEXT_SLOT.with(|c| c.set(0));
    SEEN.with(|s| s.borrow_mut().clear());
    PULLS.with(|p| p.set(0));
    // node under test
    let mut spec: Vec<i64> = vec![secs[0].len() as i64];
    spec.extend_from_slice(&secs[0]);
    spec.extend_from_slice(&secs[1]);
    let mut cur = Cur { v: &spec, p: 0 };
    let test = if secs[0].is_empty() {
        cur.next();
        HNode::Plain(base(&mut cur))
    } else {
        HNode::Dyn(node_under_test(&mut cur).into_dyn())
    };
    assert_eq!(cur.p, spec.len(), "trailing tokens in node spec");
    // outer graph
    let nout = secs[2][0] as usize;
    let out0: Vec<Buffer> = (0..nout).map(|b| buffer(&secs[2][1 + b * LEN..1 + (b + 1) * LEN])).collect();
    let shape: Vec<usize> = secs[3].iter().map(|&x| x as usize).collect();
    let mut g: DiGraph<NodeData<HNode>, ()> = DiGraph::with_capacity(shape.len() + 1, shape.len());
    let srcs: Vec<NodeIndex> =
        shape.iter().map(|&nb| g.add_node(NodeData::new(HNode::Src, vec![Buffer::SILENT; nb]))).collect();
    let t = g.add_node(NodeData::new(test, out0));
    for &s in srcs.iter().rev() {
        g.add_edge(s, t, ());
    }
    let mut p = Processor::with_capacity(shape.len() + 1);
    let mut res: Vec<String> = Vec::new();
    for sec in &secs[4..] {
        let (op, arg, call) = (sec[0], sec[1] as usize, &sec[2..]);
        let mut saved: Option<Vec<Buffer>> = None;
        match op {
            1 => g[t].buffers.resize(arg, Buffer::SILENT),
            2 => saved = Some(std::mem::take(&mut g[t].buffers)),
            _ => {}
        }
        let mut off = 0;
        let mut expect: Vec<Vec<i64>> = Vec::new();
        for (j, &nb) in shape.iter().enumerate() {
            let vals = &call[off..off + nb * LEN];
            for b in 0..nb {
                g[srcs[j]].buffers[b] = buffer(&vals[b * LEN..(b + 1) * LEN]);
            }
            expect.push(vals.to_vec());
            off += nb * LEN;
        }
        assert_eq!(off, call.len(), "call data does not match the shape");
        SEEN.with(|s| s.borrow_mut().clear());
        match catch_here(|| p.process(&mut g, t)) {
            Err(code) => {
                res.push(obs(8, &[code]));
                break;
            }
            Ok(()) => {
                // the spy must have been called exactly once, with the intended inputs in order
                let seen = SEEN.with(|s| s.borrow().clone());
                assert!(seen.len() == 1 && seen[0] == expect, "the node did not see the intended inputs");
                let bufs = &g[t].buffers;
                res.push(obs(9, &[bufs.len() as i64]));
                for b in bufs.iter() {
                    res.push(join(&b.iter().map(|&x| bits(x)).collect::<Vec<_>>()));
                }
                res.push(obs(7, &[PULLS.with(|p| p.get())]));
            }
        }
        if let Some(v) = saved {
            g[t].buffers = v;
        }
    }
    // release fn-pointer slots
    SLOTS.with(|s| {
        for c in s.iter() {
            *c.borrow_mut() = None;
        }
    });
    res.join(";")
}

fn main() {
    serve(run);
}
