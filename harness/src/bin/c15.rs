//! C15: drives the custom-width sample types of dasp_sample::types through their public API
//! (new, From<Rep>, From<narrower>, inner(), + - *, unary -, comparisons, MIN/MAX/EQUILIBRIUM).
//! Input line:  `<ty> ; op , op , ...`     ty = 0..7 = I11 I20 I24 I48 U11 U20 U24 U48
//!   ops: profile | consts | srcs | new v | from v | widen k v | arith o a b | neg a | cmp a b
//!        | grid o n a1..an b1..bm   (every pair (a_i, b_j), a outer: a hash of the `arith` observations;
//!          with the command-line argument `full`, the observations themselves as flat (tag, value) pairs)
//!        (o: 0 add, 1 sub, 2 mul)
//!   or   `E <ty> <o> <a_lo> <a_hi>` : every pair (a, b), a in [a_lo, a_hi], b over the whole
//!        range of the type, compared inside the harness with an independent i128 oracle.
//! Output: observations joined by ';', each `tag payload...`
//!   0 none/invalid operand, 1 Some v, 2 value, 3 profile, 4 comparisons, 5 consts, 6 sources,
//!   10 grid hash + count, 11 grid observations, 7 no Neg impl, 8 panic code (1 = primitive overflow check, 4 = expect, 9 other), 9 exhaustive summary
use dasp_sample::types::{i11, i20, i24, i48, u11, u20, u24, u48};
use dasp_sample::types::{I11, I20, I24, I48, U11, U20, U24, U48};
use dasp_verif_harness::*;
use std::cmp::Ordering;
use std::panic::{self, AssertUnwindSafe};

/// 1 = rustc's overflow check on a primitive operator, 4 = the `.expect(..)` of the checked
/// constructor, 9 = anything else.
fn catch15<T>(f: impl FnOnce() -> T) -> Result<T, i64> {
    panic::catch_unwind(AssertUnwindSafe(f)).map_err(|p| {
        let msg: String = if let Some(s) = p.downcast_ref::<&str>() {
            s.to_string()
        } else if let Some(s) = p.downcast_ref::<String>() {
            s.clone()
        } else {
            String::new()
        };
        if msg.starts_with("attempt to ") && msg.ends_with("with overflow") {
            1
        } else if msg == "arithmetic operation overflowed" {
            4
        } else {
            9
        }
    })
}

fn res(r: Result<i64, i64>) -> String {
    match r {
        Ok(v) => obs(2, &[v]),
        Err(c) => obs(8, &[c]),
    }
}

fn ord(o: Ordering) -> i64 {
    match o {
        Ordering::Less => 0,
        Ordering::Equal => 1,
        Ordering::Greater => 2,
    }
}

fn overflow_checks_on() -> bool {
    let x: i8 = std::hint::black_box(127);
    catch15(move || std::hint::black_box(x + std::hint::black_box(1))).is_err()
}

/// order-sensitive hash, the same function as `hstep` in Sample/TypesRun.v
fn hstep(h: i128, x: i64) -> i128 {
    (h * 1000003 + x as i128).rem_euclid(2305843009213693951)
}

type Widen = fn(i64) -> Option<i64>;

/// From<primitive>: `None` when v is not a value of the primitive type
macro_rules! wp {
    ($T:ident, $P:ty) => {
        (|v: i64| -> Option<i64> {
            if (v as $P) as i64 != v {
                return None;
            }
            Some($T::from(v as $P).inner() as i64)
        }) as Widen
    };
}

/// From<narrower custom type>: `None` when v is not an in-range value of the source type
macro_rules! wc {
    ($T:ident, $U:ident, $URep:ty) => {
        (|v: i64| -> Option<i64> {
            if (v as $URep) as i64 != v {
                return None;
            }
            $U::new(v as $URep).map(|u| $T::from(u).inner() as i64)
        }) as Widen
    };
}

/// independent oracle of the property (not of the model): exact result in i128, then either
/// "in range or panic" (debug assertions) or "the representative of the class mod TOTAL in [MIN, MAX]"
fn oracle(dbg: bool, min: i64, max: i64, o: i64, a: i64, b: i64) -> Option<i64> {
    let (a, b, min, max) = (a as i128, b as i128, min as i128, max as i128);
    let exact = match o {
        0 => a + b,
        1 => a - b,
        _ => a * b,
    };
    if dbg {
        if exact >= min && exact <= max {
            Some(exact as i64)
        } else {
            None
        }
    } else {
        let total = max - min + 1;
        Some(((exact - min).rem_euclid(total) + min) as i64)
    }
}

macro_rules! run_ty {
    ($fname:ident, $m:ident, $T:ident, $Rep:ty, signed: $sg:expr, bits: $bits:expr,
     neg: $negf:expr, widen: [$($w:expr),*], srcs: [$($s:expr),*]) => {
        fn $fname(ops: &[Vec<&str>], full: bool) -> Vec<String> {
            let rep = |v: i64| -> $Rep {
                assert!((v as $Rep) as i64 == v, "harness: value is not a Rep value");
                v as $Rep
            };
            let widen: Vec<Widen> = vec![$($w),*];
            let srcs: Vec<[i64; 3]> = vec![$($s),*];
            let negf: Option<fn($T) -> $T> = $negf;
            let mut out = Vec::new();
            for op in ops {
                let a: Vec<i64> = op[1..].iter().map(|t| t.parse().expect("int token")).collect();
                let s = match op[0] {
                    "profile" => obs(3, &[cfg!(debug_assertions) as i64, overflow_checks_on() as i64]),
                    "consts" => obs(5, &[$m::MIN.inner() as i64, $m::MAX.inner() as i64,
                                         $m::EQUILIBRIUM.inner() as i64, $sg as i64, $bits]),
                    "srcs" => {
                        let mut v = vec![negf.is_some() as i64];
                        for s in &srcs {
                            v.extend_from_slice(s);
                        }
                        obs(6, &v)
                    }
                    "new" => {
                        let v = rep(a[0]);
                        match catch15(|| $T::new(v).map(|x| x.inner() as i64)) {
                            Ok(None) => obs(0, &[]),
                            Ok(Some(x)) => obs(1, &[x]),
                            Err(c) => obs(8, &[c]),
                        }
                    }
                    "from" => {
                        let v = rep(a[0]);
                        res(catch15(|| $T::from(v).inner() as i64))
                    }
                    "widen" => match widen[a[0] as usize](a[1]) {
                        None => obs(0, &[]),
                        Some(w) => obs(2, &[w]),
                    },
                    "arith" => match ($T::new(rep(a[1])), $T::new(rep(a[2]))) {
                        (Some(x), Some(y)) => res(catch15(|| match a[0] {
                            0 => (x + y).inner() as i64,
                            1 => (x - y).inner() as i64,
                            2 => (x * y).inner() as i64,
                            _ => panic!("harness: unknown operator"),
                        })),
                        _ => obs(0, &[]),
                    },
                    "grid" => {
                        let n = a[1] as usize;
                        let (xs, ys) = (&a[2..2 + n], &a[2 + n..]);
                        let mut h: i128 = 7;
                        let mut flat = Vec::new();
                        for &x in xs {
                            for &y in ys {
                                let (t, v) = match ($T::new(rep(x)), $T::new(rep(y))) {
                                    (Some(p), Some(q)) => match catch15(|| match a[0] {
                                        0 => (p + q).inner() as i64,
                                        1 => (p - q).inner() as i64,
                                        2 => (p * q).inner() as i64,
                                        _ => panic!("harness: unknown operator"),
                                    }) {
                                        Ok(w) => (2, w),
                                        Err(c) => (8, c),
                                    },
                                    _ => (0, 0),
                                };
                                h = hstep(hstep(h, t), v);
                                flat.push(t);
                                flat.push(v);
                            }
                        }
                        if full {
                            obs(11, &flat)
                        } else {
                            obs(10, &[h as i64, (xs.len() * ys.len()) as i64])
                        }
                    }
                    "neg" => match negf {
                        None => obs(7, &[]),
                        Some(f) => match $T::new(rep(a[0])) {
                            Some(x) => res(catch15(|| f(x).inner() as i64)),
                            None => obs(0, &[]),
                        },
                    },
                    "cmp" => match ($T::new(rep(a[0])), $T::new(rep(a[1]))) {
                        (Some(x), Some(y)) => obs(4, &[
                            (x == y) as i64, (x != y) as i64, (x < y) as i64, (x <= y) as i64,
                            (x > y) as i64, (x >= y) as i64, ord(x.cmp(&y)),
                            x.partial_cmp(&y).map(ord).unwrap_or(-1),
                            x.max(y).inner() as i64, x.min(y).inner() as i64,
                        ]),
                        _ => obs(0, &[]),
                    },
                    other => panic!("harness: unknown op {}", other),
                };
                out.push(s);
            }
            out
        }
    };
}

macro_rules! exhaustive_ty {
    ($fname:ident, $m:ident, $T:ident, $Rep:ty) => {
        /// all (a, b) with a in [alo, ahi], b in [MIN, MAX]: (evaluated, mismatches, first a, first b, got(or -1 panic / -2 none), checksum)
        fn $fname(o: i64, alo: i64, ahi: i64) -> String {
            let dbg = cfg!(debug_assertions);
            let (min, max) = ($m::MIN.inner() as i64, $m::MAX.inner() as i64);
            let (mut n, mut bad, mut fa, mut fb, mut fgot, mut sum) = (0i64, 0i64, 0i64, 0i64, -2i64, 0i64);
            for a in alo..=ahi {
                let x = match $T::new(a as $Rep) {
                    Some(x) => x,
                    None => continue,
                };
                for b in min..=max {
                    let y = $T::new(b as $Rep).unwrap();
                    let got = catch15(|| match o {
                        0 => (x + y).inner() as i64,
                        1 => (x - y).inner() as i64,
                        _ => (x * y).inner() as i64,
                    })
                    .ok();
                    let want = oracle(dbg, min, max, o, a, b);
                    n += 1;
                    sum = sum.wrapping_mul(31).wrapping_add(got.unwrap_or(-7777));
                    if got != want {
                        if bad == 0 {
                            fa = a;
                            fb = b;
                            fgot = got.unwrap_or(-1);
                        }
                        bad += 1;
                    }
                }
            }
            obs(9, &[n, bad, fa, fb, fgot, sum])
        }
    };
}

run_ty!(run_i11, i11, I11, i16, signed: true, bits: 11, neg: Some(|x: I11| -x),
        widen: [wp!(I11, i8), wp!(I11, u8)],
        srcs: [[0, 1, 8], [0, 0, 8]]);
run_ty!(run_i20, i20, I20, i32, signed: true, bits: 20, neg: None,
        widen: [wp!(I20, i8), wc!(I20, I11, i16), wp!(I20, i16), wp!(I20, u8), wc!(I20, U11, i16), wp!(I20, u16)],
        srcs: [[0, 1, 8], [1, 1, 11], [0, 1, 16], [0, 0, 8], [1, 0, 11], [0, 0, 16]]);
run_ty!(run_i24, i24, I24, i32, signed: true, bits: 24, neg: Some(|x: I24| -x),
        widen: [wp!(I24, i8), wp!(I24, i16), wc!(I24, I20, i32), wp!(I24, u8), wp!(I24, u16), wc!(I24, U20, i32)],
        srcs: [[0, 1, 8], [0, 1, 16], [1, 1, 20], [0, 0, 8], [0, 0, 16], [1, 0, 20]]);
run_ty!(run_i48, i48, I48, i64, signed: true, bits: 48, neg: Some(|x: I48| -x),
        widen: [wp!(I48, i8), wp!(I48, i16), wc!(I48, I20, i32), wc!(I48, I24, i32), wp!(I48, i32),
                wp!(I48, u8), wp!(I48, u16), wc!(I48, U20, i32), wc!(I48, U24, i32), wp!(I48, u32)],
        srcs: [[0, 1, 8], [0, 1, 16], [1, 1, 20], [1, 1, 24], [0, 1, 32],
               [0, 0, 8], [0, 0, 16], [1, 0, 20], [1, 0, 24], [0, 0, 32]]);
run_ty!(run_u11, u11, U11, i16, signed: false, bits: 11, neg: Some(|x: U11| -x),
        widen: [wp!(U11, u8)],
        srcs: [[0, 0, 8]]);
run_ty!(run_u20, u20, U20, i32, signed: false, bits: 20, neg: None,
        widen: [wp!(U20, u8), wp!(U20, u16)],
        srcs: [[0, 0, 8], [0, 0, 16]]);
run_ty!(run_u24, u24, U24, i32, signed: false, bits: 24, neg: None,
        widen: [wp!(U24, u8), wp!(U24, u16), wc!(U24, U20, i32)],
        srcs: [[0, 0, 8], [0, 0, 16], [1, 0, 20]]);
run_ty!(run_u48, u48, U48, i64, signed: false, bits: 48, neg: None,
        widen: [wp!(U48, u8), wp!(U48, u16), wc!(U48, U20, i32), wc!(U48, U24, i32), wp!(U48, u32)],
        srcs: [[0, 0, 8], [0, 0, 16], [1, 0, 20], [1, 0, 24], [0, 0, 32]]);

exhaustive_ty!(exh_i11, i11, I11, i16);
exhaustive_ty!(exh_u11, u11, U11, i16);

fn main() {
    let full = std::env::args().any(|a| a == "full");
    serve(|line| {
        let line = line.trim();
        if let Some(rest) = line.strip_prefix("E ") {
            let a = ints(rest);
            return match a[0] {
                0 => exh_i11(a[1], a[2], a[3]),
                4 => exh_u11(a[1], a[2], a[3]),
                _ => panic!("harness: exhaustive mode only for the 11-bit types"),
            };
        }
        let (ty, ops) = line.split_once(';').expect("harness: `ty ; ops`");
        let ops: Vec<Vec<&str>> = ops
            .split(',')
            .map(|o| o.split_whitespace().collect::<Vec<_>>())
            .filter(|o| !o.is_empty())
            .collect();
        let out = match ty.trim().parse::<i64>().expect("harness: type index") {
            0 => run_i11(&ops, full),
            1 => run_i20(&ops, full),
            2 => run_i24(&ops, full),
            3 => run_i48(&ops, full),
            4 => run_u11(&ops, full),
            5 => run_u20(&ops, full),
            6 => run_u24(&ops, full),
            7 => run_u48(&ops, full),
            _ => panic!("harness: unknown type index"),
        };
        out.join(";")
    });
}
