//! Float base: rustc's f32/f64 operations on raw bit patterns, for validating coq/theories/Base/Float.v.
//! line: `<opcode> <32|64> <a> <b>`; NaN results are canonicalised to the quiet NaN.
use dasp_verif_harness::*;

fn c32(x: f32) -> i64 { if x.is_nan() { 0x7fc0_0000 } else { x.to_bits() as i64 } }
fn c64(x: f64) -> i64 { if x.is_nan() { 0x7ff8_0000_0000_0000u64 as i64 } else { x.to_bits() as i64 } }

fn main() {
    serve(|line| {
        let t: Vec<i128> = line.split_whitespace().map(|s| s.parse::<i128>().unwrap()).collect();
        let (op, fmt, a, b) = (t[0], t[1], t[2], t[3]);
        let v: Vec<i128> = if fmt == 32 {
            let x = f32::from_bits(a as u32);
            let y = f32::from_bits(b as u32);
            match op {
                0 => vec![c32(x + y) as i128], 1 => vec![c32(x - y) as i128], 2 => vec![c32(x * y) as i128],
                3 => vec![c32(x / y) as i128], 4 => vec![c32(x % y) as i128],
                5 => vec![(x < y) as i128, (x <= y) as i128, (x == y) as i128],
                6 => vec![c32(x.sqrt()) as i128, c32(x.floor()) as i128, c32(x.trunc()) as i128, c32(-x) as i128, c32(x.abs()) as i128],
                7 => vec![match b { 0 => x as i8 as i128, 1 => x as i16 as i128, 2 => x as i32 as i128, 3 => x as i64 as i128,
                                    4 => x as u8 as i128, 5 => x as u16 as i128, 6 => x as u32 as i128, _ => x as u64 as i128 }],
                8 => vec![(c64(x as f64) as u64) as i128],
                9 => vec![c32(if a < 0 || a <= i64::MAX as i128 { (a as i64) as f32 } else { (a as u64) as f32 }) as i128],
                _ => vec![],
            }
        } else {
            let x = f64::from_bits(a as u64);
            let y = f64::from_bits(b as u64);
            match op {
                0 => vec![(c64(x + y) as u64) as i128], 1 => vec![(c64(x - y) as u64) as i128], 2 => vec![(c64(x * y) as u64) as i128],
                3 => vec![(c64(x / y) as u64) as i128], 4 => vec![(c64(x % y) as u64) as i128],
                5 => vec![(x < y) as i128, (x <= y) as i128, (x == y) as i128],
                6 => vec![(c64(x.sqrt()) as u64) as i128, (c64(x.floor()) as u64) as i128, (c64(x.trunc()) as u64) as i128, (c64(-x) as u64) as i128, (c64(x.abs()) as u64) as i128],
                7 => vec![match b { 0 => x as i8 as i128, 1 => x as i16 as i128, 2 => x as i32 as i128, 3 => x as i64 as i128,
                                    4 => x as u8 as i128, 5 => x as u16 as i128, 6 => x as u32 as i128, _ => x as u64 as i128 }],
                8 => vec![c32(x as f32) as i128],
                9 => vec![(c64(if a <= i64::MAX as i128 { (a as i64) as f64 } else { (a as u64) as f64 }) as u64) as i128],
                _ => vec![],
            }
        };
        v.iter().map(|x| x.to_string()).collect::<Vec<_>>().join(" ")
    });
}
