//! C07: counts heap traffic (alloc / realloc / dealloc) of the allocation-free API surface.
//! Input line: `list`  -> scenario names, space separated
//!             `<scenario> <K> <seed>` -> `<allocs> <reallocs> <deallocs> <extra...>` measured over K
//!             further calls AFTER construction and one warm-up call.
//!             `caps <G|S> <cap0> ; op , op , ...` -> capacity trace of ONE `Processor::with_capacity(cap0)`
//!             over a graph of stock `Pass` nodes built and processed by the script (G = petgraph::Graph,
//!             S = StableGraph): `N` add a node, `E a b` add an edge, `R a` remove node a (S only),
//!             `P o` Processor::process(graph, o).  Output: per `P`, `;`-separated,
//!             `<stack capacity> <inputs capacity> <allocs + reallocs during the call> <deallocs during the call>`
//!             (capacities through `Processor::verif_capacities()`, heap traffic from the counting allocator).
use dasp_envelope as envelope;
use dasp_frame::Frame;
use dasp_graph::{node, Buffer, BoxedNode, BoxedNodeSend, NodeData, Processor};
use dasp_interpolate::{floor::Floor, linear::Linear, sinc::Sinc};
use dasp_ring_buffer as ring_buffer;
use dasp_rms::Rms;
use dasp_sample::{Sample, I24, U24};
use dasp_signal::{self as signal, Signal};
use dasp_signal::envelope::SignalEnvelope;
use dasp_signal::rms::SignalRms;
use dasp_signal::bus::SignalBus;
use dasp_signal::window::Windower;
use dasp_slice as slice;
use dasp_verif_harness::*;
use std::alloc::{GlobalAlloc, Layout, System};
use std::hint::black_box;
use std::sync::atomic::{AtomicUsize, Ordering::SeqCst};

struct Counting;
static ALLOCS: AtomicUsize = AtomicUsize::new(0);
static REALLOCS: AtomicUsize = AtomicUsize::new(0);
static DEALLOCS: AtomicUsize = AtomicUsize::new(0);

unsafe impl GlobalAlloc for Counting {
    unsafe fn alloc(&self, l: Layout) -> *mut u8 {
        ALLOCS.fetch_add(1, SeqCst);
        System.alloc(l)
    }
    unsafe fn dealloc(&self, p: *mut u8, l: Layout) {
        DEALLOCS.fetch_add(1, SeqCst);
        System.dealloc(p, l)
    }
    unsafe fn realloc(&self, p: *mut u8, l: Layout, n: usize) -> *mut u8 {
        REALLOCS.fetch_add(1, SeqCst);
        System.realloc(p, l, n)
    }
}

#[global_allocator]
static GLOBAL: Counting = Counting;

fn snap() -> (usize, usize, usize) {
    (ALLOCS.load(SeqCst), REALLOCS.load(SeqCst), DEALLOCS.load(SeqCst))
}

/// warm-up call i = 0, then K measured calls
fn measure(k: usize, mut f: impl FnMut(usize)) -> Vec<i64> {
    f(0);
    let a = snap();
    for i in 1..=k {
        f(i);
    }
    let b = snap();
    vec![(b.0 - a.0) as i64, (b.1 - a.1) as i64, (b.2 - a.2) as i64]
}

struct R(u64);
impl R {
    fn next(&mut self) -> u64 {
        self.0 ^= self.0 << 13;
        self.0 ^= self.0 >> 7;
        self.0 ^= self.0 << 17;
        self.0
    }
    fn f(&mut self) -> f64 {
        (self.next() % 2_000_001) as f64 / 1_000_000.0 - 1.0
    }
    fn i16(&mut self) -> i16 {
        self.next() as i16
    }
}

const NAMES: &[&str] = &[
    "sample_conv", "sample_amp", "frame_ops2", "frame_ops32", "slice_views", "slice_ops",
    "ring_bounded_array", "ring_bounded_vec", "ring_bounded_box", "ring_fixed_vec", "ring_fixed_array",
    "peak", "rms_array", "rms_vec", "env_peak", "env_rms",
    "interp_floor", "interp_linear", "interp_sinc_array", "interp_sinc_vec", "conv_mul_hz", "conv_set_rate",
    "window_hann", "window_rect", "windower_hann", "windower_rect",
    "src_basic", "src_osc", "src_hz", "src_noise", "src_iter",
    "adaptors_a", "adaptors_b", "adaptors_c", "delay_take", "interleaved", "by_ref",
    "fork_by_ref", "fork_by_rc_steady", "buffered_next", "buffered_frames", "sig_rms", "sig_env",
    "graph_stock", "graph_small_cap", "graph_stable", "graph_nested",
    "bus_lockstep", "bus_laggard", "boxed_slice_ok", "boxed_slice_fail",
    "ring_bounded_index", "ring_bounded_raw", "frame_channels_mut", "interp_direct", "lift", "conv_source_access",
    "rectifier_structs", "window_direct", "slice_trait_forms",
    "bus_drop_caught_up", "bus_drop_laggard", "bus_reattach", "graph_fan_in_1500", "graph_chain_1500", "graph_alternating_outputs",
    "graph_node_shapes",
];

fn run(name: &str, k: usize, seed: u64) -> Vec<i64> {
    let mut r = R(seed.wrapping_mul(0x9E3779B97F4A7C15) | 1);
    match name {
        "sample_conv" => measure(k, |i| {
            let s = r.i16();
            black_box(s.to_sample::<f32>());
            black_box(s.to_sample::<u8>());
            black_box(s.to_sample::<I24>());
            black_box(s.to_sample::<u64>());
            black_box((r.f() as f32).to_sample::<U24>());
            black_box((i as f64 / 1e9).to_sample::<i64>());
        }),
        "sample_amp" => measure(k, |_| {
            let s = r.i16() / 4;
            black_box(Sample::add_amp(s, r.i16() / 4));
            black_box(Sample::mul_amp(s, r.f() as f32));
            black_box(Sample::add_amp(128u8, 3i8));
            black_box(Sample::mul_amp(r.f(), r.f()));
            black_box(s.to_signed_sample());
            black_box(s.to_float_sample());
        }),
        "frame_ops2" => measure(k, |_| {
            let a = [r.i16() / 4, r.i16() / 4];
            let b = [r.i16() / 4, r.i16() / 4];
            black_box(a.add_amp(b));
            black_box(a.scale_amp(r.f() as f32));
            black_box(a.offset_amp(3));
            black_box(a.mul_amp([0.5f32, 0.25]));
            let m: [f32; 2] = a.map(|s: i16| s.to_sample::<f32>());
            black_box(m);
            let z: [i16; 2] = a.zip_map(b, |x, y| x / 2 + y / 2);
            black_box(z);
            black_box(<[i16; 2]>::from_fn(|c| c as i16));
            black_box(<[i16; 2]>::from_samples(&mut a.iter().cloned()));
            black_box(a.channels().count());
            black_box(a.channel(1));
            black_box(a.to_signed_frame());
            black_box(a.to_float_frame());
            black_box(<[i16; 2]>::EQUILIBRIUM);
        }),
        "frame_ops32" => measure(k, |_| {
            let a = <[f32; 32]>::from_fn(|c| c as f32 / 64.0);
            let b = <[f32; 32]>::from_fn(|_| r.f() as f32);
            black_box(a.add_amp(b));
            black_box(a.scale_amp(0.5));
            black_box(a.mul_amp(b));
            let m: [i16; 32] = a.map(|s: f32| s.to_sample::<i16>());
            black_box(m);
            black_box(a.channels().count());
            black_box(<[f32; 32]>::from_samples(&mut b.iter().cloned()));
        }),
        "slice_views" => {
            let mut samples = vec![0i16; 96];
            measure(k, |i| {
                samples[i % 96] = r.i16();
                let f: &[[i16; 2]] = slice::to_frame_slice(&samples[..]).unwrap();
                black_box(f.len());
                let f3: Option<&[[i16; 5]]> = slice::to_frame_slice(&samples[..]);
                black_box(f3.is_none());
                let fm: &mut [[i16; 3]] = slice::to_frame_slice_mut(&mut samples[..]).unwrap();
                fm[0][0] = 1;
                let s: &[i16] = slice::to_sample_slice(&fm[..]);
                black_box(s.len());
            })
        }
        "slice_ops" => {
            let mut a = vec![[0f32; 2]; 64];
            let b = vec![[0.25f32; 2]; 64];
            measure(k, |_| {
                slice::equilibrium(&mut a);
                slice::map_in_place(&mut a, |f| f.offset_amp(0.5));
                slice::zip_map_in_place(&mut a, &b, |x, y| x.add_amp(y));
                slice::write(&mut a, &b);
                slice::add_in_place(&mut a, &b);
                slice::add_in_place_with_amp_per_channel(&mut a, &b, [0.5, r.f() as f32]);
                black_box(a[3]);
            })
        }
        "ring_bounded_array" => {
            let mut rb = ring_buffer::Bounded::from([0i32; 7]);
            measure(k, |i| bounded_ops(&mut rb, i, &mut r))
        }
        "ring_bounded_vec" => {
            let mut rb = ring_buffer::Bounded::from(vec![0i32; 9]);
            measure(k, |i| bounded_ops(&mut rb, i, &mut r))
        }
        "ring_bounded_box" => {
            let mut rb = ring_buffer::Bounded::from_full(vec![0i32; 5].into_boxed_slice());
            measure(k, |i| bounded_ops(&mut rb, i, &mut r))
        }
        "ring_fixed_vec" => {
            let mut rb = ring_buffer::Fixed::from(vec![0i32; 9]);
            measure(k, |i| fixed_ops(&mut rb, i, &mut r))
        }
        "ring_fixed_array" => {
            let mut rb = ring_buffer::Fixed::from([0i32; 4]);
            measure(k, |i| fixed_ops(&mut rb, i, &mut r))
        }
        "peak" => measure(k, |_| {
            let f = [r.i16() / 2, r.i16() / 2];
            black_box(dasp_peak::full_wave(f));
            black_box(dasp_peak::positive_half_wave(f));
            black_box(dasp_peak::negative_half_wave(f));
            black_box(dasp_peak::full_wave([r.f(), r.f(), r.f()]));
            black_box(dasp_peak::positive_half_wave([200u8, 3u8]));
        }),
        "rms_array" => {
            let mut rms = Rms::<[f32; 2], _>::new(ring_buffer::Fixed::from([[0.0f32; 2]; 16]));
            measure(k, |i| {
                black_box(rms.next([r.f() as f32, r.f() as f32]));
                black_box(rms.current());
                if i % 37 == 0 {
                    rms.reset();
                }
            })
        }
        "rms_vec" => {
            let mut rms = Rms::<[i16; 1], _>::new(ring_buffer::Fixed::from(vec![[0.0f32; 1]; 33]));
            measure(k, |i| {
                black_box(rms.next([r.i16()]));
                black_box(rms.next_squared([r.i16()]));
                if i % 50 == 0 {
                    rms.reset();
                }
            })
        }
        "env_peak" => {
            let mut d = envelope::Detector::<[f32; 2], _>::peak(3.0, 40.0);
            let mut d2 = envelope::Detector::<[i16; 1], _>::peak_positive_half_wave(0.0, 10.0);
            let mut d3 = envelope::Detector::<[f64; 1], _>::peak_negative_half_wave(5.0, 0.0);
            measure(k, |i| {
                black_box(d.next([r.f() as f32, r.f() as f32]));
                black_box(d2.next([r.i16() / 2]));
                black_box(d3.next([r.f()]));
                if i % 20 == 0 {
                    d.set_attack_frames(i as f32);
                    d.set_release_frames(2.0 * i as f32);
                }
            })
        }
        "env_rms" => {
            let mut d = envelope::Detector::<[f32; 2], _>::rms(ring_buffer::Fixed::from(vec![[0.0f32; 2]; 12]), 3.0, 40.0);
            measure(k, |_| {
                black_box(d.next([r.f() as f32, r.f() as f32]));
            })
        }
        "interp_floor" => {
            let mut src = signal::gen_mut(|| [r.f()]);
            let f = Floor::new(src.next());
            let mut c = src.from_hz_to_hz(f, 44100.0, 48000.0);
            measure(k, |_| {
                black_box(c.next());
            })
        }
        "interp_linear" => {
            let mut x = 0i16;
            let mut src = signal::gen_mut(move || {
                x = x.wrapping_add(77);
                [x, x / 2]
            });
            let l = Linear::new(src.next(), src.next());
            let mut c = src.scale_hz(l, 2.5);
            measure(k, |_| {
                black_box(c.next());
                black_box(c.is_exhausted());
            })
        }
        "interp_sinc_array" => {
            let src = signal::gen_mut(|| [r.f(), r.f()]);
            let s = Sinc::new(ring_buffer::Fixed::from([[0.0f64; 2]; 16]));
            let mut c = src.from_hz_to_hz(s, 48000.0, 44100.0);
            measure(k, |_| {
                black_box(c.next());
            })
        }
        "interp_sinc_vec" => {
            let src = signal::gen_mut(|| r.f() as f32);
            let s = Sinc::new(ring_buffer::Fixed::from(vec![0.0f32; 64]));
            let mut c = src.scale_hz(s, 0.37);
            measure(k, |_| {
                black_box(c.next());
            })
        }
        "conv_mul_hz" => {
            let src = signal::gen_mut(|| [r.f()]);
            let mut m = 0.5f64;
            let ctl = signal::gen_mut(move || {
                m = if m > 3.0 { 0.3 } else { m * 1.01 };
                m
            });
            let mut c = src.mul_hz(Linear::new([0.0], [0.0]), ctl);
            measure(k, |_| {
                black_box(c.next());
            })
        }
        "conv_set_rate" => {
            let src = signal::gen_mut(|| [r.f()]);
            let mut c = src.scale_hz(Floor::new([0.0]), 1.0);
            measure(k, |i| {
                black_box(c.next());
                c.set_playback_hz_scale(0.25 + (i % 9) as f64);
                black_box(c.next());
                c.set_hz_to_hz(44100.0, 8000.0 + (i % 13) as f64 * 1000.0);
                c.set_sample_hz_scale(1.5);
            })
        }
        "window_hann" => {
            let mut w = dasp_signal::window::hann::<[f32; 2]>(64);
            measure(k, |_| {
                black_box(w.next());
            })
        }
        "window_rect" => {
            let mut w = dasp_signal::window::rectangle::<[f64; 1]>(17);
            measure(k, |_| {
                black_box(w.next());
            })
        }
        "windower_hann" => {
            let frames: Vec<[f32; 2]> = (0..200).map(|i| [i as f32 / 200.0, 0.5]).collect();
            measure(k, |i| {
                let wr = Windower::hann(&frames[..], 8 + i % 5, 3 + i % 7);
                black_box(wr.size_hint());
                for chunk in wr {
                    for f in chunk.take(9) {
                        black_box(f);
                    }
                }
            })
        }
        "windower_rect" => {
            let frames: Vec<[i16; 1]> = (0..100).map(|i| [i as i16 * 100]).collect();
            measure(k, |i| {
                let wr = Windower::rectangle(&frames[..], 4 + i % 3, 1 + i % 50);
                for chunk in wr {
                    for f in chunk.take(5) {
                        black_box(f);
                    }
                }
            })
        }
        "src_basic" => {
            let mut e = signal::equilibrium::<[i16; 2]>();
            let mut g = signal::gen(|| [0.5f32]);
            let mut x = 0.0f64;
            let mut gm = signal::gen_mut(move || {
                x += 0.001;
                x
            });
            measure(k, |_| {
                black_box(e.next());
                black_box(g.next());
                black_box(gm.next());
                black_box(e.is_exhausted());
            })
        }
        "src_osc" => {
            let mut a = signal::rate(44100.0).const_hz(440.0).sine();
            let mut b = signal::rate(48000.0).const_hz(52000.0).saw();
            let mut c = signal::rate(8000.0).const_hz(0.5).square();
            let mut d = signal::rate(100.0).const_hz(3.3).noise_simplex();
            let mut p = signal::rate(7.0).const_hz(2.0).phase();
            measure(k, |_| {
                black_box(a.next());
                black_box(b.next());
                black_box(c.next());
                black_box(d.next());
                black_box(p.next());
            })
        }
        "src_hz" => {
            let mut f = 10.0f64;
            let ctl = signal::gen_mut(move || {
                f = if f > 30000.0 { 1.0 } else { f * 1.1 };
                f
            });
            let mut s = signal::rate(44100.0).hz(ctl).sine();
            let ctl2 = signal::gen(|| 100.0f64);
            let mut s2 = signal::rate(44100.0).hz(ctl2).noise_simplex();
            measure(k, |_| {
                black_box(s.next());
                black_box(s2.next());
            })
        }
        "src_noise" => {
            let mut n = signal::noise(seed);
            let mut n2 = signal::noise(u64::MAX - 3);
            measure(k, |_| {
                black_box(n.next());
                black_box(n2.next());
            })
        }
        "src_iter" => {
            let frames: Vec<[i16; 2]> = (0..50).map(|i| [i, -i]).collect();
            let samples: Vec<f32> = (0..101).map(|i| i as f32 / 101.0).collect();
            measure(k, |_| {
                let mut s = signal::from_iter(frames.iter().cloned());
                let mut t = signal::from_interleaved_samples_iter::<_, [f32; 2]>(samples.iter().cloned());
                for _ in 0..60 {
                    black_box(s.next());
                    black_box(t.next());
                    black_box(s.is_exhausted() || t.is_exhausted());
                }
            })
        }
        "adaptors_a" => {
            let a = signal::gen_mut(|| [r.f() / 4.0, r.f() / 4.0]);
            let b = signal::rate(44100.0).const_hz(100.0).sine().map(|s| [s / 4.0, s / 8.0]);
            let mut s = a
                .add_amp(b)
                .scale_amp(0.5)
                .offset_amp(0.01)
                .mul_amp(signal::gen(|| [0.5f64, 0.5]))
                .clip_amp(0.2)
                .inspect(|f| {
                    black_box(f);
                });
            measure(k, |_| {
                black_box(s.next());
                black_box(s.is_exhausted());
            })
        }
        "adaptors_b" => {
            let mut x = 0i16;
            let a = signal::gen_mut(move || {
                x = x.wrapping_add(3);
                [x / 4, x / 8, x / 16]
            });
            let mut s = a
                .offset_amp_per_channel([1i16, 2, 3])
                .scale_amp_per_channel([0.5f32, 0.25, 1.0])
                .zip_map(signal::equilibrium::<[i16; 3]>(), |p, q| p.add_amp(q.to_signed_frame()))
                .clip_amp(1000);
            measure(k, |_| {
                black_box(s.next());
            })
        }
        "adaptors_c" => {
            let a = signal::gen_mut(|| r.f() as f32 / 2.0);
            let mut s = a.map(|s: f32| [s, -s]).scale_amp(0.9).map(|f: [f32; 2]| { let o: [i16; 2] = Frame::map(f, |s: f32| s.to_sample::<i16>()); o });
            measure(k, |_| {
                black_box(s.next());
            })
        }
        "delay_take" => {
            let frames: Vec<[i16; 1]> = (0..40).map(|i| [i]).collect();
            measure(k, |i| {
                let s = signal::from_iter(frames.iter().cloned()).delay(i % 7);
                for f in s.take(10 + i % 40) {
                    black_box(f);
                }
                let s2 = signal::from_iter(frames.iter().cloned()).delay(3);
                for f in s2.until_exhausted() {
                    black_box(f);
                }
            })
        }
        "interleaved" => {
            let frames: Vec<[i16; 3]> = (0..20).map(|i| [i, i + 1, i + 2]).collect();
            measure(k, |_| {
                let s = signal::from_iter(frames.iter().cloned());
                let mut it = s.into_interleaved_samples();
                for _ in 0..70 {
                    black_box(it.next_sample());
                }
                let s2 = signal::from_iter(frames.iter().cloned()).until_exhausted();
                black_box(s2.count());
            })
        }
        "by_ref" => {
            let mut base = signal::gen_mut(|| [r.f()]);
            measure(k, |i| {
                let mut a = base.by_ref().scale_amp(0.5).take(3 + i % 4);
                while let Some(f) = a.next() {
                    black_box(f);
                }
                black_box(base.next());
            })
        }
        "fork_by_ref" => {
            let src = signal::gen_mut(|| [r.f()]);
            let mut fork = src.fork(ring_buffer::Bounded::from([[0.0f64; 1]; 8]));
            measure(k, |i| {
                let (mut a, mut b) = fork.by_ref();
                for _ in 0..(1 + i % 8) {
                    black_box(a.next());
                }
                black_box(b.pending_frames());
                for _ in 0..(1 + i % 8) {
                    black_box(b.next());
                }
                for _ in 0..(i % 5) {
                    black_box(b.next());
                }
                for _ in 0..(i % 5) {
                    black_box(a.next());
                }
            })
        }
        "fork_by_rc_steady" => {
            let src = signal::gen_mut(|| [r.f()]);
            let fork = src.fork(ring_buffer::Bounded::from(vec![[0.0f64; 1]; 8]));
            let (mut a, mut b) = fork.by_rc();
            measure(k, |i| {
                for _ in 0..(1 + i % 8) {
                    black_box(a.next());
                }
                for _ in 0..(1 + i % 8) {
                    black_box(b.next());
                }
                black_box(a.pending_frames() + b.pending_frames());
            })
        }
        "buffered_next" => {
            let src = signal::gen_mut(|| [r.i16()]);
            let mut b = src.buffered(ring_buffer::Bounded::from([[0i16; 1]; 6]));
            measure(k, |_| {
                black_box(b.next());
                black_box(b.is_exhausted());
            })
        }
        "buffered_frames" => {
            let src = signal::gen_mut(|| [r.i16()]);
            let mut b = src.buffered(ring_buffer::Bounded::from(vec![[0i16; 1]; 10]));
            measure(k, |i| {
                for f in b.next_frames().take(i % 12) {
                    black_box(f);
                }
                black_box(b.next());
            })
        }
        "sig_rms" => {
            let src = signal::gen_mut(|| [r.f() as f32, r.f() as f32]);
            let mut s = src.rms(ring_buffer::Fixed::from([[0.0f32; 2]; 20]));
            measure(k, |_| {
                black_box(s.next());
                black_box(s.next_squared());
            })
        }
        "sig_env" => {
            let src = signal::gen_mut(|| [r.f() as f32]);
            let mut s = src.detect_envelope(envelope::Detector::peak(4.0, 30.0));
            measure(k, |i| {
                black_box(s.next());
                if i % 10 == 0 {
                    s.set_attack_frames(i as f32);
                    s.set_release_frames(i as f32 + 1.0);
                }
            })
        }
        "graph_stock" | "graph_small_cap" => {
            type G = petgraph::graph::DiGraph<NodeData<BoxedNode>, ()>;
            let mut g: G = petgraph::graph::DiGraph::with_capacity(16, 32);
            let osc = signal::rate(44100.0).const_hz(220.0).sine().map(|s| [s as f32, s as f32 / 2.0]);
            let n_sig = g.add_node(NodeData::new2(BoxedNode::new(Box::new(osc) as Box<dyn Signal<Frame = [f32; 2]>>)));
            let noise = signal::noise(3).map(|s| [s as f32]);
            let n_sig2 = g.add_node(NodeData::new1(BoxedNode::new(Box::new(noise) as Box<dyn Signal<Frame = [f32; 1]>>)));
            let n_sum = g.add_node(NodeData::new2(BoxedNode::new(node::Sum)));
            let n_sumb = g.add_node(NodeData::new1(BoxedNode::new(node::SumBuffers)));
            let n_pass = g.add_node(NodeData::new2(BoxedNode::new(node::Pass)));
            let delay = node::Delay(vec![ring_buffer::Fixed::from(vec![0.0f32; 100]), ring_buffer::Fixed::from(vec![0.0f32; 7])]);
            let n_delay = g.add_node(NodeData::new2(BoxedNode::new(delay)));
            let n_fn = g.add_node(NodeData::new2(BoxedNode::new(Box::new(
                |inputs: &[node::Input], out: &mut [Buffer]| {
                    for o in out.iter_mut() {
                        o.silence();
                    }
                    black_box(inputs.len());
                },
            ) as Box<dyn FnMut(&[node::Input], &mut [Buffer])>)));
            let n_out = g.add_node(NodeData::new2(BoxedNode::new(node::Sum)));
            g.add_edge(n_sig, n_sum, ());
            g.add_edge(n_sig2, n_sum, ());
            g.add_edge(n_sig, n_sumb, ());
            g.add_edge(n_sum, n_pass, ());
            g.add_edge(n_pass, n_delay, ());
            g.add_edge(n_delay, n_out, ());
            g.add_edge(n_sumb, n_out, ());
            g.add_edge(n_fn, n_out, ());
            g.add_edge(n_sum, n_out, ());
            g.add_edge(n_out, n_fn, ()); // a cycle
            let mut p: Processor<G> = if name == "graph_stock" { Processor::with_capacity(32) } else { Processor::with_capacity(1) };
            let caps0 = p.verif_capacities();
            p.process(&mut g, n_out); // the processor has now processed a graph of this size once
            let caps1 = p.verif_capacities();
            let mut v = measure(k, |i| {
                p.process(&mut g, if i % 3 == 0 { n_pass } else { n_out });
                black_box(g[n_out].buffers[0][i % 64]);
            });
            let caps2 = p.verif_capacities();
            v.extend_from_slice(&[caps0.0 as i64, caps0.1 as i64, caps1.0 as i64, caps1.1 as i64, caps2.0 as i64, caps2.1 as i64]);
            v
        }
        "graph_stable" => {
            type G = petgraph::stable_graph::StableDiGraph<NodeData<BoxedNodeSend>, ()>;
            let mut g: G = petgraph::stable_graph::StableDiGraph::with_capacity(8, 8);
            let a = g.add_node(NodeData::new1(BoxedNodeSend::new(node::SumBuffers)));
            let dead = g.add_node(NodeData::new1(BoxedNodeSend::new(node::Pass)));
            let b = g.add_node(NodeData::new1(BoxedNodeSend::new(node::Pass)));
            let c = g.add_node(NodeData::new1(BoxedNodeSend::new(node::Sum)));
            g.add_edge(a, b, ());
            g.add_edge(b, c, ());
            g.add_edge(a, c, ());
            g.add_edge(dead, c, ());
            g.remove_node(dead);
            let mut p: Processor<G> = Processor::with_capacity(8);
            p.process(&mut g, c);
            measure(k, |_| {
                p.process(&mut g, c);
                black_box(dasp_graph::sources(&&g).count());
                black_box(dasp_graph::sinks(&&g).count());
            })
        }
        "graph_nested" => {
            type Inner = petgraph::graph::DiGraph<NodeData<BoxedNode>, ()>;
            let mut inner: Inner = petgraph::graph::DiGraph::new();
            let i_in = inner.add_node(NodeData::new1(BoxedNode::new(node::Pass)));
            let i_out = inner.add_node(NodeData::new1(BoxedNode::new(node::Sum)));
            inner.add_edge(i_in, i_out, ());
            let gn = node::GraphNode { processor: Processor::with_capacity(4), graph: inner, input_nodes: vec![i_in], output_node: i_out, node_type: std::marker::PhantomData };
            type G = petgraph::graph::DiGraph<NodeData<BoxedNode>, ()>;
            let mut g: G = petgraph::graph::DiGraph::new();
            let a = g.add_node(NodeData::new1(BoxedNode::new(Box::new(signal::noise(5).map(|s| [s as f32])) as Box<dyn Signal<Frame = [f32; 1]>>)));
            let n = g.add_node(NodeData::new1(BoxedNode::new(gn)));
            g.add_edge(a, n, ());
            let mut p: Processor<G> = Processor::with_capacity(4);
            p.process(&mut g, n);
            measure(k, |_| {
                p.process(&mut g, n);
            })
        }
        "bus_lockstep" | "bus_laggard" => {
            let src = signal::gen_mut(|| [r.f()]);
            let bus = src.bus();
            let mut a = bus.send();
            let mut b = bus.send();
            let mut c = bus.send();
            let lag = if name == "bus_laggard" { 5 } else { 0 };
            for _ in 0..lag {
                black_box(a.next());
                black_box(b.next());
            }
            let mut maxb = 0usize;
            let mut v = measure(k, |_| {
                black_box(a.next());
                black_box(b.next());
                black_box(c.next());
                maxb = maxb.max(bus.verif_backlog_len());
                black_box(a.pending_frames() + c.pending_frames());
            });
            v.push(maxb as i64);
            v.push(bus.verif_backlog_len() as i64);
            v
        }
        "boxed_slice_ok" => measure(k, |i| {
            let b: Box<[i16]> = vec![0i16; 6 * (1 + i % 5)].into_boxed_slice();
            let a0 = snap();
            let f: Box<[[i16; 3]]> = slice::to_boxed_frame_slice(b).unwrap();
            let s: Box<[i16]> = slice::to_boxed_sample_slice(f);
            let a1 = snap();
            assert!(a1 == a0, "boxed conversion touched the allocator");
            black_box(s.len());
        }),
        "boxed_slice_fail" => measure(k, |i| {
            let b: Box<[i16]> = vec![0i16; 6 * (1 + i % 5) + 1].into_boxed_slice();
            let f: Option<Box<[[i16; 3]]>> = slice::to_boxed_frame_slice(b);
            black_box(f.is_none());
        }),

        "ring_bounded_index" => {
            let mut rb = ring_buffer::Bounded::from_full(vec![0i32; 6]);
            measure(k, |i| {
                rb[i % 6] = r.next() as i32;
                black_box(rb[(i + 1) % 6]);
                rb.pop();
                rb.push(i as i32);
                let n = rb.len();
                rb[n - 1] += 1;
            })
        }
        "ring_bounded_raw" => {
            let mut store = vec![0i32; 12];
            measure(k, |i| {
                let cap = 1 + i % 12;
                let start = i % cap;
                let len = (i / 3) % (cap + 1);
                let mut rb = ring_buffer::Bounded::from_raw_parts(start, len, &mut store[..cap]);
                black_box(rb.push(i as i32));
                black_box(rb.pop());
                black_box(rb.iter().count());
                let (a, b) = rb.slices();
                black_box(a.len() + b.len());
                let mut fx = ring_buffer::Fixed::from_raw_parts(start, &mut store[..cap]);
                black_box(fx.push(1));
                black_box(fx.iter().count());
            })
        }
        "frame_channels_mut" => measure(k, |i| {
            let mut f = [r.i16(), r.i16(), i as i16];
            for c in f.channels_mut() {
                *c = c.wrapping_add(1);
            }
            black_box(f.channels_ref().count());
            if let Some(c) = f.channel_mut(i % 4) {
                *c = 0;
            }
            black_box(unsafe { *f.channel_unchecked(i % 3) });
            black_box(f);
        }),
        "interp_direct" => {
            use dasp_interpolate::Interpolator;
            let mut fl = Floor::new([0.0f64; 2]);
            let mut li = Linear::new([0i16; 1], [0i16; 1]);
            let mut si = Sinc::new(ring_buffer::Fixed::from([[0.0f32; 1]; 8]));
            measure(k, |i| {
                fl.next_source_frame([r.f(), r.f()]);
                li.next_source_frame([r.i16()]);
                si.next_source_frame([r.f() as f32]);
                let x = (i % 17) as f64 / 17.0;
                black_box(fl.interpolate(x));
                black_box(li.interpolate(x));
                black_box(si.interpolate(x));
                if i % 29 == 0 {
                    fl.reset();
                    li.reset();
                    si.reset();
                }
            })
        }
        "lift" => {
            let frames: Vec<[i16; 1]> = (0..30).map(|i| [i]).collect();
            measure(k, |i| {
                let it = signal::lift(frames.iter().cloned(), |s| s.offset_amp(i as i16 % 5).delay(i % 3));
                black_box(it.count());
            })
        }
        "conv_source_access" => {
            let src = signal::gen_mut(|| [r.f()]);
            let mut c = src.scale_hz(Linear::new([0.0], [0.0]), 0.7);
            measure(k, |_| {
                black_box(c.next());
                black_box(c.source_mut().next());
                black_box(c.source().is_exhausted());
            })
        }
        "rectifier_structs" => {
            use dasp_peak::Rectifier;
            measure(k, |_| {
                let f = [r.i16() / 2, r.i16() / 2];
                black_box(dasp_peak::FullWave.rectify(f));
                black_box(dasp_peak::PositiveHalfWave.rectify(f));
                black_box(dasp_peak::NegativeHalfWave.rectify(f));
            })
        }
        "window_direct" => {
            use dasp_window::Window as WindowFn;
            measure(k, |i| {
                let p = (i % 101) as f64 / 101.0;
                black_box(<dasp_window::Hann as WindowFn<f64>>::window(p));
                black_box(<dasp_window::Rectangle as WindowFn<f64>>::window(p));
                black_box(<dasp_window::Hann as WindowFn<f32>>::window(p as f32));
            })
        }
        "slice_trait_forms" => {
            use dasp_slice::{FromFrameSlice, FromSampleSlice, ToFrameSlice, ToSampleSlice};
            let samples = vec![0.5f32; 60];
            measure(k, |i| {
                let f: Option<&[[f32; 3]]> = FromSampleSlice::from_sample_slice(&samples[..]);
                black_box(f.map(|x| x.len()));
                let f4: Option<&[[f32; 4]]> = (&samples[..(i % 60)]).to_frame_slice();
                if let Some(fr) = f4 {
                    let s: &[f32] = fr.to_sample_slice();
                    black_box(s.len());
                    let s2: &[f32] = FromFrameSlice::from_frame_slice(fr);
                    black_box(s2.len());
                }
            })
        }
        "bus_drop_caught_up" | "bus_drop_laggard" | "bus_reattach" => {
            let src = signal::gen_mut(|| [r.f()]);
            let bus = src.bus();
            let mut a = bus.send();
            let mut b = bus.send();
            let c = bus.send();
            let mut c = Some(c);
            // warm up: everybody pulls some frames
            for _ in 0..8 {
                black_box(a.next());
                black_box(b.next());
                black_box(c.as_mut().unwrap().next());
            }
            match name {
                "bus_drop_caught_up" => {
                    c.take(); // dropped exactly when all outputs have caught up
                }
                "bus_drop_laggard" => {
                    for _ in 0..5 {
                        black_box(a.next());
                        black_box(b.next());
                    }
                    c.take(); // the slowest output is dropped while the backlog holds its frames
                }
                _ => {}
            }
            let mut maxb = 0usize;
            let mut extra: Option<dasp_signal::bus::Output<_>> = None;
            let mut v = measure(k, |i| {
                black_box(a.next());
                black_box(b.next());
                if let Some(cc) = c.as_mut() {
                    black_box(cc.next());
                }
                if name == "bus_reattach" && i % 64 == 0 {
                    // periodically replace an output by a freshly attached one (send/drop allocate by
                    // design; what must stay bounded is the backlog)
                    extra = Some(bus.send());
                }
                if let Some(e) = extra.as_mut() {
                    black_box(e.next());
                }
                maxb = maxb.max(bus.verif_backlog_len());
            });
            v.push(maxb as i64);
            v.push(bus.verif_backlog_len() as i64);
            v
        }
        "graph_fan_in_1500" | "graph_chain_1500" => {
            type G = petgraph::graph::DiGraph<NodeData<BoxedNode>, ()>;
            let n = 1500usize;
            let mut g: G = petgraph::graph::DiGraph::with_capacity(n + 2, n + 2);
            let out = g.add_node(NodeData::new1(BoxedNode::new(node::Sum)));
            let mut prev = out;
            for _ in 0..n {
                let s = g.add_node(NodeData::new1(BoxedNode::new(node::Pass)));
                if name == "graph_fan_in_1500" {
                    g.add_edge(s, out, ());
                } else {
                    g.add_edge(s, prev, ());
                    prev = s;
                }
            }
            let mut p: Processor<G> = Processor::with_capacity(n + 2);
            p.process(&mut g, out);
            let caps1 = p.verif_capacities();
            let mut v = measure(k.min(40), |_| {
                p.process(&mut g, out);
            });
            let caps2 = p.verif_capacities();
            v.extend_from_slice(&[caps1.0 as i64, caps1.1 as i64, caps2.0 as i64, caps2.1 as i64]);
            v
        }
        "graph_alternating_outputs" => {
            // one processor, process calls alternating between a small and a large upstream cone
            type G = petgraph::graph::DiGraph<NodeData<BoxedNode>, ()>;
            let mut g: G = petgraph::graph::DiGraph::new();
            let small = g.add_node(NodeData::new1(BoxedNode::new(node::Sum)));
            let big = g.add_node(NodeData::new1(BoxedNode::new(node::Sum)));
            g.add_edge(small, big, ());
            for _ in 0..40 {
                let s = g.add_node(NodeData::new1(BoxedNode::new(node::Pass)));
                g.add_edge(s, big, ());
            }
            let mut p: Processor<G> = Processor::with_capacity(4);
            p.process(&mut g, big);
            p.process(&mut g, small);
            let caps1 = p.verif_capacities();
            let mut v = measure(k, |i| {
                p.process(&mut g, if i % 2 == 0 { small } else { big });
            });
            let caps2 = p.verif_capacities();
            v.extend_from_slice(&[caps1.0 as i64, caps1.1 as i64, caps2.0 as i64, caps2.1 as i64]);
            v
        }

        "graph_node_shapes" => {
            // every stock node with 0..4 output buffers, mismatched input widths, delay rings of many
            // lengths (below, at and above Buffer::LEN, multiples and non-multiples of it)
            type G = petgraph::graph::DiGraph<NodeData<BoxedNode>, ()>;
            let mut g: G = petgraph::graph::DiGraph::new();
            let mk = |n: usize| vec![Buffer::SILENT; n];
            let src3 = g.add_node(NodeData::new(BoxedNode::new(Box::new(signal::noise(9).map(|s| [s as f32, -s as f32, 0.5f32])) as Box<dyn Signal<Frame = [f32; 3]>>), mk(3)));
            let src1 = g.add_node(NodeData::new1(BoxedNode::new(Box::new(signal::noise(4).map(|s| [s as f32])) as Box<dyn Signal<Frame = [f32; 1]>>)));
            let out = g.add_node(NodeData::new(BoxedNode::new(node::Sum), mk(4)));
            for nbuf in 0..5usize {
                let sb = g.add_node(NodeData::new(BoxedNode::new(node::SumBuffers), mk(nbuf)));
                let su = g.add_node(NodeData::new(BoxedNode::new(node::Sum), mk(nbuf)));
                let pa = g.add_node(NodeData::new(BoxedNode::new(node::Pass), mk(nbuf)));
                for n in [sb, su, pa].iter() {
                    g.add_edge(src3, *n, ());
                    g.add_edge(src1, *n, ());
                    g.add_edge(*n, out, ());
                }
            }
            for len in [1usize, 2, 7, 63, 64, 65, 100, 128, 129, 1000].iter() {
                let d = node::Delay(vec![ring_buffer::Fixed::from(vec![0.0f32; *len]), ring_buffer::Fixed::from(vec![0.0f32; *len + 3])]);
                let dn = g.add_node(NodeData::new2(BoxedNode::new(d)));
                g.add_edge(src3, dn, ());
                g.add_edge(dn, out, ());
            }
            let mut p: Processor<G> = Processor::with_capacity(64);
            p.process(&mut g, out);
            measure(k.min(200), |i| {
                p.process(&mut g, out);
                black_box(g[out].buffers[0][i % 64]);
            })
        }
        _ => vec![-1],
    }
}

fn bounded_ops<S>(rb: &mut ring_buffer::Bounded<S>, i: usize, r: &mut R)
where
    S: ring_buffer::SliceMut<Element = i32>,
{
    black_box(rb.push(r.next() as i32));
    black_box(rb.push(i as i32));
    if i % 3 == 0 {
        black_box(rb.pop());
    }
    black_box(rb.get(i % 4).cloned());
    if let Some(x) = rb.get_mut(0) {
        *x += 1;
    }
    black_box(rb.iter().count());
    for x in rb.iter_mut() {
        *x ^= 1;
    }
    let (a, b) = rb.slices();
    black_box(a.len() + b.len());
    let (a, b) = rb.slices_mut();
    black_box(a.len() + b.len());
    if i % 11 == 0 {
        black_box(rb.drain().take(2).count());
    }
    if i % 17 == 0 {
        rb.extend([1, 2, 3].iter().cloned());
        let n = rb.max_len() as i32;
        rb.extend(0..(2 * n + 3));
        rb.extend((0..(n + 2)).filter(|x| x % 2 == 0));
    }
    black_box((rb.len(), rb.is_empty(), rb.is_full(), rb.max_len()));
}

fn fixed_ops<S>(rb: &mut ring_buffer::Fixed<S>, i: usize, r: &mut R)
where
    S: ring_buffer::SliceMut<Element = i32>,
{
    black_box(rb.push(r.next() as i32));
    black_box(*rb.get(i));
    *rb.get_mut(i + 1) = 3;
    rb[2] = rb[0] + 1;
    if i % 5 == 0 {
        rb.set_first(i);
    }
    black_box(rb.iter().count());
    black_box(rb.iter_loop().take(20).count());
    for x in rb.iter_mut() {
        *x ^= 1;
    }
    let (a, b) = rb.slices();
    black_box(a.len() + b.len());
    rb.extend([1, 2].iter().cloned());
    // more items than slots, from iterators with exact, inexact and absent size hints
    let n = rb.len() as i32;
    rb.extend(0..(2 * n + 3));
    rb.extend((0..(n + 2)).filter(|x| x % 2 == 0));
    rb.extend(std::iter::repeat(7).take(rb.len() + 1));
    black_box(rb.len());
}

macro_rules! caps_case {
    ($gty:ty, $stable:tt, $cap0:expr, $ops:expr) => {{
        let ops: &Vec<Vec<&str>> = $ops;
        let mut g: $gty = <$gty>::default();
        let mut p: Processor<$gty> = Processor::with_capacity($cap0);
        let mut out: Vec<String> = Vec::new();
        for op in ops {
            let a: Vec<usize> = op[1..].iter().map(|t| t.parse().unwrap()).collect();
            match op[0] {
                "N" => {
                    g.add_node(NodeData::new1(BoxedNode::new(node::Pass)));
                }
                "E" => {
                    g.add_edge(petgraph::graph::NodeIndex::new(a[0]), petgraph::graph::NodeIndex::new(a[1]), ());
                }
                "R" => {
                    caps_case!(@remove $stable, g, a[0]);
                }
                "P" => {
                    let before = snap();
                    p.process(&mut g, petgraph::graph::NodeIndex::new(a[0]));
                    let after = snap();
                    let c = p.verif_capacities();
                    out.push(join(&[
                        c.0 as i64,
                        c.1 as i64,
                        (after.0 - before.0 + after.1 - before.1) as i64,
                        (after.2 - before.2) as i64,
                    ]));
                }
                other => panic!("unknown op {}", other),
            }
        }
        out.join(";")
    }};
    (@remove true, $g:ident, $a:expr) => {
        $g.remove_node(petgraph::graph::NodeIndex::new($a));
    };
    (@remove false, $g:ident, $a:expr) => {{
        let _ = $a;
        panic!("R is only supported on StableGraph")
    }};
}

fn caps_line(line: &str) -> String {
    let mut parts = line.splitn(2, ';');
    let head: Vec<&str> = parts.next().unwrap().split_whitespace().collect();
    let cap0: usize = head[2].parse().unwrap();
    let ops: Vec<Vec<&str>> = parts
        .next()
        .unwrap_or("")
        .split(',')
        .map(|o| o.split_whitespace().collect::<Vec<_>>())
        .filter(|o| !o.is_empty())
        .collect();
    type PG = petgraph::graph::DiGraph<NodeData<BoxedNode>, ()>;
    type SG = petgraph::stable_graph::StableDiGraph<NodeData<BoxedNode>, ()>;
    match head[1] {
        "G" => caps_case!(PG, false, cap0, &ops),
        "S" => caps_case!(SG, true, cap0, &ops),
        other => panic!("unknown graph kind {}", other),
    }
}

fn main() {
    serve(|line| {
        let t: Vec<&str> = line.split_whitespace().collect();
        if t[0] == "list" {
            return NAMES.join(" ");
        }
        if t[0] == "caps" {
            return caps_line(line);
        }
        let k: usize = t[1].parse().unwrap();
        let seed: u64 = t[2].parse().unwrap();
        let v = run(t[0], k, seed);
        join(&v)
    });
}
