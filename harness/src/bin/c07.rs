//! C07: counts heap traffic (alloc / realloc / dealloc) of the allocation-free API surface.
//! Input line: `list`  -> scenario names, space separated
//!             `<scenario> <K> <seed> [<family>]` -> `<allocs> <reallocs> <deallocs> <extra...>` measured over K
//!             further calls AFTER construction and one warm-up call; `family` (0..4, default 0) selects the value
//!             family the scenario's inputs are drawn from (see `struct R`); the extras of the scenarios aimed at
//!             one data-dependent branch count how often that branch was demonstrably taken.
//!             `caps <G|S> <cap0> ; op , op , ...` -> capacity trace of ONE `Processor::with_capacity(cap0)`
//!             over a graph of stock `Pass` nodes built and processed by the script (G = petgraph::Graph,
//!             S = StableGraph): `N` add a node, `E a b` add an edge, `R a` remove node a (S only),
//!             `P o` Processor::process(graph, o).  Output: per `P`, `;`-separated,
//!             `<stack capacity> <inputs capacity> <allocs + reallocs during the call> <deallocs during the call>`
//!             (capacities through `Processor::verif_capacities()`, heap traffic from the counting allocator).
use dasp_envelope as envelope;
use dasp_frame::Frame;
use dasp_graph::{node, Buffer, BoxedNode, BoxedNodeSend, NodeData, Processor};
use dasp_interpolate::{floor::Floor, linear::Linear, sinc::Sinc};
use dasp_ring_buffer as ring_buffer;
use dasp_rms::Rms;
use dasp_sample::{Sample, I24, U24};
use dasp_signal::{self as signal, Signal};
use dasp_signal::envelope::SignalEnvelope;
use dasp_signal::rms::SignalRms;
use dasp_signal::bus::SignalBus;
use dasp_signal::window::Windower;
use dasp_slice as slice;
use dasp_verif_harness::*;
use std::alloc::{GlobalAlloc, Layout, System};
use std::hint::black_box;
use std::sync::atomic::{AtomicUsize, Ordering::SeqCst};

struct Counting;
static ALLOCS: AtomicUsize = AtomicUsize::new(0);
static REALLOCS: AtomicUsize = AtomicUsize::new(0);
static DEALLOCS: AtomicUsize = AtomicUsize::new(0);

unsafe impl GlobalAlloc for Counting {
    unsafe fn alloc(&self, l: Layout) -> *mut u8 {
        ALLOCS.fetch_add(1, SeqCst);
        System.alloc(l)
    }
    unsafe fn dealloc(&self, p: *mut u8, l: Layout) {
        DEALLOCS.fetch_add(1, SeqCst);
        System.dealloc(p, l)
    }
    unsafe fn realloc(&self, p: *mut u8, l: Layout, n: usize) -> *mut u8 {
        REALLOCS.fetch_add(1, SeqCst);
        System.realloc(p, l, n)
    }
}

#[global_allocator]
static GLOBAL: Counting = Counting;

fn snap() -> (usize, usize, usize) {
    (ALLOCS.load(SeqCst), REALLOCS.load(SeqCst), DEALLOCS.load(SeqCst))
}

/// warm-up call i = 0, then K measured calls
fn measure(k: usize, mut f: impl FnMut(usize)) -> Vec<i64> {
    f(0);
    let a = snap();
    for i in 1..=k {
        f(i);
    }
    let b = snap();
    vec![(b.0 - a.0) as i64, (b.1 - a.1) as i64, (b.2 - a.2) as i64]
}

/// Input values.  `fam` selects the VALUE FAMILY every scenario's inputs are drawn from (4th token of the input line):
///   0 plain     uniform in [-1, 1] / uniform i16 (the only family before round 3)
///   1 dynrange  segments of 24 draws whose level cycles 1e4, 3, 1, 1e-3, 0, 1e2, 1e-20, 0: loud then quiet, so that
///               running sums lose the small terms (RMS clamp), envelopes attack and release, clips hit both sides
///   2 edges     half the draws from a palette of finite special values (+-0, +-1, +-2, 1 +- ulp, subnormals, f32/f64
///               extremes), integers from {MIN, MIN+1, .., -1, 0, 1, .., MAX}
///   3 nonfinite mostly plain, 1/16 NaN / +-inf / +-f64::MAX, 1/4 palette
///   4 ramps     period 192 draws: linear rise to 1.5, plateau, linear fall, silence; sign alternating every other draw
struct R {
    s: u64,
    fam: u8,
    n: u64,
}
const F_EDGE: [f64; 22] = [
    0.0, -0.0, 1.0, -1.0, 0.5, -0.5, 0.25, 2.0, -2.0, f64::MIN_POSITIVE, 5e-324, 1.0 - f64::EPSILON / 2.0, -1.0 + f64::EPSILON / 2.0,
    1.0 + f64::EPSILON, 1.1754944e-38, 1e-45, 3.0e38, -3.0e38, 1e300, 1e-300, 0.999_999_94, -0.999_999_94,
];
const F_NONFINITE: [f64; 5] = [f64::NAN, f64::INFINITY, f64::NEG_INFINITY, f64::MAX, -f64::MAX];
const F_LEVELS: [f64; 8] = [1.0e4, 3.0, 1.0, 1.0e-3, 0.0, 1.0e2, 1.0e-20, 0.0];
const I_EDGE: [i16; 13] = [i16::MIN, i16::MIN + 1, -16384, -256, -2, -1, 0, 1, 2, 255, 16383, i16::MAX - 1, i16::MAX];
impl R {
    fn new(seed: u64, fam: u8) -> R {
        R { s: seed.wrapping_mul(0x9E3779B97F4A7C15) | 1, fam, n: 0 }
    }
    fn next(&mut self) -> u64 {
        self.s ^= self.s << 13;
        self.s ^= self.s >> 7;
        self.s ^= self.s << 17;
        self.s
    }
    fn unit(&mut self) -> f64 {
        (self.next() % 2_000_001) as f64 / 1_000_000.0 - 1.0
    }
    fn f(&mut self) -> f64 {
        self.n += 1;
        let n = self.n - 1;
        match self.fam {
            1 => {
                let level = F_LEVELS[((n / 24) % 8) as usize];
                let u = self.unit();
                level * if n % 3 == 0 { if u < 0.0 { -1.0 } else { 1.0 } } else { u }
            }
            2 => {
                let c = self.next();
                let u = self.unit();
                if c % 2 == 0 { F_EDGE[((c >> 8) % F_EDGE.len() as u64) as usize] } else { u }
            }
            3 => {
                let c = self.next();
                let u = self.unit();
                if c % 16 == 0 {
                    F_NONFINITE[((c >> 8) % 5) as usize]
                } else if c % 4 == 1 {
                    F_EDGE[((c >> 8) % F_EDGE.len() as u64) as usize]
                } else {
                    u
                }
            }
            4 => {
                let t = (n % 192) as f64;
                let env = if t < 48.0 { t / 48.0 } else if t < 96.0 { 1.0 } else if t < 144.0 { (144.0 - t) / 48.0 } else { 0.0 };
                let _ = self.next();
                1.5 * env * if (n / 2) % 2 == 0 { 1.0 } else { -1.0 }
            }
            _ => self.unit(),
        }
    }
    fn i16(&mut self) -> i16 {
        match self.fam {
            0 => self.next() as i16,
            2 | 3 => {
                let c = self.next();
                if c % 2 == 0 { I_EDGE[((c >> 8) % I_EDGE.len() as u64) as usize] } else { (c >> 16) as i16 }
            }
            _ => {
                let x = self.f();
                (x.max(-1.0).min(1.0) * 32767.0) as i16
            }
        }
    }
}

/// a `fmt::Write` sink on the stack (Debug output of the API's types must not need the heap either)
struct StackW {
    buf: [u8; 2048],
    n: usize,
}
impl std::fmt::Write for StackW {
    fn write_str(&mut self, s: &str) -> std::fmt::Result {
        let b = s.as_bytes();
        let k = b.len().min(self.buf.len() - self.n);
        self.buf[self.n..self.n + k].copy_from_slice(&b[..k]);
        self.n += k;
        Ok(())
    }
}

const NAMES: &[&str] = &[
    "sample_conv", "sample_amp", "frame_ops2", "frame_ops32", "slice_views", "slice_ops",
    "ring_bounded_array", "ring_bounded_vec", "ring_bounded_box", "ring_fixed_vec", "ring_fixed_array",
    "peak", "rms_array", "rms_vec", "env_peak", "env_rms",
    "interp_floor", "interp_linear", "interp_sinc_array", "interp_sinc_vec", "conv_mul_hz", "conv_set_rate",
    "window_hann", "window_rect", "windower_hann", "windower_rect",
    "src_basic", "src_osc", "src_hz", "src_noise", "src_iter",
    "adaptors_a", "adaptors_b", "adaptors_c", "delay_take", "interleaved", "by_ref",
    "fork_by_ref", "fork_by_rc_steady", "buffered_next", "buffered_frames", "sig_rms", "sig_env",
    "graph_stock", "graph_small_cap", "graph_stable", "graph_nested",
    "bus_lockstep", "bus_laggard", "boxed_slice_ok", "boxed_slice_fail",
    "ring_bounded_index", "ring_bounded_raw", "frame_channels_mut", "interp_direct", "lift", "conv_source_access",
    "rectifier_structs", "window_direct", "slice_trait_forms",
    "bus_drop_caught_up", "bus_drop_laggard", "bus_reattach", "graph_fan_in_1500", "graph_chain_1500", "graph_alternating_outputs",
    "graph_node_shapes",
    // round 3: inputs designed per data-dependent branch, entry points the coverage report listed as never reached
    "rms_clamp", "rms_clamp_adaptors", "env_attack_release", "conv_ratio_steps", "conv_exhaustion", "sinc_priming", "clip_both_sides", "bounded_full_wrap", "bus_catch_up", "bus_finite_source", "windower_edges", "graph_node_edge_cases", "osc_shapes", "exhaustion_queries", "consume_parts", "fork_rc_schedules", "slice_all_forms", "frame_iters_mono", "sample_all_formats", "custom_int_types", "debug_fmt", "boxed_slice_forms", "size_sweep",
];

fn run(name: &str, k: usize, seed: u64, fam: u8) -> Vec<i64> {
    let mut r = R::new(seed, fam);
    match name {
        "sample_conv" => measure(k, |i| {
            let s = r.i16();
            black_box(s.to_sample::<f32>());
            black_box(s.to_sample::<u8>());
            black_box(s.to_sample::<I24>());
            black_box(s.to_sample::<u64>());
            black_box((r.f().max(-1.0).min(0.999_999) as f32).to_sample::<U24>()); // documented domain of float -> int: [-1, 1)
            black_box((i as f64 / 1e9).to_sample::<i64>());
        }),
        "sample_amp" => measure(k, |_| {
            let s = r.i16() / 4;
            black_box(Sample::add_amp(s, r.i16() / 4));
            black_box(Sample::mul_amp(s, r.f() as f32));
            black_box(Sample::add_amp(128u8, 3i8));
            black_box(Sample::mul_amp(r.f(), r.f()));
            black_box(s.to_signed_sample());
            black_box(s.to_float_sample());
        }),
        "frame_ops2" => measure(k, |_| {
            let a = [r.i16() / 4, r.i16() / 4];
            let b = [r.i16() / 4, r.i16() / 4];
            black_box(a.add_amp(b));
            black_box(a.scale_amp(r.f() as f32));
            black_box(a.offset_amp(3));
            black_box(a.mul_amp([0.5f32, 0.25]));
            let m: [f32; 2] = a.map(|s: i16| s.to_sample::<f32>());
            black_box(m);
            let z: [i16; 2] = a.zip_map(b, |x, y| x / 2 + y / 2);
            black_box(z);
            black_box(<[i16; 2]>::from_fn(|c| c as i16));
            black_box(<[i16; 2]>::from_samples(&mut a.iter().cloned()));
            black_box(a.channels().count());
            black_box(a.channel(1));
            black_box(a.to_signed_frame());
            black_box(a.to_float_frame());
            black_box(<[i16; 2]>::EQUILIBRIUM);
        }),
        "frame_ops32" => measure(k, |_| {
            let a = <[f32; 32]>::from_fn(|c| c as f32 / 64.0);
            let b = <[f32; 32]>::from_fn(|_| r.f() as f32);
            black_box(a.add_amp(b));
            black_box(a.scale_amp(0.5));
            black_box(a.mul_amp(b));
            let m: [i16; 32] = a.map(|s: f32| s.to_sample::<i16>());
            black_box(m);
            black_box(a.channels().count());
            black_box(<[f32; 32]>::from_samples(&mut b.iter().cloned()));
        }),
        "slice_views" => {
            let mut samples = vec![0i16; 96];
            measure(k, |i| {
                samples[i % 96] = r.i16();
                let f: &[[i16; 2]] = slice::to_frame_slice(&samples[..]).unwrap();
                black_box(f.len());
                let f3: Option<&[[i16; 5]]> = slice::to_frame_slice(&samples[..]);
                black_box(f3.is_none());
                let fm: &mut [[i16; 3]] = slice::to_frame_slice_mut(&mut samples[..]).unwrap();
                fm[0][0] = 1;
                let s: &[i16] = slice::to_sample_slice(&fm[..]);
                black_box(s.len());
            })
        }
        "slice_ops" => {
            let mut a = vec![[0f32; 2]; 64];
            let b = vec![[0.25f32; 2]; 64];
            measure(k, |_| {
                slice::equilibrium(&mut a);
                slice::map_in_place(&mut a, |f| f.offset_amp(0.5));
                slice::zip_map_in_place(&mut a, &b, |x, y| x.add_amp(y));
                slice::write(&mut a, &b);
                slice::add_in_place(&mut a, &b);
                slice::add_in_place_with_amp_per_channel(&mut a, &b, [0.5, r.f() as f32]);
                black_box(a[3]);
            })
        }
        "ring_bounded_array" => {
            let mut rb = ring_buffer::Bounded::from([0i32; 7]);
            measure(k, |i| bounded_ops(&mut rb, i, &mut r))
        }
        "ring_bounded_vec" => {
            let mut rb = ring_buffer::Bounded::from(vec![0i32; 9]);
            measure(k, |i| bounded_ops(&mut rb, i, &mut r))
        }
        "ring_bounded_box" => {
            let mut rb = ring_buffer::Bounded::from_full(vec![0i32; 5].into_boxed_slice());
            measure(k, |i| bounded_ops(&mut rb, i, &mut r))
        }
        "ring_fixed_vec" => {
            let mut rb = ring_buffer::Fixed::from(vec![0i32; 9]);
            measure(k, |i| fixed_ops(&mut rb, i, &mut r))
        }
        "ring_fixed_array" => {
            let mut rb = ring_buffer::Fixed::from([0i32; 4]);
            measure(k, |i| fixed_ops(&mut rb, i, &mut r))
        }
        "peak" => measure(k, |_| {
            let f = [r.i16() / 2, r.i16() / 2];
            black_box(dasp_peak::full_wave(f));
            black_box(dasp_peak::positive_half_wave(f));
            black_box(dasp_peak::negative_half_wave(f));
            black_box(dasp_peak::full_wave([r.f(), r.f(), r.f()]));
            black_box(dasp_peak::positive_half_wave([200u8, 3u8]));
        }),
        "rms_array" => {
            let mut rms = Rms::<[f32; 2], _>::new(ring_buffer::Fixed::from([[0.0f32; 2]; 16]));
            measure(k, |i| {
                black_box(rms.next([r.f() as f32, r.f() as f32]));
                black_box(rms.current());
                if i % 37 == 0 {
                    rms.reset();
                }
            })
        }
        "rms_vec" => {
            let mut rms = Rms::<[i16; 1], _>::new(ring_buffer::Fixed::from(vec![[0.0f32; 1]; 33]));
            measure(k, |i| {
                black_box(rms.next([r.i16()]));
                black_box(rms.next_squared([r.i16()]));
                if i % 50 == 0 {
                    rms.reset();
                }
            })
        }
        "env_peak" => {
            let mut d = envelope::Detector::<[f32; 2], _>::peak(3.0, 40.0);
            let mut d2 = envelope::Detector::<[i16; 1], _>::peak_positive_half_wave(0.0, 10.0);
            let mut d3 = envelope::Detector::<[f64; 1], _>::peak_negative_half_wave(5.0, 0.0);
            measure(k, |i| {
                black_box(d.next([r.f() as f32, r.f() as f32]));
                black_box(d2.next([r.i16() / 2]));
                black_box(d3.next([r.f()]));
                if i % 20 == 0 {
                    d.set_attack_frames(i as f32);
                    d.set_release_frames(2.0 * i as f32);
                }
            })
        }
        "env_rms" => {
            let mut d = envelope::Detector::<[f32; 2], _>::rms(ring_buffer::Fixed::from(vec![[0.0f32; 2]; 12]), 3.0, 40.0);
            measure(k, |_| {
                black_box(d.next([r.f() as f32, r.f() as f32]));
            })
        }
        "interp_floor" => {
            let mut src = signal::gen_mut(|| [r.f()]);
            let f = Floor::new(src.next());
            let mut c = src.from_hz_to_hz(f, 44100.0, 48000.0);
            measure(k, |_| {
                black_box(c.next());
            })
        }
        "interp_linear" => {
            let mut x = 0i16;
            let mut src = signal::gen_mut(move || {
                x = x.wrapping_add(77);
                [x, x / 2]
            });
            let l = Linear::new(src.next(), src.next());
            let mut c = src.scale_hz(l, 2.5);
            measure(k, |_| {
                black_box(c.next());
                black_box(c.is_exhausted());
            })
        }
        "interp_sinc_array" => {
            let src = signal::gen_mut(|| [r.f(), r.f()]);
            let s = Sinc::new(ring_buffer::Fixed::from([[0.0f64; 2]; 16]));
            let mut c = src.from_hz_to_hz(s, 48000.0, 44100.0);
            measure(k, |_| {
                black_box(c.next());
            })
        }
        "interp_sinc_vec" => {
            let src = signal::gen_mut(|| r.f() as f32);
            let s = Sinc::new(ring_buffer::Fixed::from(vec![0.0f32; 64]));
            let mut c = src.scale_hz(s, 0.37);
            measure(k, |_| {
                black_box(c.next());
            })
        }
        "conv_mul_hz" => {
            let src = signal::gen_mut(|| [r.f()]);
            let mut m = 0.5f64;
            let ctl = signal::gen_mut(move || {
                m = if m > 3.0 { 0.3 } else { m * 1.01 };
                m
            });
            let mut c = src.mul_hz(Linear::new([0.0], [0.0]), ctl);
            measure(k, |_| {
                black_box(c.next());
            })
        }
        "conv_set_rate" => {
            let src = signal::gen_mut(|| [r.f()]);
            let mut c = src.scale_hz(Floor::new([0.0]), 1.0);
            measure(k, |i| {
                black_box(c.next());
                c.set_playback_hz_scale(0.25 + (i % 9) as f64);
                black_box(c.next());
                c.set_hz_to_hz(44100.0, 8000.0 + (i % 13) as f64 * 1000.0);
                c.set_sample_hz_scale(1.5);
            })
        }
        "window_hann" => {
            let mut w = dasp_signal::window::hann::<[f32; 2]>(64);
            measure(k, |_| {
                black_box(w.next());
            })
        }
        "window_rect" => {
            let mut w = dasp_signal::window::rectangle::<[f64; 1]>(17);
            measure(k, |_| {
                black_box(w.next());
            })
        }
        "windower_hann" => {
            let frames: Vec<[f32; 2]> = (0..200).map(|i| [i as f32 / 200.0, 0.5]).collect();
            measure(k, |i| {
                let wr = Windower::hann(&frames[..], 8 + i % 5, 3 + i % 7);
                black_box(wr.size_hint());
                for chunk in wr {
                    for f in chunk.take(9) {
                        black_box(f);
                    }
                }
            })
        }
        "windower_rect" => {
            let frames: Vec<[i16; 1]> = (0..100).map(|i| [i as i16 * 100]).collect();
            measure(k, |i| {
                let wr = Windower::rectangle(&frames[..], 4 + i % 3, 1 + i % 50);
                for chunk in wr {
                    for f in chunk.take(5) {
                        black_box(f);
                    }
                }
            })
        }
        "src_basic" => {
            let mut e = signal::equilibrium::<[i16; 2]>();
            let mut g = signal::gen(|| [0.5f32]);
            let mut x = 0.0f64;
            let mut gm = signal::gen_mut(move || {
                x += 0.001;
                x
            });
            measure(k, |_| {
                black_box(e.next());
                black_box(g.next());
                black_box(gm.next());
                black_box(e.is_exhausted());
            })
        }
        "src_osc" => {
            let mut a = signal::rate(44100.0).const_hz(440.0).sine();
            let mut b = signal::rate(48000.0).const_hz(52000.0).saw();
            let mut c = signal::rate(8000.0).const_hz(0.5).square();
            let mut d = signal::rate(100.0).const_hz(3.3).noise_simplex();
            let mut p = signal::rate(7.0).const_hz(2.0).phase();
            measure(k, |_| {
                black_box(a.next());
                black_box(b.next());
                black_box(c.next());
                black_box(d.next());
                black_box(p.next());
            })
        }
        "src_hz" => {
            let mut f = 10.0f64;
            let ctl = signal::gen_mut(move || {
                f = if f > 30000.0 { 1.0 } else { f * 1.1 };
                f
            });
            let mut s = signal::rate(44100.0).hz(ctl).sine();
            let ctl2 = signal::gen(|| 100.0f64);
            let mut s2 = signal::rate(44100.0).hz(ctl2).noise_simplex();
            measure(k, |_| {
                black_box(s.next());
                black_box(s2.next());
            })
        }
        "src_noise" => {
            let mut n = signal::noise(seed);
            let mut n2 = signal::noise(u64::MAX - 3);
            measure(k, |_| {
                black_box(n.next());
                black_box(n2.next());
            })
        }
        "src_iter" => {
            let frames: Vec<[i16; 2]> = (0..50).map(|i| [i, -i]).collect();
            let samples: Vec<f32> = (0..101).map(|i| i as f32 / 101.0).collect();
            measure(k, |_| {
                let mut s = signal::from_iter(frames.iter().cloned());
                let mut t = signal::from_interleaved_samples_iter::<_, [f32; 2]>(samples.iter().cloned());
                for _ in 0..60 {
                    black_box(s.next());
                    black_box(t.next());
                    black_box(s.is_exhausted() || t.is_exhausted());
                }
            })
        }
        "adaptors_a" => {
            let a = signal::gen_mut(|| [r.f() / 4.0, r.f() / 4.0]);
            let b = signal::rate(44100.0).const_hz(100.0).sine().map(|s| [s / 4.0, s / 8.0]);
            let mut s = a
                .add_amp(b)
                .scale_amp(0.5)
                .offset_amp(0.01)
                .mul_amp(signal::gen(|| [0.5f64, 0.5]))
                .clip_amp(0.2)
                .inspect(|f| {
                    black_box(f);
                });
            measure(k, |_| {
                black_box(s.next());
                black_box(s.is_exhausted());
            })
        }
        "adaptors_b" => {
            let mut x = 0i16;
            let a = signal::gen_mut(move || {
                x = x.wrapping_add(3);
                [x / 4, x / 8, x / 16]
            });
            let mut s = a
                .offset_amp_per_channel([1i16, 2, 3])
                .scale_amp_per_channel([0.5f32, 0.25, 1.0])
                .zip_map(signal::equilibrium::<[i16; 3]>(), |p, q| p.add_amp(q.to_signed_frame()))
                .clip_amp(1000);
            measure(k, |_| {
                black_box(s.next());
            })
        }
        "adaptors_c" => {
            let a = signal::gen_mut(|| r.f() as f32 / 2.0);
            let mut s = a.map(|s: f32| [s, -s]).scale_amp(0.9).map(|f: [f32; 2]| { let o: [i16; 2] = Frame::map(f, |s: f32| s.to_sample::<i16>()); o });
            measure(k, |_| {
                black_box(s.next());
            })
        }
        "delay_take" => {
            let frames: Vec<[i16; 1]> = (0..40).map(|i| [i]).collect();
            measure(k, |i| {
                let s = signal::from_iter(frames.iter().cloned()).delay(i % 7);
                for f in s.take(10 + i % 40) {
                    black_box(f);
                }
                let s2 = signal::from_iter(frames.iter().cloned()).delay(3);
                for f in s2.until_exhausted() {
                    black_box(f);
                }
            })
        }
        "interleaved" => {
            let frames: Vec<[i16; 3]> = (0..20).map(|i| [i, i + 1, i + 2]).collect();
            measure(k, |_| {
                let s = signal::from_iter(frames.iter().cloned());
                let mut it = s.into_interleaved_samples();
                for _ in 0..70 {
                    black_box(it.next_sample());
                }
                let s2 = signal::from_iter(frames.iter().cloned()).until_exhausted();
                black_box(s2.count());
            })
        }
        "by_ref" => {
            let mut base = signal::gen_mut(|| [r.f()]);
            measure(k, |i| {
                let mut a = base.by_ref().scale_amp(0.5).take(3 + i % 4);
                while let Some(f) = a.next() {
                    black_box(f);
                }
                black_box(base.next());
            })
        }
        "fork_by_ref" => {
            let src = signal::gen_mut(|| [r.f()]);
            let mut fork = src.fork(ring_buffer::Bounded::from([[0.0f64; 1]; 8]));
            measure(k, |i| {
                let (mut a, mut b) = fork.by_ref();
                for _ in 0..(1 + i % 8) {
                    black_box(a.next());
                }
                black_box(b.pending_frames());
                for _ in 0..(1 + i % 8) {
                    black_box(b.next());
                }
                for _ in 0..(i % 5) {
                    black_box(b.next());
                }
                for _ in 0..(i % 5) {
                    black_box(a.next());
                }
            })
        }
        "fork_by_rc_steady" => {
            let src = signal::gen_mut(|| [r.f()]);
            let fork = src.fork(ring_buffer::Bounded::from(vec![[0.0f64; 1]; 8]));
            let (mut a, mut b) = fork.by_rc();
            measure(k, |i| {
                for _ in 0..(1 + i % 8) {
                    black_box(a.next());
                }
                for _ in 0..(1 + i % 8) {
                    black_box(b.next());
                }
                black_box(a.pending_frames() + b.pending_frames());
            })
        }
        "buffered_next" => {
            let src = signal::gen_mut(|| [r.i16()]);
            let mut b = src.buffered(ring_buffer::Bounded::from([[0i16; 1]; 6]));
            measure(k, |_| {
                black_box(b.next());
                black_box(b.is_exhausted());
            })
        }
        "buffered_frames" => {
            let src = signal::gen_mut(|| [r.i16()]);
            let mut b = src.buffered(ring_buffer::Bounded::from(vec![[0i16; 1]; 10]));
            measure(k, |i| {
                for f in b.next_frames().take(i % 12) {
                    black_box(f);
                }
                black_box(b.next());
            })
        }
        "sig_rms" => {
            let src = signal::gen_mut(|| [r.f() as f32, r.f() as f32]);
            let mut s = src.rms(ring_buffer::Fixed::from([[0.0f32; 2]; 20]));
            measure(k, |_| {
                black_box(s.next());
                black_box(s.next_squared());
            })
        }
        "sig_env" => {
            let src = signal::gen_mut(|| [r.f() as f32]);
            let mut s = src.detect_envelope(envelope::Detector::peak(4.0, 30.0));
            measure(k, |i| {
                black_box(s.next());
                if i % 10 == 0 {
                    s.set_attack_frames(i as f32);
                    s.set_release_frames(i as f32 + 1.0);
                }
            })
        }
        "graph_stock" | "graph_small_cap" => {
            type G = petgraph::graph::DiGraph<NodeData<BoxedNode>, ()>;
            let mut g: G = petgraph::graph::DiGraph::with_capacity(16, 32);
            let osc = signal::rate(44100.0).const_hz(220.0).sine().map(|s| [s as f32, s as f32 / 2.0]);
            let n_sig = g.add_node(NodeData::new2(BoxedNode::new(Box::new(osc) as Box<dyn Signal<Frame = [f32; 2]>>)));
            let noise = signal::noise(3).map(|s| [s as f32]);
            let n_sig2 = g.add_node(NodeData::new1(BoxedNode::new(Box::new(noise) as Box<dyn Signal<Frame = [f32; 1]>>)));
            let n_sum = g.add_node(NodeData::new2(BoxedNode::new(node::Sum)));
            let n_sumb = g.add_node(NodeData::new1(BoxedNode::new(node::SumBuffers)));
            let n_pass = g.add_node(NodeData::new2(BoxedNode::new(node::Pass)));
            let delay = node::Delay(vec![ring_buffer::Fixed::from(vec![0.0f32; 100]), ring_buffer::Fixed::from(vec![0.0f32; 7])]);
            let n_delay = g.add_node(NodeData::new2(BoxedNode::new(delay)));
            let n_fn = g.add_node(NodeData::new2(BoxedNode::new(Box::new(
                |inputs: &[node::Input], out: &mut [Buffer]| {
                    for o in out.iter_mut() {
                        o.silence();
                    }
                    black_box(inputs.len());
                },
            ) as Box<dyn FnMut(&[node::Input], &mut [Buffer])>)));
            let n_out = g.add_node(NodeData::new2(BoxedNode::new(node::Sum)));
            g.add_edge(n_sig, n_sum, ());
            g.add_edge(n_sig2, n_sum, ());
            g.add_edge(n_sig, n_sumb, ());
            g.add_edge(n_sum, n_pass, ());
            g.add_edge(n_pass, n_delay, ());
            g.add_edge(n_delay, n_out, ());
            g.add_edge(n_sumb, n_out, ());
            g.add_edge(n_fn, n_out, ());
            g.add_edge(n_sum, n_out, ());
            g.add_edge(n_out, n_fn, ()); // a cycle
            let mut p: Processor<G> = if name == "graph_stock" { Processor::with_capacity(32) } else { Processor::with_capacity(1) };
            let caps0 = p.verif_capacities();
            p.process(&mut g, n_out); // the processor has now processed a graph of this size once
            let caps1 = p.verif_capacities();
            let mut v = measure(k, |i| {
                p.process(&mut g, if i % 3 == 0 { n_pass } else { n_out });
                black_box(g[n_out].buffers[0][i % 64]);
            });
            let caps2 = p.verif_capacities();
            v.extend_from_slice(&[caps0.0 as i64, caps0.1 as i64, caps1.0 as i64, caps1.1 as i64, caps2.0 as i64, caps2.1 as i64]);
            v
        }
        "graph_stable" => {
            type G = petgraph::stable_graph::StableDiGraph<NodeData<BoxedNodeSend>, ()>;
            let mut g: G = petgraph::stable_graph::StableDiGraph::with_capacity(8, 8);
            let a = g.add_node(NodeData::new1(BoxedNodeSend::new(node::SumBuffers)));
            let dead = g.add_node(NodeData::new1(BoxedNodeSend::new(node::Pass)));
            let b = g.add_node(NodeData::new1(BoxedNodeSend::new(node::Pass)));
            let c = g.add_node(NodeData::new1(BoxedNodeSend::new(node::Sum)));
            g.add_edge(a, b, ());
            g.add_edge(b, c, ());
            g.add_edge(a, c, ());
            g.add_edge(dead, c, ());
            g.remove_node(dead);
            let mut p: Processor<G> = Processor::with_capacity(8);
            p.process(&mut g, c);
            measure(k, |_| {
                p.process(&mut g, c);
                black_box(dasp_graph::sources(&&g).count());
                black_box(dasp_graph::sinks(&&g).count());
            })
        }
        "graph_nested" => {
            type Inner = petgraph::graph::DiGraph<NodeData<BoxedNode>, ()>;
            let mut inner: Inner = petgraph::graph::DiGraph::new();
            let i_in = inner.add_node(NodeData::new1(BoxedNode::new(node::Pass)));
            let i_out = inner.add_node(NodeData::new1(BoxedNode::new(node::Sum)));
            inner.add_edge(i_in, i_out, ());
            let gn = node::GraphNode { processor: Processor::with_capacity(4), graph: inner, input_nodes: vec![i_in], output_node: i_out, node_type: std::marker::PhantomData };
            type G = petgraph::graph::DiGraph<NodeData<BoxedNode>, ()>;
            let mut g: G = petgraph::graph::DiGraph::new();
            let a = g.add_node(NodeData::new1(BoxedNode::new(Box::new(signal::noise(5).map(|s| [s as f32])) as Box<dyn Signal<Frame = [f32; 1]>>)));
            let n = g.add_node(NodeData::new1(BoxedNode::new(gn)));
            g.add_edge(a, n, ());
            let mut p: Processor<G> = Processor::with_capacity(4);
            p.process(&mut g, n);
            measure(k, |_| {
                p.process(&mut g, n);
            })
        }
        "bus_lockstep" | "bus_laggard" => {
            let src = signal::gen_mut(|| [r.f()]);
            let bus = src.bus();
            let mut a = bus.send();
            let mut b = bus.send();
            let mut c = bus.send();
            let lag = if name == "bus_laggard" { 5 } else { 0 };
            for _ in 0..lag {
                black_box(a.next());
                black_box(b.next());
            }
            let mut maxb = 0usize;
            let mut v = measure(k, |_| {
                black_box(a.next());
                black_box(b.next());
                black_box(c.next());
                maxb = maxb.max(bus.verif_backlog_len());
                black_box(a.pending_frames() + c.pending_frames());
            });
            v.push(maxb as i64);
            v.push(bus.verif_backlog_len() as i64);
            v
        }
        "boxed_slice_ok" => measure(k, |i| {
            let b: Box<[i16]> = vec![0i16; 6 * (1 + i % 5)].into_boxed_slice();
            let a0 = snap();
            let f: Box<[[i16; 3]]> = slice::to_boxed_frame_slice(b).unwrap();
            let s: Box<[i16]> = slice::to_boxed_sample_slice(f);
            let a1 = snap();
            assert!(a1 == a0, "boxed conversion touched the allocator");
            black_box(s.len());
        }),
        "boxed_slice_forms" => measure(k, |i| {
            // the remaining boxed forms (identity impls, free functions, trait methods): one Vec made by the scenario per
            // iteration, every conversion in between must leave the allocator alone
            use dasp_slice::{FromBoxedFrameSlice, FromBoxedSampleSlice, ToBoxedFrameSlice, ToBoxedSampleSlice};
            let b: Box<[i16]> = vec![0i16; 4 * (1 + i % 5)].into_boxed_slice();
            let a0 = snap();
            let b: Box<[i16]> = slice::from_boxed_sample_slice(b).unwrap();
            let b: Box<[i16]> = ToBoxedSampleSlice::to_boxed_sample_slice(b);
            let f: Box<[[i16; 2]]> = slice::from_boxed_sample_slice(b).unwrap();
            let f: Box<[[i16; 2]]> = slice::from_boxed_frame_slice(f);
            let f: Box<[[i16; 2]]> = ToBoxedFrameSlice::to_boxed_frame_slice(f).unwrap();
            let f: Box<[[i16; 2]]> = FromBoxedFrameSlice::from_boxed_frame_slice(f);
            let s: Box<[i16]> = slice::from_boxed_frame_slice(f);
            let g: Box<[[i16; 4]]> = FromBoxedSampleSlice::from_boxed_sample_slice(s).unwrap();
            let s: Box<[i16]> = g.to_boxed_sample_slice();
            let a1 = snap();
            assert!(a1 == a0, "boxed conversion touched the allocator");
            black_box(s.len());
        }),
        "boxed_slice_fail" => measure(k, |i| {
            let b: Box<[i16]> = vec![0i16; 6 * (1 + i % 5) + 1].into_boxed_slice();
            let f: Option<Box<[[i16; 3]]>> = slice::to_boxed_frame_slice(b);
            black_box(f.is_none());
        }),

        "ring_bounded_index" => {
            let mut rb = ring_buffer::Bounded::from_full(vec![0i32; 6]);
            measure(k, |i| {
                rb[i % 6] = r.next() as i32;
                black_box(rb[(i + 1) % 6]);
                rb.pop();
                rb.push(i as i32);
                let n = rb.len();
                rb[n - 1] += 1;
            })
        }
        "ring_bounded_raw" => {
            let mut store = vec![0i32; 12];
            measure(k, |i| {
                let cap = 1 + i % 12;
                let start = i % cap;
                let len = (i / 3) % (cap + 1);
                let mut rb = ring_buffer::Bounded::from_raw_parts(start, len, &mut store[..cap]);
                black_box(rb.push(i as i32));
                black_box(rb.pop());
                black_box(rb.iter().count());
                let (a, b) = rb.slices();
                black_box(a.len() + b.len());
                let mut fx = ring_buffer::Fixed::from_raw_parts(start, &mut store[..cap]);
                black_box(fx.push(1));
                black_box(fx.iter().count());
            })
        }
        "frame_channels_mut" => measure(k, |i| {
            let mut f = [r.i16(), r.i16(), i as i16];
            for c in f.channels_mut() {
                *c = c.wrapping_add(1);
            }
            black_box(f.channels_ref().count());
            if let Some(c) = f.channel_mut(i % 4) {
                *c = 0;
            }
            black_box(unsafe { *f.channel_unchecked(i % 3) });
            black_box(f);
        }),
        "interp_direct" => {
            use dasp_interpolate::Interpolator;
            let mut fl = Floor::new([0.0f64; 2]);
            let mut li = Linear::new([0i16; 1], [0i16; 1]);
            let mut si = Sinc::new(ring_buffer::Fixed::from([[0.0f32; 1]; 8]));
            measure(k, |i| {
                fl.next_source_frame([r.f(), r.f()]);
                li.next_source_frame([r.i16()]);
                si.next_source_frame([r.f() as f32]);
                let x = (i % 17) as f64 / 17.0;
                black_box(fl.interpolate(x));
                black_box(li.interpolate(x));
                black_box(si.interpolate(x));
                if i % 29 == 0 {
                    fl.reset();
                    li.reset();
                    si.reset();
                }
            })
        }
        "lift" => {
            let frames: Vec<[i16; 1]> = (0..30).map(|i| [i]).collect();
            measure(k, |i| {
                let it = signal::lift(frames.iter().cloned(), |s| s.offset_amp(i as i16 % 5).delay(i % 3));
                black_box(it.count());
            })
        }
        "conv_source_access" => {
            let src = signal::gen_mut(|| [r.f()]);
            let mut c = src.scale_hz(Linear::new([0.0], [0.0]), 0.7);
            measure(k, |_| {
                black_box(c.next());
                black_box(c.source_mut().next());
                black_box(c.source().is_exhausted());
            })
        }
        "rectifier_structs" => {
            use dasp_peak::Rectifier;
            measure(k, |_| {
                let f = [r.i16() / 2, r.i16() / 2];
                black_box(dasp_peak::FullWave.rectify(f));
                black_box(dasp_peak::PositiveHalfWave.rectify(f));
                black_box(dasp_peak::NegativeHalfWave.rectify(f));
            })
        }
        "window_direct" => {
            use dasp_window::Window as WindowFn;
            measure(k, |i| {
                let p = (i % 101) as f64 / 101.0;
                black_box(<dasp_window::Hann as WindowFn<f64>>::window(p));
                black_box(<dasp_window::Rectangle as WindowFn<f64>>::window(p));
                black_box(<dasp_window::Hann as WindowFn<f32>>::window(p as f32));
            })
        }
        "slice_trait_forms" => {
            use dasp_slice::{FromFrameSlice, FromSampleSlice, ToFrameSlice, ToSampleSlice};
            let samples = vec![0.5f32; 60];
            measure(k, |i| {
                let f: Option<&[[f32; 3]]> = FromSampleSlice::from_sample_slice(&samples[..]);
                black_box(f.map(|x| x.len()));
                let f4: Option<&[[f32; 4]]> = (&samples[..(i % 60)]).to_frame_slice();
                if let Some(fr) = f4 {
                    let s: &[f32] = fr.to_sample_slice();
                    black_box(s.len());
                    let s2: &[f32] = FromFrameSlice::from_frame_slice(fr);
                    black_box(s2.len());
                }
            })
        }
        "bus_drop_caught_up" | "bus_drop_laggard" | "bus_reattach" => {
            let src = signal::gen_mut(|| [r.f()]);
            let bus = src.bus();
            let mut a = bus.send();
            let mut b = bus.send();
            let c = bus.send();
            let mut c = Some(c);
            // warm up: everybody pulls some frames
            for _ in 0..8 {
                black_box(a.next());
                black_box(b.next());
                black_box(c.as_mut().unwrap().next());
            }
            match name {
                "bus_drop_caught_up" => {
                    c.take(); // dropped exactly when all outputs have caught up
                }
                "bus_drop_laggard" => {
                    for _ in 0..5 {
                        black_box(a.next());
                        black_box(b.next());
                    }
                    c.take(); // the slowest output is dropped while the backlog holds its frames
                }
                _ => {}
            }
            let mut maxb = 0usize;
            let mut extra: Option<dasp_signal::bus::Output<_>> = None;
            let mut v = measure(k, |i| {
                black_box(a.next());
                black_box(b.next());
                if let Some(cc) = c.as_mut() {
                    black_box(cc.next());
                }
                if name == "bus_reattach" && i % 64 == 0 {
                    // periodically replace an output by a freshly attached one (send/drop allocate by
                    // design; what must stay bounded is the backlog)
                    extra = Some(bus.send());
                }
                if let Some(e) = extra.as_mut() {
                    black_box(e.next());
                }
                maxb = maxb.max(bus.verif_backlog_len());
            });
            v.push(maxb as i64);
            v.push(bus.verif_backlog_len() as i64);
            v
        }
        "graph_fan_in_1500" | "graph_chain_1500" => {
            type G = petgraph::graph::DiGraph<NodeData<BoxedNode>, ()>;
            let n = 1500usize;
            let mut g: G = petgraph::graph::DiGraph::with_capacity(n + 2, n + 2);
            let out = g.add_node(NodeData::new1(BoxedNode::new(node::Sum)));
            let mut prev = out;
            for _ in 0..n {
                let s = g.add_node(NodeData::new1(BoxedNode::new(node::Pass)));
                if name == "graph_fan_in_1500" {
                    g.add_edge(s, out, ());
                } else {
                    g.add_edge(s, prev, ());
                    prev = s;
                }
            }
            let mut p: Processor<G> = Processor::with_capacity(n + 2);
            p.process(&mut g, out);
            let caps1 = p.verif_capacities();
            let mut v = measure(k.min(40), |_| {
                p.process(&mut g, out);
            });
            let caps2 = p.verif_capacities();
            v.extend_from_slice(&[caps1.0 as i64, caps1.1 as i64, caps2.0 as i64, caps2.1 as i64]);
            v
        }
        "graph_alternating_outputs" => {
            // one processor, process calls alternating between a small and a large upstream cone
            type G = petgraph::graph::DiGraph<NodeData<BoxedNode>, ()>;
            let mut g: G = petgraph::graph::DiGraph::new();
            let small = g.add_node(NodeData::new1(BoxedNode::new(node::Sum)));
            let big = g.add_node(NodeData::new1(BoxedNode::new(node::Sum)));
            g.add_edge(small, big, ());
            for _ in 0..40 {
                let s = g.add_node(NodeData::new1(BoxedNode::new(node::Pass)));
                g.add_edge(s, big, ());
            }
            let mut p: Processor<G> = Processor::with_capacity(4);
            p.process(&mut g, big);
            p.process(&mut g, small);
            let caps1 = p.verif_capacities();
            let mut v = measure(k, |i| {
                p.process(&mut g, if i % 2 == 0 { small } else { big });
            });
            let caps2 = p.verif_capacities();
            v.extend_from_slice(&[caps1.0 as i64, caps1.1 as i64, caps2.0 as i64, caps2.1 as i64]);
            v
        }

        "graph_node_shapes" => {
            // every stock node with 0..4 output buffers, mismatched input widths, delay rings of many
            // lengths (below, at and above Buffer::LEN, multiples and non-multiples of it)
            type G = petgraph::graph::DiGraph<NodeData<BoxedNode>, ()>;
            let mut g: G = petgraph::graph::DiGraph::new();
            let mk = |n: usize| vec![Buffer::SILENT; n];
            let src3 = g.add_node(NodeData::new(BoxedNode::new(Box::new(signal::noise(9).map(|s| [s as f32, -s as f32, 0.5f32])) as Box<dyn Signal<Frame = [f32; 3]>>), mk(3)));
            let src1 = g.add_node(NodeData::new1(BoxedNode::new(Box::new(signal::noise(4).map(|s| [s as f32])) as Box<dyn Signal<Frame = [f32; 1]>>)));
            let out = g.add_node(NodeData::new(BoxedNode::new(node::Sum), mk(4)));
            for nbuf in 0..5usize {
                let sb = g.add_node(NodeData::new(BoxedNode::new(node::SumBuffers), mk(nbuf)));
                let su = g.add_node(NodeData::new(BoxedNode::new(node::Sum), mk(nbuf)));
                let pa = g.add_node(NodeData::new(BoxedNode::new(node::Pass), mk(nbuf)));
                for n in [sb, su, pa].iter() {
                    g.add_edge(src3, *n, ());
                    g.add_edge(src1, *n, ());
                    g.add_edge(*n, out, ());
                }
            }
            for len in [1usize, 2, 7, 63, 64, 65, 100, 128, 129, 1000].iter() {
                let d = node::Delay(vec![ring_buffer::Fixed::from(vec![0.0f32; *len]), ring_buffer::Fixed::from(vec![0.0f32; *len + 3])]);
                let dn = g.add_node(NodeData::new2(BoxedNode::new(d)));
                g.add_edge(src3, dn, ());
                g.add_edge(dn, out, ());
            }
            let mut p: Processor<G> = Processor::with_capacity(64);
            p.process(&mut g, out);
            measure(k.min(200), |i| {
                p.process(&mut g, out);
                black_box(g[out].buffers[0][i % 64]);
            })
        }
        // ------------------------------------------------------------------------------------------------
        // round 3: scenarios whose INPUTS are designed per data-dependent branch of the allocation-free
        // surface (every one also runs under each value family).  Extra numbers after the three counters are
        // witnesses: how often the branch the scenario is aimed at was demonstrably taken.
        "rms_clamp" => {
            // wide dynamic range inside one window: while the loud square is in the window the small ones are
            // absorbed by rounding; when it has left, `sum - removed` is negative and next_squared clamps to 0
            let mut a = Rms::<[f32; 1], _>::new(ring_buffer::Fixed::from([[0.0f32; 1]; 4]));
            let mut b = Rms::<[f64; 2], _>::new(ring_buffer::Fixed::from(vec![[0.0f64; 2]; 4]));
            let mut c = Rms::<[i16; 1], _>::new(ring_buffer::Fixed::from([[0.0f32; 1]; 4]));
            const P: [f64; 8] = [1.0e4, 3.0, 1.0, 1.0, 0.0, 0.0, 0.5, 0.25];
            const PI16: [i16; 8] = [32767, 3, 1, 1, 0, 0, 100, -32768];
            let mut hist = [[0.0f64; 3]; 4];
            let mut wit = [0i64; 3];
            let mut v = measure(k, |i| {
                let g = 1.0 + ((i / 8) % 3) as f64;
                let noise = if i % 64 >= 48 { r.f() } else { 0.0 }; // a stretch of family-driven input between patterns
                let x = P[i % 8] * g + noise;
                let xb = if P[i % 8] == 1.0e4 { 2.0e8 * g } else { x };
                let xc = if i % 64 >= 48 { r.i16() } else { PI16[i % 8] };
                let ya = a.next_squared([x as f32]);
                let yb = b.next([xb, P[(i + 3) % 8] * g]);
                let yc = c.next([xc]);
                hist[i % 4] = [x, xb, xc as f64];
                for (j, y) in [ya[0] as f64, yb[0], yc[0] as f64].iter().enumerate() {
                    if *y == 0.0 && hist.iter().any(|h| h[j] != 0.0 && h[j].is_finite() && h[j].abs() > 1e-18) {
                        wit[j] += 1;
                    }
                }
                black_box((a.current(), b.current(), c.current(), a.window_frames()));
                if i % 257 == 0 {
                    a.reset();
                    b.reset();
                }
            });
            v.extend_from_slice(&wit);
            v
        }
        "rms_clamp_adaptors" => {
            // the same input shape through every route that reaches Rms::next_squared: signal.rms(), Detector::rms,
            // signal.detect_envelope(Detector::rms(..)); is_exhausted of the adaptors
            const P: [f32; 8] = [1.0e4, 3.0, 1.0, 1.0, 0.0, 0.0, 0.5, 0.25];
            let mut n = 0usize;
            let mut src = signal::gen_mut(move || {
                n += 1;
                [P[(n - 1) % 8] * (1 + ((n - 1) / 8) % 3) as f32]
            });
            let mut s1 = src.by_ref().rms(ring_buffer::Fixed::from([[0.0f32; 1]; 4]));
            let mut d = envelope::Detector::<[f32; 1], _>::rms(ring_buffer::Fixed::from(vec![[0.0f32; 1]; 4]), 0.0, 2.0);
            let mut m = 0usize;
            let src2 = signal::gen_mut(move || {
                m += 1;
                [P[(m - 1) % 8] as f64 * 2.0e4, r.f()]
            });
            let mut s3 = src2.detect_envelope(envelope::Detector::rms(ring_buffer::Fixed::from([[0.0f64; 2]; 4]), 1.0, 0.0));
            let mut wit = 0i64;
            let mut v = measure(k, |i| {
                let y = if i % 2 == 0 { s1.next() } else { s1.next_squared() };
                if y[0] == 0.0 && i % 8 != 4 {
                    wit += 1;
                }
                black_box(d.next([P[i % 8] * (1 + (i / 8) % 3) as f32]));
                black_box(s3.next());
                black_box((s1.is_exhausted(), s3.is_exhausted()));
            });
            v.push(wit);
            v
        }
        "env_attack_release" => {
            // rising then falling levels: the attack gain and the release gain are both used, with zero and
            // non-zero frame counts, for every rectifier and for float and integer frames
            let mut d1 = envelope::Detector::<[f32; 2], _>::peak(5.0, 20.0);
            let mut d2 = envelope::Detector::<[i16; 1], _>::peak_positive_half_wave(0.0, 3.0);
            let mut d3 = envelope::Detector::<[f64; 1], _>::peak_negative_half_wave(2.0, 0.0);
            let mut d4 = envelope::Detector::<[i32; 1], _>::peak_from_rectifier(dasp_peak::FullWave, 1.0, 1.0);
            let mut d5 = envelope::Detector::<[f32; 1], envelope::detect::Peak<dasp_peak::PositiveHalfWave>>::new(envelope::detect::Peak::positive_half_wave(), 7.0, 7.0);
            let (mut up, mut down, mut last) = (0i64, 0i64, 0.0f32);
            let mut v = measure(k, |i| {
                let t = i % 80;
                let level = if t < 20 { t as f32 / 20.0 } else if t < 40 { 1.0 } else if t < 60 { (60 - t) as f32 / 20.0 } else { 0.0 };
                let x = level * if i % 2 == 0 { 1.0 } else { -1.0 } + 0.01 * r.f() as f32;
                let e = d1.next([x, -x]);
                if e[0] > last {
                    up += 1;
                } else if e[0] < last {
                    down += 1;
                }
                last = e[0];
                black_box(d2.next([(level * 30000.0) as i16 - (r.i16() / 64).max(0)]));
                black_box(d3.next([-(level as f64) + 0.001 * r.f()]));
                black_box(d4.next([((level * 1.0e9) as i32).wrapping_add(r.i16() as i32)]));
                black_box(d5.next([x]));
                if i % 160 == 0 {
                    d1.set_attack_frames(if i % 320 == 0 { 0.0 } else { 3.0 });
                    d1.set_release_frames(if i % 480 == 0 { 0.0 } else { 9.0 });
                }
            });
            v.push(up);
            v.push(down);
            v
        }
        "conv_ratio_steps" => {
            // ratios above 1 (several source frames consumed per output frame), exactly 1, far below 1 (no
            // source frame for many outputs), each interpolator; the constructors and setters not used elsewhere
            use dasp_signal::interpolate::Converter;
            let mut base = signal::gen_mut(|| [r.f()]);
            let mut pulls = 0i64;
            let mut v = measure(k, |i| {
                let ratio = [3.7, 1.0, 0.001, 17.0, 0.999_999, 2.0][i % 6];
                let mut c1 = Converter::scale_playback_hz(base.by_ref(), Linear::new([0.0], [0.0]), ratio);
                for _ in 0..6 {
                    black_box(c1.next());
                }
                black_box(c1.verif_interpolation_value());
                black_box(c1.into_source().next());
                let mut c2 = Converter::scale_sample_hz(base.by_ref(), Floor::new([0.0]), ratio);
                for j in 0..6 {
                    black_box(c2.next());
                    if j == 2 {
                        c2.set_sample_hz_scale(0.3 + (i % 5) as f64);
                    }
                }
                let mut c3 = Converter::from_hz_to_hz(base.by_ref(), Sinc::new(ring_buffer::Fixed::from([[0.0f64; 1]; 6])), 44100.0 * ratio, 44100.0);
                for _ in 0..6 {
                    black_box(c3.next());
                }
                black_box(c3.is_exhausted());
                pulls += 1;
            });
            v.push(pulls);
            v
        }
        "conv_exhaustion" => {
            // finite sources behind every interpolator, pulled well past the end; is_exhausted with the source
            // exhausted and the accumulator below / above one; mul_hz with a finite control signal
            let frames: Vec<[f64; 1]> = (0..20).map(|i| [i as f64 / 20.0]).collect();
            let ctl: Vec<f64> = (0..25).map(|i| 0.25 + (i % 7) as f64 * 0.5).collect();
            let (mut ex, mut notex) = (0i64, 0i64);
            let mut v = measure(k, |i| {
                let ratio = [0.5, 1.0, 2.5, 0.07][i % 4];
                let mut a = signal::from_iter(frames.iter().cloned()).scale_hz(Linear::new([0.0], [0.0]), ratio);
                let mut b = signal::from_iter(frames.iter().cloned()).scale_hz(Floor::new([r.f()]), ratio);
                let mut c = signal::from_iter(frames.iter().cloned()).scale_hz(Sinc::new(ring_buffer::Fixed::from([[0.0f64; 1]; 8])), ratio);
                let mut m = signal::from_iter(frames.iter().cloned()).mul_hz(Linear::new([0.0], [0.0]), signal::from_iter(ctl.iter().cloned()));
                for _ in 0..60 {
                    black_box((a.next(), b.next(), c.next(), m.next()));
                    if a.is_exhausted() {
                        ex += 1;
                    } else {
                        notex += 1;
                    }
                    black_box((b.is_exhausted(), c.is_exhausted(), m.is_exhausted()));
                }
                let u = signal::from_iter(frames.iter().cloned()).scale_hz(Linear::new([0.0], [0.0]), ratio).until_exhausted();
                black_box(u.count());
            });
            v.push(ex);
            v.push(notex);
            v
        }
        "sinc_priming" => {
            // interpolate on a fresh, a partly primed and a fully primed sinc ring of several depths (even lengths:
            // an odd length is a documented panic of Sinc::new), at x = 0 and x = 1 exactly (the sin(a)/a limit arms) and in between; reset
            use dasp_interpolate::Interpolator;
            fn go<S>(si: &mut Sinc<S>, i: usize, r: &mut R)
            where
                S: ring_buffer::SliceMut<Element = [f32; 2]>,
            {
                for step in 0..(i % 23) {
                    let x = match (i + step) % 5 {
                        0 => 0.0,
                        1 => 1.0,
                        2 => 0.5,
                        _ => (r.unit() + 1.0) / 2.0,
                    };
                    black_box(si.interpolate(x));
                    si.next_source_frame([r.f() as f32, r.f() as f32]);
                }
                black_box(si.interpolate(0.0));
                black_box(si.interpolate(1.0));
                if i % 3 == 0 {
                    si.reset();
                }
            }
            let mut s2 = Sinc::new(ring_buffer::Fixed::from([[0.0f32; 2]; 2]));
            let mut s3 = Sinc::new(ring_buffer::Fixed::from([[0.0f32; 2]; 4]));
            let mut s8 = Sinc::new(ring_buffer::Fixed::from(vec![[0.0f32; 2]; 8]));
            let mut s17 = Sinc::new(ring_buffer::Fixed::from(vec![[0.0f32; 2]; 18]));
            measure(k, |i| {
                go(&mut s2, i, &mut r);
                go(&mut s3, i, &mut r);
                go(&mut s8, i, &mut r);
                go(&mut s17, i, &mut r);
                // a fresh one on the stack: nothing primed at all
                let mut fresh = Sinc::new(ring_buffer::Fixed::from([[0.0f32; 2]; 10]));
                go(&mut fresh, i % 7, &mut r);
            })
        }
        "clip_both_sides" => {
            // clip_amp with inputs above the threshold, below minus the threshold and in between, for float, signed
            // and unsigned frames
            let a = signal::gen_mut(|| [r.unit(), -r.unit()]);
            let mut ca = a.clip_amp(0.3);
            let mut x = 0i16;
            let b = signal::gen_mut(move || {
                x = x.wrapping_mul(31).wrapping_add(12345);
                [x]
            });
            let mut cb = b.clip_amp(1000);
            let mut y = 0u8;
            let c = signal::gen_mut(move || {
                y = y.wrapping_mul(13).wrapping_add(71);
                [y, 255 - y]
            });
            let mut cc = c.clip_amp(50i8);
            let mut r2 = R::new(seed + 77, fam);
            let mut cd = signal::gen_mut(move || [r2.f()]).clip_amp(0.5);
            let mut wit = [0i64; 3];
            let mut v = measure(k, |_| {
                let f = ca.next();
                for s in f.iter() {
                    if *s == 0.3 {
                        wit[0] += 1;
                    } else if *s == -0.3 {
                        wit[1] += 1;
                    } else {
                        wit[2] += 1;
                    }
                }
                let g = cb.next();
                if g[0] == 1000 {
                    wit[0] += 1;
                } else if g[0] == -1000 {
                    wit[1] += 1;
                } else {
                    wit[2] += 1;
                }
                black_box(cc.next());
                black_box(cd.next());
                black_box((ca.is_exhausted(), cb.is_exhausted()));
            });
            v.extend_from_slice(&wit);
            v
        }
        "bounded_full_wrap" => {
            // a Bounded ring driven through empty / partly filled / full states many times round the storage: push on
            // full (evicts), pop on empty, get / get_mut beyond len, drain with its size hint, raw parts
            fn go<S>(rb: &mut ring_buffer::Bounded<S>, i: usize, r: &mut R, wit: &mut [i64; 4])
            where
                S: ring_buffer::SliceMut<Element = i32>,
            {
                let n = rb.max_len();
                let phase = (i / (2 * n + 3)) % 3;
                match phase {
                    0 => {
                        if rb.push(r.next() as i32).is_some() {
                            wit[0] += 1; // push on a full ring evicted the oldest
                        }
                    }
                    1 => {
                        if rb.pop().is_none() {
                            wit[1] += 1; // pop on an empty ring
                        }
                    }
                    _ => {
                        if i % 2 == 0 {
                            black_box(rb.push(i as i32));
                        } else {
                            black_box(rb.pop());
                        }
                    }
                }
                for idx in [0, rb.len() / 2, rb.len(), rb.len() + 1, n, usize::MAX].iter() {
                    if rb.get(*idx).is_none() {
                        wit[2] += 1;
                    }
                    match rb.get_mut(*idx) {
                        Some(x) => *x = x.wrapping_add(1),
                        None => wit[3] += 1,
                    }
                }
                black_box((rb.is_full(), rb.is_empty(), rb.len()));
                if i % 13 == 0 {
                    let mut d = rb.drain();
                    black_box((d.size_hint(), d.len()));
                    black_box(d.next());
                    black_box(d.len());
                    black_box(d.count());
                }
                let (a, b) = rb.slices();
                black_box(a.len() + b.len());
                black_box(rb.iter().rev().next().cloned());
            }
            let mut a = ring_buffer::Bounded::from([0i32; 5]);
            let mut b = ring_buffer::Bounded::from(vec![0i32; 1]);
            let mut c = ring_buffer::Bounded::from_full(vec![0i32; 8].into_boxed_slice());
            let mut store = [0i32; 6];
            let ro = [1i32, 2, 3, 4, 5, 6, 7];
            let mut wit = [0i64; 4];
            let mut v = measure(k, |i| {
                go(&mut a, i, &mut r, &mut wit);
                go(&mut b, i, &mut r, &mut wit);
                go(&mut c, i, &mut r, &mut wit);
                // raw parts round trips (the unsafe constructors with arguments that satisfy their contract)
                let len = i % 7;
                let start = i % 6;
                let mut d = unsafe { ring_buffer::Bounded::from_raw_parts_unchecked(start, len, &mut store[..]) };
                go(&mut d, i, &mut r, &mut wit);
                let (s0, l0, _) = unsafe { d.into_raw_parts() };
                black_box((s0, l0));
                let fx = unsafe { ring_buffer::Fixed::from_raw_parts_unchecked(i % 6, &mut store[..]) };
                black_box(fx.iter().count());
                let (first, st) = fx.into_raw_parts();
                black_box((first, st.len()));
                // read-only storage (&[T]): the operations that do not need SliceMut
                let rd = ring_buffer::Bounded::from_raw_parts(i % 7, (i / 7) % 8, &ro[..]);
                black_box((rd.len(), rd.get(i % 9).cloned(), rd.iter().count(), rd.slices().0.len(), if rd.len() > 0 { rd[rd.len() - 1] } else { 0 }));
                let rf = ring_buffer::Fixed::from_raw_parts(i % 7, &ro[..]);
                black_box((rf.len(), *rf.get(i), rf.iter().count(), rf.slices().1.len(), rf[i % 7]));
            });
            v.extend_from_slice(&wit);
            v
        }
        "bus_catch_up" => {
            // three outputs with different and changing lags; the laggard catches up in bursts.  The first (warm-up)
            // round reaches the largest lag, so the backlog storage never has to grow afterwards
            let src = signal::gen_mut(|| [r.f()]);
            let bus = src.bus();
            let mut a = bus.send();
            let mut b = bus.send();
            let mut c = bus.send();
            let mut maxb = 0usize;
            let mut exq = 0i64;
            let mut v = measure(k, |i| {
                let lag = if i == 0 { 12 } else { 1 + i % 12 };
                for _ in 0..lag {
                    black_box(a.next());
                }
                maxb = maxb.max(bus.verif_backlog_len());
                for _ in 0..lag / 2 {
                    black_box(b.next());
                }
                black_box((a.pending_frames(), b.pending_frames(), c.pending_frames()));
                for _ in 0..lag {
                    black_box(c.next());
                }
                for _ in 0..(lag - lag / 2) {
                    black_box(b.next());
                }
                if !a.is_exhausted() && !c.is_exhausted() {
                    exq += 1;
                }
            });
            v.push(maxb as i64);
            v.push(bus.verif_backlog_len() as i64);
            v.push(exq);
            v
        }
        "bus_finite_source" => {
            // a bus over a finite source pulled past its end: is_exhausted with and without pending frames
            let frames: Vec<[i16; 1]> = (0..30).map(|i| [i]).collect();
            let bus = signal::from_iter(frames.iter().cloned()).bus();
            let mut a = bus.send();
            let mut b = bus.send();
            for _ in 0..4 {
                black_box(a.next());
            }
            let mut maxb = 0usize;
            let mut ex = 0i64;
            let mut v = measure(k, |i| {
                black_box(a.next());
                if a.is_exhausted() {
                    ex += 1;
                }
                black_box(b.is_exhausted());
                black_box(b.next());
                if i % 5 == 0 {
                    black_box(b.pending_frames());
                }
                maxb = maxb.max(bus.verif_backlog_len());
            });
            v.push(maxb as i64);
            v.push(bus.verif_backlog_len() as i64);
            v.push(ex);
            v
        }
        "windower_edges" => {
            // bin / hop combinations at the edges of the chunk schedule: a partial last chunk (dropped), bin equal
            // to and above the number of frames, hop zero (endless), hop beyond the end; size_hint in each state
            let frames: Vec<[f32; 1]> = (0..37).map(|i| [i as f32 / 37.0]).collect();
            let frames16: Vec<[i16; 2]> = (0..16).map(|i| [i * 100, -i * 100]).collect();
            let mut wit = [0i64; 3];
            let mut v = measure(k, |i| {
                let n = 1 + i % 37;
                let fr = &frames[..n];
                for (bin, hop) in [(5usize, 3usize), (n, 1), (n + 1, 1), (4, 0), (3, n + 5), (1, 1), (7, 7), (n.max(2) - 1, 2)].iter() {
                    let mut w = Windower::hann(fr, *bin, *hop);
                    let h = w.size_hint();
                    if h.1.is_none() {
                        wit[0] += 1; // hop == 0
                    }
                    if h == (0, Some(0)) {
                        wit[1] += 1; // no chunk fits
                    }
                    let mut chunks = 0usize;
                    while let Some(chunk) = w.next() {
                        chunks += 1;
                        black_box(chunk.take(*bin + 2).count()); // a chunk is an endless iterator (the window phase cycles)
                        black_box(w.size_hint());
                        if chunks >= 40 {
                            break;
                        }
                    }
                    if *hop > 0 && h.1 == Some(chunks) {
                        wit[2] += 1; // the hint was exact
                    }
                }
                let w2 = Windower::rectangle(&frames16[..(i % 17)], 1 + i % 6, i % 4);
                black_box(w2.size_hint());
                for chunk in w2.take(6) {
                    black_box(chunk.take(9).last());
                }
                let mut wn = dasp_signal::window::Window::<[f64; 2], dasp_window::Hann>::new(1 + i % 9);
                black_box((wn.next(), wn.next(), wn.nth(i % 20)));
            });
            v.extend_from_slice(&wit);
            v
        }
        "graph_node_edge_cases" => {
            // a delay node with no input, self-loop edges (skipped as inputs), nodes made with NodeData::boxed /
            // boxed1 / boxed2, the Node impls for &mut T, Box<T>, fn pointers and boxed closures, delay rings wrapping
            type G = petgraph::graph::DiGraph<NodeData<BoxedNode>, ()>;
            fn silence_fn(_inputs: &[node::Input], out: &mut [Buffer]) {
                for o in out.iter_mut() {
                    o.silence();
                }
            }
            let mut g: G = petgraph::graph::DiGraph::new();
            let lonely_delay = g.add_node(NodeData::boxed2(node::Delay(vec![ring_buffer::Fixed::from(vec![0.0f32; 5]); 2])));
            let src = g.add_node(NodeData::boxed1(Box::new(signal::noise(11).map(|s| [s as f32])) as Box<dyn Signal<Frame = [f32; 1]>>));
            let dl = g.add_node(NodeData::boxed(node::Delay(vec![ring_buffer::Fixed::from([0.0f32; 3])]), vec![Buffer::SILENT; 1]));
            let dl_many = g.add_node(NodeData::boxed(node::Delay(vec![ring_buffer::Fixed::from([0.0f32; 70]); 4]), vec![Buffer::SILENT; 2]));
            let fp = g.add_node(NodeData::boxed1(silence_fn as fn(&[node::Input], &mut [Buffer])));
            let bx = g.add_node(NodeData::boxed1(Box::new(node::Pass)));
            let dynfn = g.add_node(NodeData::new1(BoxedNode(Box::new(Box::new(|_: &[node::Input], out: &mut [Buffer]| {
                for o in out.iter_mut() {
                    o.silence();
                }
            }) as Box<dyn Fn(&[node::Input], &mut [Buffer])>))));
            let mut wi = StackW { buf: [0; 2048], n: 0 };
            let dbg = g.add_node(NodeData::new1(BoxedNode::new(Box::new(move |inputs: &[node::Input], out: &mut [Buffer]| {
                use std::fmt::Write;
                wi.n = 0;
                let _ = write!(wi, "{:?}", inputs.get(0)); // Debug of an Input exists only inside a process call
                out[0][0] = wi.n as f32;
            }) as Box<dyn FnMut(&[node::Input], &mut [Buffer])>)));
            let out = g.add_node(NodeData::boxed2(node::Sum));
            g.add_edge(src, dbg, ());
            let mut send_node = BoxedNodeSend::new(node::Pass);
            for n in [lonely_delay, dl, dl_many, fp, bx, dynfn, dbg].iter() {
                g.add_edge(*n, out, ());
            }
            g.add_edge(src, dl, ());
            g.add_edge(src, dl_many, ());
            g.add_edge(src, bx, ());
            g.add_edge(out, out, ()); // self loops
            g.add_edge(dl, dl, ());
            g.add_edge(dl, dl, ());
            let mut p: Processor<G> = Processor::with_capacity(g.node_count());
            p.process(&mut g, out);
            let mut pass = node::Pass;
            let mut sum = node::Sum;
            let mut bufs = [Buffer::SILENT, Buffer::default()];
            let mut w = StackW { buf: [0; 2048], n: 0 };
            let mut v = measure(k.min(300), |i| {
                p.process(&mut g, if i % 4 == 0 { dl } else { out });
                dasp_graph::process(&mut p, &mut g, lonely_delay);
                // nodes called directly, through the reference / box impls, with no inputs
                {
                    use dasp_graph::Node;
                    let mut rp: &mut dyn Node = &mut pass;
                    Node::process(&mut rp, &[], &mut bufs[..]);
                    let mut rs = &mut sum;
                    Node::process(&mut rs, &[], &mut bufs[..1]);
                    g[bx].node.process(&[], &mut bufs[..]);
                    use std::ops::{Deref, DerefMut};
                    black_box(g[out].node.deref() as *const _);
                    g[fp].node.deref_mut().process(&[], &mut bufs[..]);
                    black_box(send_node.deref() as *const _);
                    send_node.deref_mut().process(&[], &mut bufs[..]);
                    // a boxed zero-sized node owns no heap block: converting it into the bare box and dropping that is free
                    let b1: Box<dyn Node> = BoxedNode::new(node::Pass).into();
                    let b2: Box<dyn Node + Send> = BoxedNodeSend::new(node::Sum).into();
                    black_box((&*b1 as *const dyn Node, &*b2 as *const (dyn Node + Send)));
                }
                bufs[0][i % Buffer::LEN] = i as f32;
                black_box((bufs[0] == bufs[1], bufs[1] == Buffer::SILENT, bufs[0].len()));
                bufs[0].silence();
                if i % 50 == 0 {
                    use std::fmt::Write;
                    w.n = 0;
                    let _ = write!(w, "{:?} {:?}", g[out].node, &bufs[1][..4]);
                    black_box(w.n);
                }
            });
            v.push(w.n as i64);
            v
        }
        "osc_shapes" => {
            // saw and square from a frequency SIGNAL (Hz), square in both half periods, phase wrapped to other
            // moduli, negative and above-rate frequencies, Hz / ConstHz used as signals, a finite control signal
            use dasp_signal::Step;
            let ctl: Vec<f64> = (0..40).map(|i| 50.0 + 400.0 * i as f64).collect();
            let mut f = 20.0f64;
            let mut sq = signal::rate(1000.0).hz(signal::gen_mut(move || {
                f = if f > 900.0 { -300.0 } else { f + 37.5 };
                f
            })).square();
            let mut sw = signal::rate(1000.0).hz(signal::gen(|| 123.0f64)).saw();
            let mut csq = signal::rate(64.0).const_hz(3.0).square();
            let mut csw = signal::rate(64.0).const_hz(-5.0).saw();
            let mut hz_sig = signal::rate(8.0).hz(signal::gen(|| 2.0f64));
            let mut chz_sig = signal::rate(8.0).const_hz(3.0);
            let mut ph = signal::rate(10.0).const_hz(3.0).phase();
            let mut ph2 = signal::phase(signal::rate(10.0).hz(signal::gen_mut(|| r.unit() * 20.0)));
            let (mut hi, mut lo) = (0i64, 0i64);
            let mut v = measure(k, |i| {
                for s in [sq.next(), csq.next()].iter() {
                    if *s > 0.0 {
                        hi += 1;
                    } else {
                        lo += 1;
                    }
                }
                black_box((sw.next(), csw.next()));
                black_box((Signal::next(&mut hz_sig), Signal::next(&mut chz_sig), hz_sig.is_exhausted(), chz_sig.is_exhausted(), hz_sig.step(), chz_sig.step()));
                black_box((ph.next_phase_wrapped_to(0.25 + (i % 7) as f64), ph.next_phase(), ph2.next(), ph2.next_phase_wrapped_to(2.0)));
                // a finite control signal behind every oscillator, pulled past its end
                if i % 100 == 0 {
                    let mut s1 = signal::rate(44100.0).hz(signal::from_iter(ctl.iter().cloned())).sine();
                    let mut s2 = signal::rate(44100.0).hz(signal::from_iter(ctl.iter().cloned())).noise_simplex();
                    let mut h = signal::rate(44100.0).hz(signal::from_iter(ctl.iter().cloned()));
                    for _ in 0..50 {
                        black_box((s1.next(), s2.next(), s1.is_exhausted(), Signal::next(&mut h), h.is_exhausted()));
                    }
                }
            });
            v.push(hi);
            v.push(lo);
            v
        }
        "exhaustion_queries" => {
            // is_exhausted of every adaptor, on sources that do and do not end, before and after the end; pulling
            // past the end
            let fr: Vec<[i16; 2]> = (0..12).map(|i| [i * 10, -i * 10]).collect();
            let (mut t, mut f) = (0i64, 0i64);
            let mut v = measure(k, |i| {
                let n = 1 + i % 12;
                let mk = || signal::from_iter(fr[..n].iter().cloned());
                let mut base = mk();
                let mut s1 = mk().scale_amp_per_channel([0.5f32, 0.25]);
                let mut s2 = mk().offset_amp_per_channel([1i16, -1]);
                let mut s3 = mk().zip_map(signal::equilibrium::<[i16; 2]>(), |a, b| a.add_amp(b));
                let mut s4 = signal::equilibrium::<[i16; 2]>().zip_map(mk(), |a, b| a.add_amp(b));
                let mut s5 = mk().add_amp(mk().delay(3));
                let mut s6 = mk().mul_amp(signal::gen(|| [0.5f32, 0.5])).offset_amp(2).scale_amp(0.5).inspect(|f| {
                    black_box(f);
                });
                let mut s7 = mk().delay(2 + i % 3);
                let mut s8 = mk().map(|f| f).clip_amp(100);
                let mut s9 = mk().take(5);
                black_box((s9.size_hint(), s9.len()));
                for _ in 0..16 {
                    let e = [base.by_ref().is_exhausted(), s1.is_exhausted(), s2.is_exhausted(), s3.is_exhausted(), s4.is_exhausted(), s5.is_exhausted(), s6.is_exhausted(), s7.is_exhausted(), s8.is_exhausted()];
                    for x in e.iter() {
                        if *x {
                            t += 1;
                        } else {
                            f += 1;
                        }
                    }
                    black_box((base.by_ref().next(), s1.next(), s2.next(), s3.next(), s4.next(), s5.next(), s6.next(), s7.next(), s8.next(), s9.next(), s9.len()));
                }
                // interleaved samples: iterator form, clones, a trailing partial frame
                let samples = [1i16, 2, 3, 4, 5, 6, 7];
                let mut fi = signal::from_interleaved_samples_iter::<_, [i16; 3]>(samples.iter().cloned());
                for _ in 0..4 {
                    black_box((fi.is_exhausted(), fi.next()));
                }
                let il = mk().into_interleaved_samples();
                let mut il2 = il.clone();
                black_box(il2.next_sample());
                let it = il.into_iter();
                let it2 = it.clone();
                black_box(it.count() + it2.take(3).count());
            });
            v.push(t);
            v.push(f);
            v
        }
        "consume_parts" => {
            // the consuming accessors: into_parts / into_source / into_raw_parts on stack-backed instances built and
            // taken apart inside the measured loop (construction on arrays needs no heap either)
            let mut base = signal::gen_mut(|| [r.f() as f32]);
            measure(k, |i| {
                let mut rm = Rms::<[f32; 1], _>::new(ring_buffer::Fixed::from([[0.0f32; 1]; 6]));
                rm.next([i as f32]);
                let (win, sum) = rm.into_parts();
                black_box((win.len(), sum));
                let mut sr = base.by_ref().rms(ring_buffer::Fixed::from([[0.0f32; 1]; 3]));
                black_box(sr.next());
                let (_s, inner) = sr.into_parts();
                black_box(inner.current());
                let mut se = base.by_ref().detect_envelope(envelope::Detector::peak(1.0, 2.0));
                black_box(se.next());
                let (_s, mut det) = se.into_parts();
                black_box(det.next([0.5]));
                let mut bf = base.by_ref().buffered(ring_buffer::Bounded::from([[0.0f32; 1]; 4]));
                black_box(bf.next());
                let (_s, rb) = bf.into_parts();
                black_box(rb.len());
                let mut fk = base.by_ref().fork(ring_buffer::Bounded::from([[0.0f32; 1]; 4]));
                {
                    let (mut a, mut b) = fk.by_ref();
                    black_box((a.next(), a.next(), b.pending_frames(), a.pending_frames(), b.next(), b.next(), b.next(), a.pending_frames(), b.pending_frames(), a.next()));
                }
                let bx = ring_buffer::Bounded::from([0u8; 3]);
                black_box(bx.max_len());
                let fxd = ring_buffer::Fixed::from([1u8, 2, 3]);
                let (first, arr) = fxd.into_raw_parts();
                black_box((first, arr));
            })
        }
        "fork_rc_schedules" => {
            // reference-counted branches (made before the measured part) pulled in every relative order: each branch
            // leads, catches up, drains the other's backlog exactly and overtakes
            let src = signal::gen_mut(|| [r.f()]);
            let (mut a, mut b) = src.fork(ring_buffer::Bounded::from([[0.0f64; 1]; 8])).by_rc();
            let mut wit = [0i64; 2];
            let mut v = measure(k, |i| {
                let (x, y) = (1 + i % 8, 1 + (i / 8) % 8);
                if i % 2 == 0 {
                    for _ in 0..x {
                        black_box(a.next());
                    }
                    if b.pending_frames() > 0 {
                        wit[0] += 1;
                    }
                    for _ in 0..(x + y % 3) {
                        black_box(b.next());
                    }
                } else {
                    for _ in 0..y {
                        black_box(b.next());
                    }
                    if a.pending_frames() > 0 {
                        wit[1] += 1;
                    }
                    for _ in 0..(y + x % 3) {
                        black_box(a.next());
                    }
                }
                black_box((a.pending_frames(), b.pending_frames()));
            });
            v.extend_from_slice(&wit);
            v
        }
        "slice_all_forms" => {
            // every free function and trait form of the borrowed-slice conversions, with lengths that do and do not
            // divide into frames
            use dasp_slice::{FromFrameSliceMut, FromSampleSlice, FromSampleSliceMut, ToFrameSliceMut, ToSampleSlice, ToSampleSliceMut};
            let mut samples = vec![0i32; 48];
            let mut okc = 0i64;
            let mut v = measure(k, |i| {
                let n = i % 49;
                samples[i % 48] = r.next() as i32;
                {
                    let s = &samples[..n];
                    let a: Option<&[[i32; 4]]> = slice::from_sample_slice(s);
                    let b: Option<&[i32]> = slice::from_sample_slice(s);
                    let c: Option<&[i32]> = FromSampleSlice::from_sample_slice(s);
                    let d: &[i32] = ToSampleSlice::to_sample_slice(s);
                    let e: &[i32] = slice::to_sample_slice(s);
                    if a.is_some() {
                        okc += 1;
                    }
                    black_box((a.map(|x| x.len()), b.map(|x| x.len()), c.map(|x| x.len()), d.len(), e.len()));
                }
                {
                    let a: Option<&mut [[i32; 3]]> = slice::from_sample_slice_mut(&mut samples[..n]);
                    if let Some(fr) = a {
                        if let Some(f0) = fr.get_mut(0) {
                            f0[0] = 1;
                        }
                        let back: &mut [i32] = slice::to_sample_slice_mut(fr);
                        black_box(back.len());
                    }
                    let b: Option<&mut [i32]> = FromSampleSliceMut::from_sample_slice_mut(&mut samples[..n]);
                    black_box(b.map(|x| x.len()));
                    let c: &mut [i32] = ToSampleSliceMut::to_sample_slice_mut(&mut samples[..n]);
                    black_box(c.len());
                    let d: &mut [i32] = slice::to_sample_slice_mut(&mut samples[..n]);
                    black_box(d.len());
                    let e: Option<&mut [[i32; 2]]> = (&mut samples[..n]).to_frame_slice_mut();
                    if let Some(fr) = e {
                        let s2: &mut [i32] = FromFrameSliceMut::from_frame_slice_mut(fr);
                        black_box(s2.len());
                    }
                    let f: Option<&mut [[i32; 6]]> = slice::to_frame_slice_mut(&mut samples[..n]);
                    if let Some(fr) = f {
                        let s3: &mut [i32] = slice::from_frame_slice_mut(fr);
                        black_box(s3.len());
                        let s4: &[i32] = slice::from_frame_slice(&fr[..]);
                        black_box(s4.len());
                        // the identity forms (&[F] <-> &[F])
                        {
                            use dasp_slice::{FromFrameSlice, ToFrameSlice};
                            let id1: &[[i32; 6]] = slice::from_frame_slice(&fr[..]);
                            let id2: &[[i32; 6]] = FromFrameSlice::from_frame_slice(id1);
                            let id3: Option<&[[i32; 6]]> = ToFrameSlice::to_frame_slice(id2);
                            black_box(id3.map(|x| x.len()));
                        }
                        let id4: &mut [[i32; 6]] = slice::from_frame_slice_mut(&mut fr[..]);
                        let id5: &mut [[i32; 6]] = FromFrameSliceMut::from_frame_slice_mut(id4);
                        let id6: Option<&mut [[i32; 6]]> = ToFrameSliceMut::to_frame_slice_mut(id5);
                        black_box(id6.map(|x| x.len()));
                    }
                }
            });
            v.push(okc);
            v
        }
        "frame_iters_mono" => {
            // the channel iterators from both ends with their length reports; every Frame method on mono (bare
            // sample) frames; from_samples with too few samples
            let mut short = 0i64;
            let mut v = measure(k, |i| {
                let mut f = [r.i16(), r.i16(), r.i16(), i as i16];
                {
                    let mut c = f.channels();
                    black_box((c.len(), c.next(), c.len(), c.size_hint()));
                    let mut cr = f.channels_ref();
                    black_box((cr.len(), cr.size_hint(), cr.next_back().cloned(), cr.next().cloned(), cr.len()));
                }
                {
                    let mut cm = f.channels_mut();
                    black_box((cm.len(), cm.size_hint()));
                    if let Some(x) = cm.next_back() {
                        *x = 7;
                    }
                    if let Some(x) = cm.next() {
                        *x = 9;
                    }
                    black_box(cm.len());
                }
                unsafe {
                    *f.channel_unchecked_mut(i % 4) = 3;
                }
                let few = [1i16, 2, 3];
                if <[i16; 4]>::from_samples(&mut few[..(i % 4)].iter().cloned()).is_none() {
                    short += 1;
                }
                black_box(<[i16; 3]>::from_samples(&mut few.iter().cloned()));
                // mono frames
                let m: f64 = r.unit();
                let q: i16 = r.i16() / 4;
                black_box((m.channels().count(), m.channels_ref().count(), m.channel(0).cloned(), m.channel(1).cloned(), <f64 as Frame>::from_fn(|_| 0.5)));
                let mut mm = m;
                for c in mm.channels_mut() {
                    *c = 0.25;
                }
                if let Some(c) = mm.channel_mut(0) {
                    *c = 0.125;
                }
                black_box(mm.channel_mut(1).is_none());
                unsafe {
                    *mm.channel_unchecked_mut(0) += 0.5;
                    black_box(*mm.channel_unchecked(0));
                }
                black_box((<f64 as Frame>::from_samples(&mut [0.5f64].iter().cloned()), <f64 as Frame>::from_samples(&mut few[..0].iter().map(|x| *x as f64))));
                black_box((q.to_signed_frame(), q.to_float_frame(), m.to_signed_frame(), m.to_float_frame()));
                let mapped: f32 = Frame::map(q, |s: i16| s.to_sample::<f32>());
                let zipped: i16 = Frame::zip_map(q, 3i16, |a, b| a / 2 + b);
                black_box((mapped, zipped, Frame::scale_amp(q, 0.5), Frame::offset_amp(q, 3), Frame::add_amp(q, 5i16), Frame::mul_amp(q, 0.25f32)));
                black_box((Frame::scale_amp(m, 0.5), Frame::offset_amp(m, 0.25), Frame::add_amp(m, 0.5f64), Frame::mul_amp(m, 0.25f64), <f64 as Frame>::EQUILIBRIUM));
                let wide = <[u8; 32]>::from_fn(|c| c as u8 * 8);
                black_box((wide.to_signed_frame(), wide.to_float_frame(), wide.channels().len()));
            });
            v.push(short);
            v
        }
        "sample_all_formats" => {
            // every ordered pair of the 14 sample formats, from family-driven values (floats clamped into the
            // documented conversion domain [-1, 1) before a float -> integer conversion; anything goes float -> float)
            use dasp_sample::{I48, U48};
            macro_rules! to_all {
                ($s:expr) => {{
                    let s = $s;
                    black_box((s.to_sample::<i8>(), s.to_sample::<i16>(), s.to_sample::<I24>(), s.to_sample::<i32>(), s.to_sample::<I48>(), s.to_sample::<i64>()));
                    black_box((s.to_sample::<u8>(), s.to_sample::<u16>(), s.to_sample::<U24>(), s.to_sample::<u32>(), s.to_sample::<U48>(), s.to_sample::<u64>()));
                    black_box((s.to_sample::<f32>(), s.to_sample::<f64>(), s.to_signed_sample(), s.to_float_sample()));
                }};
            }
            macro_rules! from_all {
                ($x:expr; $($S:ty)*) => { $( to_all!($x.to_sample::<$S>()); )* };
            }
            measure(k, |_| {
                let x = r.i16();
                from_all!(x; i8 i16 I24 i32 I48 i64 u8 u16 U24 u32 U48 u64 f32 f64);
                let raw = r.f();
                let d = if raw.is_nan() { 0.0 } else { raw.max(-1.0).min(0.999_999_9) };
                to_all!(d);
                to_all!(d as f32);
                black_box((raw.to_sample::<f32>(), (raw as f32).to_sample::<f64>(), raw.to_float_sample(), raw.to_signed_sample()));
                use dasp_sample::FloatSample;
                black_box((raw.abs().sample_sqrt(), (raw as f32).abs().sample_sqrt(), raw.sample_sqrt(), <f64 as FloatSample>::IDENTITY));
                black_box((Sample::mul_amp(x / 2, raw as f32), Sample::add_amp(d, raw), Sample::mul_amp(raw, raw)));
            })
        }
        "custom_int_types" => {
            // arithmetic and conversions of the non-std integer sample types on operands that stay in range
            use dasp_sample::types::{I11, I20, U11, U20};
            use dasp_sample::{I48, U48};
            macro_rules! ops {
                ($T:ident, $rep:ty, $a:expr, $b:expr) => {{
                    let a = $T::new($a as $rep).unwrap();
                    let b = $T::new($b as $rep).unwrap();
                    black_box((a + b, a - b, a * b, a / b, a % b, a & b, a | b, a ^ b, a << b, a >> b, (!a).inner(), a.inner(), a < b, a == b));
                    black_box(($T::from(($a as $rep).wrapping_mul(1021)), $T::new(<$rep>::MAX).is_none(), $T::new_unchecked($b as $rep), $T::default()));
                }};
            }
            measure(k, |i| {
                let a = 8 + (r.next() % 20) as i64;
                let b = 1 + (i % 3) as i64;
                ops!(I11, i16, a, b);
                ops!(U11, i16, a, b);
                ops!(I20, i32, a * 7, b);
                ops!(U20, i32, a * 7, b);
                ops!(I24, i32, a * 101, b);
                ops!(U24, i32, a * 101, b);
                ops!(I48, i64, a * 100_003, b);
                ops!(U48, i64, a * 100_003, b);
                ops!(I24, i32, -a * 101, b);
                ops!(I48, i64, -a * 100_003, b);
                black_box((-I11::new(a as i16).unwrap(), -I24::new(a as i32).unwrap(), -I48::new(-a).unwrap()));
                black_box((I20::from(I11::new(5).unwrap()), I24::from(I20::new(9).unwrap()), I48::from(I24::new(-3).unwrap()), U24::from(U20::new(4).unwrap()), U48::from(U24::new(6).unwrap()), I48::from(i32::MIN), U48::from(u32::MAX), I24::from(i16::MIN), U24::from(255u8)));
                black_box((I24::from(i32::MIN + i as i32), I24::from(i32::MAX - i as i32), U24::from(-5 - i as i32), I48::from(i64::MIN / 4), I11::from(-30000i16), U11::from(-1i16), I20::from(-(1 << 24)), U20::from(-3)));
            })
        }
        "debug_fmt" => {
            // Debug output of the API's own types into a stack buffer
            use std::fmt::Write;
            let rms = Rms::<[f32; 2], _>::new(ring_buffer::Fixed::from([[0.0f32; 2]; 3]));
            let det = envelope::Detector::<[f32; 1], _>::peak(1.0, 2.0);
            let bounded = ring_buffer::Bounded::from([0i16; 4]);
            let fixed = ring_buffer::Fixed::from(vec![0i16; 4]);
            let boxed = BoxedNode::new(node::Pass);
            let boxed_send = BoxedNodeSend::new(node::Sum);
            let buf = Buffer::SILENT;
            let mut w = StackW { buf: [0; 2048], n: 0 };
            let mut v = measure(k.min(200), |i| {
                w.n = 0;
                let _ = write!(w, "{:?}{:?}{:?}{:?}", rms, det, bounded, fixed);
                let _ = write!(w, "{:?}{:?}{:?}{:?}", boxed, boxed_send, &buf[..(i % 8)], node::Pass);
                if i % 4 == 0 {
                    w.n = 0;
                    let _ = write!(w, "{:?}", buf);
                }
                let _ = write!(w, "{:?}{:?}{:?}{:?}", I24::new(i as i32), dasp_peak::FullWave, node::Sum, node::SumBuffers);
                black_box(w.n);
            });
            v.push(w.n as i64);
            v
        }
        "size_sweep" => {
            // the stateful objects over heap-backed storage (made before the measured part) of many sizes, 1 .. 65537 and
            // around the powers of two in between: no size threshold in that range goes unvisited
            use dasp_interpolate::Interpolator;
            const SIZES: [usize; 17] = [1, 2, 3, 4, 7, 8, 9, 16, 31, 64, 255, 256, 257, 1024, 1025, 4097, 65537];
            let mut rmss: Vec<_> = SIZES.iter().map(|n| Rms::<[f32; 1], _>::new(ring_buffer::Fixed::from(vec![[0.0f32; 1]; *n]))).collect();
            let mut sincs: Vec<_> = SIZES.iter().filter(|n| **n <= 1025).map(|n| Sinc::new(ring_buffer::Fixed::from(vec![[0.0f32; 1]; 2 * *n]))).collect();
            let mut bnds: Vec<_> = SIZES.iter().map(|n| ring_buffer::Bounded::from(vec![0i32; *n])).collect();
            let mut fxds: Vec<_> = SIZES.iter().map(|n| ring_buffer::Fixed::from(vec![0i32; *n])).collect();
            let mut bufd: Vec<_> = SIZES
                .iter()
                .map(|n| {
                    let mut c = 0u32;
                    signal::gen_mut(move || {
                        c = c.wrapping_add(1);
                        [c as f32]
                    })
                    .buffered(ring_buffer::Bounded::from(vec![[0.0f32; 1]; *n]))
                })
                .collect();
            let mut forks: Vec<_> = SIZES
                .iter()
                .map(|n| {
                    let mut c = 0u32;
                    signal::gen_mut(move || {
                        c = c.wrapping_add(3);
                        [c as f32]
                    })
                    .fork(ring_buffer::Bounded::from(vec![[0.0f32; 1]; *n]))
                })
                .collect();
            let mut delays: Vec<_> = SIZES.iter().map(|n| signal::gen(|| [0.25f32]).delay(*n)).collect();
            let mut wins: Vec<_> = SIZES.iter().map(|n| dasp_signal::window::hann::<[f32; 1]>(*n)).collect();
            let frames: Vec<[f32; 1]> = (0..70000).map(|i| [(i % 100) as f32 / 100.0]).collect();
            let mut envs: Vec<_> = SIZES.iter().map(|n| envelope::Detector::<[f32; 1], _>::rms(ring_buffer::Fixed::from(vec![[0.0f32; 1]; *n]), *n as f32, 2.0 * *n as f32)).collect();
            measure(k.min(20000), |i| {
                let x = r.f() as f32;
                for (j, n) in SIZES.iter().enumerate() {
                    black_box(rmss[j].next([x]));
                    black_box(envs[j].next([x]));
                    black_box(bnds[j].push(i as i32));
                    if i % 3 == 0 {
                        black_box(bnds[j].pop());
                    }
                    black_box(fxds[j].push(i as i32));
                    black_box((bufd[j].next(), delays[j].next(), wins[j].next()));
                    {
                        let (mut a, mut b) = forks[j].by_ref();
                        let m = 1 + i % 3;
                        for _ in 0..m {
                            black_box(a.next());
                        }
                        for _ in 0..m {
                            black_box(b.next());
                        }
                    }
                    if i % 64 == j {
                        bnds[j].extend(0..(*n as i32 + 3));
                        fxds[j].extend(0..(*n as i32 + 3));
                        black_box(bnds[j].drain().count());
                        rmss[j].reset();
                        let mut w = Windower::hann(&frames[..], *n, *n);
                        black_box(w.size_hint());
                        if let Some(chunk) = w.next() {
                            black_box(chunk.take(3).count());
                        }
                        black_box(w.next().is_some());
                    }
                }
                for (j, si) in sincs.iter_mut().enumerate() {
                    si.next_source_frame([x]);
                    if i % 16 == j {
                        black_box(si.interpolate((i % 7) as f64 / 7.0));
                    }
                }
            })
        }
        _ => vec![-1],
    }
}

fn bounded_ops<S>(rb: &mut ring_buffer::Bounded<S>, i: usize, r: &mut R)
where
    S: ring_buffer::SliceMut<Element = i32>,
{
    black_box(rb.push(r.next() as i32));
    black_box(rb.push(i as i32));
    if i % 3 == 0 {
        black_box(rb.pop());
    }
    black_box(rb.get(i % 4).cloned());
    if let Some(x) = rb.get_mut(0) {
        *x += 1;
    }
    black_box(rb.iter().count());
    for x in rb.iter_mut() {
        *x ^= 1;
    }
    let (a, b) = rb.slices();
    black_box(a.len() + b.len());
    let (a, b) = rb.slices_mut();
    black_box(a.len() + b.len());
    if i % 11 == 0 {
        black_box(rb.drain().take(2).count());
    }
    if i % 17 == 0 {
        rb.extend([1, 2, 3].iter().cloned());
        let n = rb.max_len() as i32;
        rb.extend(0..(2 * n + 3));
        rb.extend((0..(n + 2)).filter(|x| x % 2 == 0));
    }
    black_box((rb.len(), rb.is_empty(), rb.is_full(), rb.max_len()));
}

fn fixed_ops<S>(rb: &mut ring_buffer::Fixed<S>, i: usize, r: &mut R)
where
    S: ring_buffer::SliceMut<Element = i32>,
{
    black_box(rb.push(r.next() as i32));
    black_box(*rb.get(i));
    *rb.get_mut(i + 1) = 3;
    rb[2] = rb[0] + 1;
    if i % 5 == 0 {
        rb.set_first(i);
    }
    black_box(rb.iter().count());
    black_box(rb.iter_loop().take(20).count());
    for x in rb.iter_mut() {
        *x ^= 1;
    }
    let (a, b) = rb.slices();
    black_box(a.len() + b.len());
    rb.extend([1, 2].iter().cloned());
    // more items than slots, from iterators with exact, inexact and absent size hints
    let n = rb.len() as i32;
    rb.extend(0..(2 * n + 3));
    rb.extend((0..(n + 2)).filter(|x| x % 2 == 0));
    rb.extend(std::iter::repeat(7).take(rb.len() + 1));
    black_box(rb.len());
}

macro_rules! caps_case {
    ($gty:ty, $stable:tt, $cap0:expr, $ops:expr) => {{
        let ops: &Vec<Vec<&str>> = $ops;
        let mut g: $gty = <$gty>::default();
        let mut p: Processor<$gty> = Processor::with_capacity($cap0);
        let mut out: Vec<String> = Vec::new();
        for op in ops {
            let a: Vec<usize> = op[1..].iter().map(|t| t.parse().unwrap()).collect();
            match op[0] {
                "N" => {
                    g.add_node(NodeData::new1(BoxedNode::new(node::Pass)));
                }
                "E" => {
                    g.add_edge(petgraph::graph::NodeIndex::new(a[0]), petgraph::graph::NodeIndex::new(a[1]), ());
                }
                "R" => {
                    caps_case!(@remove $stable, g, a[0]);
                }
                "P" => {
                    let before = snap();
                    p.process(&mut g, petgraph::graph::NodeIndex::new(a[0]));
                    let after = snap();
                    let c = p.verif_capacities();
                    out.push(join(&[
                        c.0 as i64,
                        c.1 as i64,
                        (after.0 - before.0 + after.1 - before.1) as i64,
                        (after.2 - before.2) as i64,
                    ]));
                }
                other => panic!("unknown op {}", other),
            }
        }
        out.join(";")
    }};
    (@remove true, $g:ident, $a:expr) => {
        $g.remove_node(petgraph::graph::NodeIndex::new($a));
    };
    (@remove false, $g:ident, $a:expr) => {{
        let _ = $a;
        panic!("R is only supported on StableGraph")
    }};
}

fn caps_line(line: &str) -> String {
    let mut parts = line.splitn(2, ';');
    let head: Vec<&str> = parts.next().unwrap().split_whitespace().collect();
    let cap0: usize = head[2].parse().unwrap();
    let ops: Vec<Vec<&str>> = parts
        .next()
        .unwrap_or("")
        .split(',')
        .map(|o| o.split_whitespace().collect::<Vec<_>>())
        .filter(|o| !o.is_empty())
        .collect();
    type PG = petgraph::graph::DiGraph<NodeData<BoxedNode>, ()>;
    type SG = petgraph::stable_graph::StableDiGraph<NodeData<BoxedNode>, ()>;
    match head[1] {
        "G" => caps_case!(PG, false, cap0, &ops),
        "S" => caps_case!(SG, true, cap0, &ops),
        other => panic!("unknown graph kind {}", other),
    }
}

fn main() {
    serve(|line| {
        let t: Vec<&str> = line.split_whitespace().collect();
        if t[0] == "list" {
            return NAMES.join(" ");
        }
        if t[0] == "caps" {
            return caps_line(line);
        }
        let k: usize = t[1].parse().unwrap();
        let seed: u64 = t[2].parse().unwrap();
        let fam: u8 = if t.len() > 3 { t[3].parse().unwrap() } else { 0 };
        let v = run(t[0], k, seed, fam);
        join(&v)
    });
}
