//! Shared plumbing of the correspondence harness: one case per input line, one
//! observation line per case, panics caught and mapped to a small enum.
use std::any::Any;
use std::io::{self, BufRead, Write};
use std::panic::{self, AssertUnwindSafe};

/// 1 overflow, 2 index/slice bounds, 3 assert, 4 expect/unwrap, 5 division by zero, 9 other
pub fn panic_code(p: &Box<dyn Any + Send>) -> i64 {
    let msg: String = if let Some(s) = p.downcast_ref::<&str>() {
        s.to_string()
    } else if let Some(s) = p.downcast_ref::<String>() {
        s.clone()
    } else {
        String::new()
    };
    classify(&msg)
}

pub fn classify(msg: &str) -> i64 {
    if msg.contains("overflow") {
        1
    } else if msg.contains("divisor of zero") || msg.contains("divide by zero") {
        5
    } else if msg.contains("assertion") {
        3
    } else if msg.contains("index out of range") || msg.contains("called `Option::unwrap()`") || msg.contains("called `Result::unwrap()`") {
        4
    } else if msg.contains("out of bounds") || msg.contains("out of range") || msg.contains("mid > len") || msg.contains("range end index") || msg.contains("range start index") {
        2
    } else {
        9
    }
}

pub fn catch<T>(f: impl FnOnce() -> T) -> Result<T, i64> {
    panic::catch_unwind(AssertUnwindSafe(f)).map_err(|p| panic_code(&p))
}

pub fn quiet_panics() {
    panic::set_hook(Box::new(|_| {}));
}

/// Runs `f` on every stdin line; writes what it returns, one line per case.
pub fn serve(mut f: impl FnMut(&str) -> String) {
    quiet_panics();
    let stdin = io::stdin();
    let stdout = io::stdout();
    let mut out = io::BufWriter::new(stdout.lock());
    for line in stdin.lock().lines() {
        let line = line.unwrap();
        let r = match panic::catch_unwind(AssertUnwindSafe(|| f(&line))) {
            Ok(s) => s,
            Err(p) => format!("HARNESS-PANIC {}", panic_code(&p)),
        };
        writeln!(out, "{}", r).unwrap();
    }
    out.flush().unwrap();
}

pub fn ints(s: &str) -> Vec<i64> {
    s.split_whitespace().map(|t| t.parse::<i64>().expect("int token")).collect()
}

pub fn join(v: &[i64]) -> String {
    v.iter().map(|x| x.to_string()).collect::<Vec<_>>().join(" ")
}

pub fn obs(tag: i64, payload: &[i64]) -> String {
    if payload.is_empty() {
        tag.to_string()
    } else {
        format!("{} {}", tag, join(payload))
    }
}
