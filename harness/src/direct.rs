//! The module-level conversion functions `dasp_sample::conv::<src>::to_<dst>` (one of the three observation points the
//! properties C01 / C02 name) behind one trait, so that the generic runners of c01.rs / c02.rs can call them next to the
//! trait dispatch.  Included by path (`#[path = "../direct.rs"] mod direct;`) from the binaries that use it.
//! The diagonal has no module function (`conv::i8` has no `to_i8`): there `direct` is the identity, a filler that is
//! never compared with anything but the trait path's own result.
use dasp_sample::conv;
use dasp_sample::{I24, I48, U24, U48};

pub trait Direct<D> {
    fn direct(self) -> D;
}

macro_rules! direct {
    ($S:ty, $m:ident => $($D:ty : $f:ident),* $(,)?) => {
        impl Direct<$S> for $S { #[inline] fn direct(self) -> $S { self } }
        $( impl Direct<$D> for $S { #[inline] fn direct(self) -> $D { conv::$m::$f(self) } } )*
    };
}

direct!(i8, i8 => i16: to_i16, I24: to_i24, i32: to_i32, I48: to_i48, i64: to_i64, u8: to_u8, u16: to_u16, U24: to_u24, u32: to_u32, U48: to_u48, u64: to_u64, f32: to_f32, f64: to_f64);
direct!(i16, i16 => i8: to_i8, I24: to_i24, i32: to_i32, I48: to_i48, i64: to_i64, u8: to_u8, u16: to_u16, U24: to_u24, u32: to_u32, U48: to_u48, u64: to_u64, f32: to_f32, f64: to_f64);
direct!(I24, i24 => i8: to_i8, i16: to_i16, i32: to_i32, I48: to_i48, i64: to_i64, u8: to_u8, u16: to_u16, U24: to_u24, u32: to_u32, U48: to_u48, u64: to_u64, f32: to_f32, f64: to_f64);
direct!(i32, i32 => i8: to_i8, i16: to_i16, I24: to_i24, I48: to_i48, i64: to_i64, u8: to_u8, u16: to_u16, U24: to_u24, u32: to_u32, U48: to_u48, u64: to_u64, f32: to_f32, f64: to_f64);
direct!(I48, i48 => i8: to_i8, i16: to_i16, I24: to_i24, i32: to_i32, i64: to_i64, u8: to_u8, u16: to_u16, U24: to_u24, u32: to_u32, U48: to_u48, u64: to_u64, f32: to_f32, f64: to_f64);
direct!(i64, i64 => i8: to_i8, i16: to_i16, I24: to_i24, i32: to_i32, I48: to_i48, u8: to_u8, u16: to_u16, U24: to_u24, u32: to_u32, U48: to_u48, u64: to_u64, f32: to_f32, f64: to_f64);
direct!(u8, u8 => i8: to_i8, i16: to_i16, I24: to_i24, i32: to_i32, I48: to_i48, i64: to_i64, u16: to_u16, U24: to_u24, u32: to_u32, U48: to_u48, u64: to_u64, f32: to_f32, f64: to_f64);
direct!(u16, u16 => i8: to_i8, i16: to_i16, I24: to_i24, i32: to_i32, I48: to_i48, i64: to_i64, u8: to_u8, U24: to_u24, u32: to_u32, U48: to_u48, u64: to_u64, f32: to_f32, f64: to_f64);
direct!(U24, u24 => i8: to_i8, i16: to_i16, I24: to_i24, i32: to_i32, I48: to_i48, i64: to_i64, u8: to_u8, u16: to_u16, u32: to_u32, U48: to_u48, u64: to_u64, f32: to_f32, f64: to_f64);
direct!(u32, u32 => i8: to_i8, i16: to_i16, I24: to_i24, i32: to_i32, I48: to_i48, i64: to_i64, u8: to_u8, u16: to_u16, U24: to_u24, U48: to_u48, u64: to_u64, f32: to_f32, f64: to_f64);
direct!(U48, u48 => i8: to_i8, i16: to_i16, I24: to_i24, i32: to_i32, I48: to_i48, i64: to_i64, u8: to_u8, u16: to_u16, U24: to_u24, u32: to_u32, u64: to_u64, f32: to_f32, f64: to_f64);
direct!(u64, u64 => i8: to_i8, i16: to_i16, I24: to_i24, i32: to_i32, I48: to_i48, i64: to_i64, u8: to_u8, u16: to_u16, U24: to_u24, u32: to_u32, U48: to_u48, f32: to_f32, f64: to_f64);
direct!(f32, f32 => i8: to_i8, i16: to_i16, I24: to_i24, i32: to_i32, I48: to_i48, i64: to_i64, u8: to_u8, u16: to_u16, U24: to_u24, u32: to_u32, U48: to_u48, u64: to_u64, f64: to_f64);
direct!(f64, f64 => i8: to_i8, i16: to_i16, I24: to_i24, i32: to_i32, I48: to_i48, i64: to_i64, u8: to_u8, u16: to_u16, U24: to_u24, u32: to_u32, U48: to_u48, u64: to_u64, f32: to_f32);
