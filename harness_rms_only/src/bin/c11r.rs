//! C11 feature-wiring probe: dasp_rms with its DEFAULT features as the only source of
//! dasp_sample/std (see ../../Cargo.toml).  Same `R` / `P` line protocol as harness/src/bin/c11.rs;
//! must behave as the std build (probe prints `6 0`).
#[allow(dead_code)]
#[path = "../../../harness/src/lib.rs"]
mod plumbing;
use plumbing::*;

include!("../../../harness/src/c11_body.rs");

fn main() {
    serve(|line| if line.starts_with('P') { run_probe() } else { run_r(line) });
}
