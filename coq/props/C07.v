(* C07 — No heap allocation in steady state.  The part that is logic (sizes of storage,
   capacity of the processor's vectors); allocator behaviour itself is observed by the
   harness (counting GlobalAlloc), not proved.  Only property theorems here. *)
Require Import List Arith Permutation.
From Dasp Require Import Base.Res Ring.Bounded Ring.BoundedSpec Ring.BoundedProofs
  Ring.Fixed Ring.FixedSpec Ring.FixedProofs Alloc.Caps
  Signal.Bus Signal.BusSpec Alloc.BusBacklog
  Graph.Dfs Graph.Process Graph.ProcessSpec Graph.ProcessProofs Alloc.ProcessorCaps
  Alloc.CapsDfs Alloc.CapsDfsProofs Alloc.CapsDfsExamples.
Import ListNotations.

(* user-supplied (possibly heap-backed) ring-buffer storage is never resized, by any history *)
Theorem c07_bounded_storage_const : forall (A : Type) (ops : list (BoundedSpec.op A)) (b : bounded A), BoundedSpec.Inv b ->
  exists b' vs, BoundedSpec.run b ops = Ok (b', vs) /\ length (data b') = length (data b).
Proof. exact @bounded_storage_const. Qed.
Print Assumptions c07_bounded_storage_const.

Theorem c07_fixed_storage_const : forall (A : Type) (ops : list (fop A)) (f : fixed A), InvF f ->
  exists f' vs, frun f ops = Ok (f', vs) /\ length (fdata f') = length (fdata f).
Proof. exact @fixed_storage_const. Qed.
Print Assumptions c07_fixed_storage_const.

(* a growable vector driven by a push/pop/clear script does not reallocate when its
   capacity covers the script's high-water mark *)
Theorem c07_vec_no_realloc : forall (ops : list vop) (v : vec), vlen v <= vcap v ->
  high_water (vlen v) ops <= vcap v ->
  snd (vrun v ops) = 0 /\ vcap (fst (vrun v ops)) = vcap v /\ vlen (fst (vrun v ops)) <= vcap v.
Proof. exact vrun_no_realloc. Qed.
Print Assumptions c07_vec_no_realloc.

(* steady state: once a traversal script has run once, running the same script again
   (after the clear that `reset` performs) performs no reallocation and leaves capacities unchanged *)
Theorem c07_vec_steady : forall (ops : list vop) (v : vec), vlen v <= vcap v ->
  let v1 := fst (vrun (vclear v) ops) in
  snd (vrun (vclear v1) ops) = 0 /\ vcap (fst (vrun (vclear v1) ops)) = vcap v1.
Proof. exact vrun_steady. Qed.
Print Assumptions c07_vec_steady.

(* ---- the bus (documented exception: it owns a growable backlog) ---- *)

(* the backlog is exactly as long as the maximum lag over the live outputs (0 if none): it
   holds only what laggards still need, so it is bounded by any bound on the lag *)
Theorem c07_bus_backlog_le_max_lag :
  forall (F : Type) (f : nat -> F) (ops : list Bus.op) (s : @Bus.st F) (tr : list (@Bus.ev F)),
  Bus.run f ops Bus.init = Ok (s, tr) ->
  (forall L : nat,
     (forall k a : nat, is_live s k -> In (ESend k a) tr -> pulled s - (a + received k tr) <= L) ->
     length (buf s) <= L) /\
  length (buf s) = max_lag s /\
  (forall k : nat, is_live s k -> exists n : nat, pending_frames s k = Ok n /\ In n (lags s)).
Proof. exact @bus_backlog_le_max_lag. Qed.
Print Assumptions c07_bus_backlog_le_max_lag.

(* "the backlog stops growing once its outputs are pulled in step": under lock-step pulling
   (rounds of one next per live output in any order; sends, drops and pending queries only
   between rounds) the backlog is empty at every round boundary and never longer than one frame,
   for any number of rounds and outputs *)
Theorem c07_bus_lockstep_backlog_le_1 :
  forall (F : Type) (f : nat -> F) (s : @Bus.st F) (phs : list phase),
  Inv f s -> caught_up s ->
  lockstep (nk s) (keys (fr s)) phs ->
  (forall phs1 phs2 : list phase, phs = phs1 ++ phs2 ->
     exists (s1 : @Bus.st F) (tr1 : list (@Bus.ev F)),
       Bus.run f (flat phs1) s = Ok (s1, tr1) /\ caught_up s1 /\ buf s1 = []) /\
  (forall pre post : list op, flat phs = pre ++ post ->
     exists (s1 : @Bus.st F) (tr1 : list (@Bus.ev F)),
       Bus.run f pre s = Ok (s1, tr1) /\ length (buf s1) <= 1).
Proof. exact @bus_lockstep_backlog_le_1. Qed.
Print Assumptions c07_bus_lockstep_backlog_le_1.

(* ---- the graph processor: its two vectors, driven by the C09 traversal model ---- *)

(* the push/pop/clear scripts one process call applies to the DFS stack and to the inputs
   vector depend on the graph and the output node only, not on the processor's prior state *)
Theorem c07_processor_scripts_indep : forall (W B : Type) (bufs : W -> B) (nproc : W -> list B -> W)
  (p1 p2 : processor) (g : graph W) (out : nat), wf g -> live g out = true ->
  process_ops bufs nproc p1 g out = process_ops bufs nproc p2 g out.
Proof. exact @process_ops_indep. Qed.
Print Assumptions c07_processor_scripts_indep.

(* the scripts are faithful to the traversal model *)
Theorem c07_processor_scripts_faithful : forall (W B : Type) (bufs : W -> B) (nproc : W -> list B -> W)
  (p : processor) (g : graph W) (out : nat) p' g' log,
  process bufs nproc p g out = Ok (p', g', log) ->
  (forall l0, len_after l0 (fst (process_ops bufs nproc p g out)) = length (stack (dfs p'))) /\
  snd (process_ops bufs nproc p g out) = inputs_script log.
Proof. exact @process_ops_faithful. Qed.
Print Assumptions c07_processor_scripts_faithful.

(* "allocates nothing once a processor has processed a graph of that size once": after ONE call
   (vectors of any capacity, processor in any state) every further call on the same graph and
   output node reallocates neither vector and leaves both capacities unchanged - every
   multigraph, no size bound *)
Theorem c07_processor_steady : forall (W B : Type) (bufs : W -> B) (nproc : W -> list B -> W)
  (p0 : processor) (ps : list processor) (g : graph W) (out : nat) (vs vi : vec),
  wf g -> live g out = true -> vlen vs <= vcap vs -> vlen vi <= vcap vi ->
  let vs1 := fst (vrun vs (fst (process_ops bufs nproc p0 g out))) in
  let vi1 := fst (vrun vi (snd (process_ops bufs nproc p0 g out))) in
  snd (vrun vs1 (stack_calls bufs nproc ps g out)) = 0 /\
  vcap (fst (vrun vs1 (stack_calls bufs nproc ps g out))) = vcap vs1 /\
  snd (vrun vi1 (inputs_calls bufs nproc ps g out)) = 0 /\
  vcap (fst (vrun vi1 (inputs_calls bufs nproc ps g out))) = vcap vi1.
Proof. exact @processor_steady. Qed.
Print Assumptions c07_processor_steady.

(* high-water marks: the stack needs at most 1 + |V| + |E| entries (a node can be stacked once
   per incoming edge), the inputs vector at most the maximum in-degree *)
Theorem c07_stack_high_water : forall (W B : Type) (bufs : W -> B) (nproc : W -> list B -> W)
  (p : processor) (g : graph W) (out : nat), wf g -> live g out = true ->
  high_water 0 (fst (process_ops bufs nproc p g out)) < fuel_of g /\
  high_water 0 (fst (process_ops bufs nproc p g out)) <= 1 + length (slots g) + length (edges g).
Proof. exact @stack_high_water. Qed.
Print Assumptions c07_stack_high_water.

Theorem c07_inputs_high_water : forall (W B : Type) (bufs : W -> B) (nproc : W -> list B -> W)
  (p : processor) (g : graph W) (out : nat), wf g -> live g out = true ->
  high_water 0 (snd (process_ops bufs nproc p g out)) <= max_in_degree g.
Proof. exact @inputs_high_water. Qed.
Print Assumptions c07_inputs_high_water.

(* Processor::with_capacity(n) with n covering those marks never reallocates at all *)
Theorem c07_with_capacity_no_realloc : forall (W B : Type) (bufs : W -> B) (nproc : W -> list B -> W)
  (ps : list processor) (g : graph W) (out n : nat),
  wf g -> live g out = true -> fuel_of g <= S n -> max_in_degree g <= n ->
  snd (vrun {| vlen := 0; vcap := n |} (stack_calls bufs nproc ps g out)) = 0 /\
  vcap (fst (vrun {| vlen := 0; vcap := n |} (stack_calls bufs nproc ps g out))) = n /\
  snd (vrun {| vlen := 0; vcap := n |} (inputs_calls bufs nproc ps g out)) = 0 /\
  vcap (fst (vrun {| vlen := 0; vcap := n |} (inputs_calls bufs nproc ps g out))) = n.
Proof. exact @with_capacity_no_realloc. Qed.
Print Assumptions c07_with_capacity_no_realloc.

(* ---- the capacity trace of the modelled `process` itself (Alloc/CapsDfs.v) ----
   [iproc] = the C09 processor state plus the (len, cap) pairs of the heap vectors a real Processor
   owns (DFS stack, inputs list, the block vector of each FixedBitSet) and a reallocation counter;
   [iprocess] = the C09 model call [process] with every stack push/pop/clear, inputs push/clear and
   bit-set grow accounted on them (push reallocates iff len = cap; nothing shrinks a capacity);
   [caps] = the three capacities.  All statements: every multigraph (cycles, self-loops, parallel
   edges, vacancies), every node type, every prior processor state, no size bound. *)

(* the stack/inputs scripts of a call depend on the SHAPE of the graph (edges and vacancies) and
   on the output node only: not on the processor's past, not on node states or buffers *)
Theorem c07_processor_scripts_shape : forall (W B : Type) (bufs : W -> B) (nproc : W -> list B -> W)
  (p1 p2 : processor) (g g' : graph W) (out : nat), wf g -> same_shape g g' -> live g out = true ->
  process_ops bufs nproc p1 g out = process_ops bufs nproc p2 g' out.
Proof. exact @process_ops_shape. Qed.
Print Assumptions c07_processor_scripts_shape.

(* the instrumented call returns exactly when the model call does, with the model's results *)
Theorem c07_processor_trace_terminates : forall (W B : Type) (bufs : W -> B) (nproc : W -> list B -> W)
  (ip : iproc) (g : graph W) (out : nat), wf g -> live g out = true ->
  exists ip' g' log, iprocess bufs nproc ip g out = Ok (ip', g', log) /\
                     process bufs nproc (ibase ip) g out = Ok (ibase ip', g', log).
Proof. exact @iprocess_terminates. Qed.
Print Assumptions c07_processor_trace_terminates.

(* faithfulness and invariants: after a call the stack vector is as long as the model's stack
   (empty), the vectors are in a state a Vec can be in, no capacity has shrunk, the graph has kept
   its shape, the bit sets cover the node bound *)
Theorem c07_processor_trace_faithful : forall (W B : Type) (bufs : W -> B) (nproc : W -> list B -> W)
  (ip : iproc) (g : graph W) (out : nat) ip' g' log, wf g -> live g out = true -> iwf ip ->
  iprocess bufs nproc ip g out = Ok (ip', g', log) ->
  iwf ip' /\ same_shape g g' /\
  vlen (svec ip') = length (stack (dfs (ibase ip'))) /\ vlen (svec ip') = 0 /\
  cap (ibase ip') = Nat.max (cap (ibase ip)) (node_bound g) /\
  c_stack (caps ip) <= c_stack (caps ip') /\ c_inputs (caps ip) <= c_inputs (caps ip') /\
  c_bits (caps ip) <= c_bits (caps ip') /\ reallocs ip <= reallocs ip'.
Proof. exact @iprocess_keeps. Qed.
Print Assumptions c07_processor_trace_faithful.

(* caps (process (process p g n) g n) = caps (process p g n): both calls return, and the second
   changes no capacity and reallocates nothing *)
Theorem c07_processor_steady_dfs : forall (W B : Type) (bufs : W -> B) (nproc : W -> list B -> W)
  (ip : iproc) (g : graph W) (n : nat), wf g -> live g n = true -> iwf ip ->
  exists ip1 g1 l1 ip2 g2 l2,
    iprocess bufs nproc ip g n = Ok (ip1, g1, l1) /\ iprocess bufs nproc ip1 g1 n = Ok (ip2, g2, l2) /\
    caps ip2 = caps ip1 /\ reallocs ip2 = reallocs ip1.
Proof. exact @iprocess_twice. Qed.
Print Assumptions c07_processor_steady_dfs.

(* ... and the second call may be on ANY graph of the same shape (the owner may rewrite every node
   and buffer between the calls) *)
Theorem c07_processor_steady_dfs_shape : forall (W B : Type) (bufs : W -> B) (nproc : W -> list B -> W)
  (ip : iproc) (g : graph W) (n : nat) ip1 g1 l1, wf g -> live g n = true -> iwf ip ->
  iprocess bufs nproc ip g n = Ok (ip1, g1, l1) ->
  forall (g1' : graph W) ip2 g2 l2, same_shape g g1' ->
  iprocess bufs nproc ip1 g1' n = Ok (ip2, g2, l2) ->
  caps ip2 = caps ip1 /\ reallocs ip2 = reallocs ip1.
Proof. exact @iprocess_steady. Qed.
Print Assumptions c07_processor_steady_dfs_shape.

(* the stronger reading that IS true: whatever the processor did before, a call from ANY node of
   ANY graph whose traversal needs no more stack entries / inputs / bit-set blocks than are
   reserved changes no capacity and reallocates nothing *)
Theorem c07_processor_reserved : forall (W B : Type) (bufs : W -> B) (nproc : W -> list B -> W)
  (ip : iproc) (g : graph W) (n' : nat) ip' g' log, wf g -> live g n' = true -> iwf ip ->
  high_water 0 (fst (process_ops bufs nproc new_processor g n')) <= vcap (svec ip) ->
  high_water 0 (snd (process_ops bufs nproc new_processor g n')) <= vcap (ivec ip) ->
  (node_bound g <= cap (ibase ip) \/ blocks_of (node_bound g) <= vcap (bvec ip)) ->
  iprocess bufs nproc ip g n' = Ok (ip', g', log) ->
  caps ip' = caps ip /\ reallocs ip' = reallocs ip.
Proof. exact @iprocess_reserved. Qed.
Print Assumptions c07_processor_reserved.

(* in particular after a call from n: a call from any n' of the same graph (shape) whose
   traversal needs no more stack and inputs than the one from n did *)
Theorem c07_processor_steady_dominated : forall (W B : Type) (bufs : W -> B) (nproc : W -> list B -> W)
  (ip : iproc) (g : graph W) (n : nat) ip1 g1 l1, wf g -> live g n = true -> iwf ip ->
  iprocess bufs nproc ip g n = Ok (ip1, g1, l1) ->
  forall (g1' : graph W) (n' : nat) ip2 g2 l2, same_shape g g1' -> live g n' = true ->
  high_water 0 (fst (process_ops bufs nproc new_processor g n')) <= high_water 0 (fst (process_ops bufs nproc new_processor g n)) ->
  high_water 0 (snd (process_ops bufs nproc new_processor g n')) <= high_water 0 (snd (process_ops bufs nproc new_processor g n)) ->
  iprocess bufs nproc ip1 g1' n' = Ok (ip2, g2, l2) ->
  caps ip2 = caps ip1 /\ reallocs ip2 = reallocs ip1.
Proof. exact @iprocess_steady_dominated. Qed.
Print Assumptions c07_processor_steady_dominated.

(* the stack never holds more than 1 + |E| entries (tight: a chain) ... *)
Theorem c07_stack_high_water_edges : forall (W B : Type) (bufs : W -> B) (nproc : W -> list B -> W)
  (p : processor) (g : graph W) (out : nat), wf g -> live g out = true ->
  high_water 0 (fst (process_ops bufs nproc p g out)) <= 1 + length (edges g).
Proof. exact @stack_high_water_edges. Qed.
Print Assumptions c07_stack_high_water_edges.

(* ... so a processor holding 1 + |E| stack entries, max in-degree inputs and bit sets covering
   the node bound never grows, from any output node *)
Theorem c07_processor_reserved_bounds : forall (W B : Type) (bufs : W -> B) (nproc : W -> list B -> W)
  (ip : iproc) (g : graph W) (out : nat) ip' g' log, wf g -> live g out = true -> iwf ip ->
  1 + length (edges g) <= vcap (svec ip) -> max_in_degree g <= vcap (ivec ip) ->
  (node_bound g <= cap (ibase ip) \/ blocks_of (node_bound g) <= vcap (bvec ip)) ->
  iprocess bufs nproc ip g out = Ok (ip', g', log) ->
  caps ip' = caps ip /\ reallocs ip' = reallocs ip.
Proof. exact @iprocess_reserved_bounds. Qed.
Print Assumptions c07_processor_reserved_bounds.

(* REFUTED readings (witnesses computed on the model, confirmed on the crate through
   Processor::verif_capacities(): corpus/C07, the `caps` correspondence of the check).
   "once a processor has processed a graph of that size once" read as "from any node of that
   graph": with_capacity(4), chain 0->1->2->3->4->5, a first call from node 0, then a call from
   node 5 of the same graph reallocates the stack (4 -> 8) *)
Theorem c07_processor_any_node_refuted :
  exists (g : graph unit) (n n' c : nat) ip1 g1 l1 ip2 g2 l2,
    wf g /\ live g n = true /\ live g n' = true /\
    iprocess (fun _ => tt) (fun w _ => w) (iproc_with_capacity c) g n = Ok (ip1, g1, l1) /\
    iprocess (fun _ => tt) (fun w _ => w) ip1 g1 n' = Ok (ip2, g2, l2) /\
    c_stack (caps ip1) < c_stack (caps ip2) /\ reallocs ip1 < reallocs ip2.
Proof. exact any_node_refuted. Qed.
Print Assumptions c07_processor_any_node_refuted.

(* the doc of Processor::with_capacity ("As long as this node count is not exceeded, the Processor
   should never require dynamic allocation following construction"): a 5-node graph, with_capacity(5):
   the first call stacks 8 entries (stack 5 -> 10) and allocates both bit sets: 3 allocations *)
Theorem c07_with_capacity_node_count_refuted :
  exists (g : graph unit) (out : nat) ip1 g1 l1,
    wf g /\ live g out = true /\ length (node_identifiers g) = 5 /\
    iprocess (fun _ => tt) (fun w _ => w) (iproc_with_capacity 5) g out = Ok (ip1, g1, l1) /\
    high_water 0 (fst (process_ops (fun _ : unit => tt) (fun w _ => w) new_processor g out)) = 8 /\
    c_stack (caps ip1) = 10 /\ reallocs ip1 = 3.
Proof. exact with_capacity_node_count_refuted. Qed.
Print Assumptions c07_with_capacity_node_count_refuted.
