(* C07 — No heap allocation in steady state.  The part that is logic (sizes of storage,
   capacity of the processor's vectors); allocator behaviour itself is observed by the
   harness (counting GlobalAlloc), not proved.  Only property theorems here. *)
Require Import List Arith.
From Dasp Require Import Base.Res Ring.Bounded Ring.BoundedSpec Ring.BoundedProofs
  Ring.Fixed Ring.FixedSpec Ring.FixedProofs Alloc.Caps.
Import ListNotations.

(* user-supplied (possibly heap-backed) ring-buffer storage is never resized, by any history *)
Theorem c07_bounded_storage_const : forall (A : Type) (ops : list (op A)) (b : bounded A), Inv b ->
  exists b' vs, run b ops = Ok (b', vs) /\ length (data b') = length (data b).
Proof. exact @bounded_storage_const. Qed.
Print Assumptions c07_bounded_storage_const.

Theorem c07_fixed_storage_const : forall (A : Type) (ops : list (fop A)) (f : fixed A), InvF f ->
  exists f' vs, frun f ops = Ok (f', vs) /\ length (fdata f') = length (fdata f).
Proof. exact @fixed_storage_const. Qed.
Print Assumptions c07_fixed_storage_const.

(* a growable vector driven by a push/pop/clear script does not reallocate when its
   capacity covers the script's high-water mark *)
Theorem c07_vec_no_realloc : forall (ops : list vop) (v : vec), vlen v <= vcap v ->
  high_water (vlen v) ops <= vcap v ->
  snd (vrun v ops) = 0 /\ vcap (fst (vrun v ops)) = vcap v /\ vlen (fst (vrun v ops)) <= vcap v.
Proof. exact vrun_no_realloc. Qed.
Print Assumptions c07_vec_no_realloc.

(* steady state: once a traversal script has run once, running the same script again
   (after the clear that `reset` performs) performs no reallocation and leaves capacities unchanged *)
Theorem c07_vec_steady : forall (ops : list vop) (v : vec), vlen v <= vcap v ->
  let v1 := fst (vrun (vclear v) ops) in
  snd (vrun (vclear v1) ops) = 0 /\ vcap (fst (vrun (vclear v1) ops)) = vcap v1.
Proof. exact vrun_steady. Qed.
Print Assumptions c07_vec_steady.
