(* C07 — No heap allocation in steady state.  The part that is logic (sizes of storage,
   capacity of the processor's vectors); allocator behaviour itself is observed by the
   harness (counting GlobalAlloc), not proved.  Only property theorems here. *)
Require Import List Arith Permutation.
From Dasp Require Import Base.Res Ring.Bounded Ring.BoundedSpec Ring.BoundedProofs
  Ring.Fixed Ring.FixedSpec Ring.FixedProofs Alloc.Caps
  Signal.Bus Signal.BusSpec Alloc.BusBacklog
  Graph.Dfs Graph.Process Graph.ProcessSpec Alloc.ProcessorCaps.
Import ListNotations.

(* user-supplied (possibly heap-backed) ring-buffer storage is never resized, by any history *)
Theorem c07_bounded_storage_const : forall (A : Type) (ops : list (BoundedSpec.op A)) (b : bounded A), BoundedSpec.Inv b ->
  exists b' vs, BoundedSpec.run b ops = Ok (b', vs) /\ length (data b') = length (data b).
Proof. exact @bounded_storage_const. Qed.
Print Assumptions c07_bounded_storage_const.

Theorem c07_fixed_storage_const : forall (A : Type) (ops : list (fop A)) (f : fixed A), InvF f ->
  exists f' vs, frun f ops = Ok (f', vs) /\ length (fdata f') = length (fdata f).
Proof. exact @fixed_storage_const. Qed.
Print Assumptions c07_fixed_storage_const.

(* a growable vector driven by a push/pop/clear script does not reallocate when its
   capacity covers the script's high-water mark *)
Theorem c07_vec_no_realloc : forall (ops : list vop) (v : vec), vlen v <= vcap v ->
  high_water (vlen v) ops <= vcap v ->
  snd (vrun v ops) = 0 /\ vcap (fst (vrun v ops)) = vcap v /\ vlen (fst (vrun v ops)) <= vcap v.
Proof. exact vrun_no_realloc. Qed.
Print Assumptions c07_vec_no_realloc.

(* steady state: once a traversal script has run once, running the same script again
   (after the clear that `reset` performs) performs no reallocation and leaves capacities unchanged *)
Theorem c07_vec_steady : forall (ops : list vop) (v : vec), vlen v <= vcap v ->
  let v1 := fst (vrun (vclear v) ops) in
  snd (vrun (vclear v1) ops) = 0 /\ vcap (fst (vrun (vclear v1) ops)) = vcap v1.
Proof. exact vrun_steady. Qed.
Print Assumptions c07_vec_steady.

(* ---- the bus (documented exception: it owns a growable backlog) ---- *)

(* the backlog is exactly as long as the maximum lag over the live outputs (0 if none): it
   holds only what laggards still need, so it is bounded by any bound on the lag *)
Theorem c07_bus_backlog_le_max_lag :
  forall (F : Type) (f : nat -> F) (ops : list Bus.op) (s : @Bus.st F) (tr : list (@Bus.ev F)),
  Bus.run f ops Bus.init = Ok (s, tr) ->
  (forall L : nat,
     (forall k a : nat, is_live s k -> In (ESend k a) tr -> pulled s - (a + received k tr) <= L) ->
     length (buf s) <= L) /\
  length (buf s) = max_lag s /\
  (forall k : nat, is_live s k -> exists n : nat, pending_frames s k = Ok n /\ In n (lags s)).
Proof. exact @bus_backlog_le_max_lag. Qed.
Print Assumptions c07_bus_backlog_le_max_lag.

(* "the backlog stops growing once its outputs are pulled in step": under lock-step pulling
   (rounds of one next per live output in any order; sends, drops and pending queries only
   between rounds) the backlog is empty at every round boundary and never longer than one frame,
   for any number of rounds and outputs *)
Theorem c07_bus_lockstep_backlog_le_1 :
  forall (F : Type) (f : nat -> F) (s : @Bus.st F) (phs : list phase),
  Inv f s -> caught_up s ->
  lockstep (nk s) (keys (fr s)) phs ->
  (forall phs1 phs2 : list phase, phs = phs1 ++ phs2 ->
     exists (s1 : @Bus.st F) (tr1 : list (@Bus.ev F)),
       Bus.run f (flat phs1) s = Ok (s1, tr1) /\ caught_up s1 /\ buf s1 = []) /\
  (forall pre post : list op, flat phs = pre ++ post ->
     exists (s1 : @Bus.st F) (tr1 : list (@Bus.ev F)),
       Bus.run f pre s = Ok (s1, tr1) /\ length (buf s1) <= 1).
Proof. exact @bus_lockstep_backlog_le_1. Qed.
Print Assumptions c07_bus_lockstep_backlog_le_1.

(* ---- the graph processor: its two vectors, driven by the C09 traversal model ---- *)

(* the push/pop/clear scripts one process call applies to the DFS stack and to the inputs
   vector depend on the graph and the output node only, not on the processor's prior state *)
Theorem c07_processor_scripts_indep : forall (W B : Type) (bufs : W -> B) (nproc : W -> list B -> W)
  (p1 p2 : processor) (g : graph W) (out : nat), wf g -> live g out = true ->
  process_ops bufs nproc p1 g out = process_ops bufs nproc p2 g out.
Proof. exact @process_ops_indep. Qed.
Print Assumptions c07_processor_scripts_indep.

(* the scripts are faithful to the traversal model *)
Theorem c07_processor_scripts_faithful : forall (W B : Type) (bufs : W -> B) (nproc : W -> list B -> W)
  (p : processor) (g : graph W) (out : nat) p' g' log,
  process bufs nproc p g out = Ok (p', g', log) ->
  (forall l0, len_after l0 (fst (process_ops bufs nproc p g out)) = length (stack (dfs p'))) /\
  snd (process_ops bufs nproc p g out) = inputs_script log.
Proof. exact @process_ops_faithful. Qed.
Print Assumptions c07_processor_scripts_faithful.

(* "allocates nothing once a processor has processed a graph of that size once": after ONE call
   (vectors of any capacity, processor in any state) every further call on the same graph and
   output node reallocates neither vector and leaves both capacities unchanged - every
   multigraph, no size bound *)
Theorem c07_processor_steady : forall (W B : Type) (bufs : W -> B) (nproc : W -> list B -> W)
  (p0 : processor) (ps : list processor) (g : graph W) (out : nat) (vs vi : vec),
  wf g -> live g out = true -> vlen vs <= vcap vs -> vlen vi <= vcap vi ->
  let vs1 := fst (vrun vs (fst (process_ops bufs nproc p0 g out))) in
  let vi1 := fst (vrun vi (snd (process_ops bufs nproc p0 g out))) in
  snd (vrun vs1 (stack_calls bufs nproc ps g out)) = 0 /\
  vcap (fst (vrun vs1 (stack_calls bufs nproc ps g out))) = vcap vs1 /\
  snd (vrun vi1 (inputs_calls bufs nproc ps g out)) = 0 /\
  vcap (fst (vrun vi1 (inputs_calls bufs nproc ps g out))) = vcap vi1.
Proof. exact @processor_steady. Qed.
Print Assumptions c07_processor_steady.

(* high-water marks: the stack needs at most 1 + |V| + |E| entries (a node can be stacked once
   per incoming edge), the inputs vector at most the maximum in-degree *)
Theorem c07_stack_high_water : forall (W B : Type) (bufs : W -> B) (nproc : W -> list B -> W)
  (p : processor) (g : graph W) (out : nat), wf g -> live g out = true ->
  high_water 0 (fst (process_ops bufs nproc p g out)) < fuel_of g /\
  high_water 0 (fst (process_ops bufs nproc p g out)) <= 1 + length (slots g) + length (edges g).
Proof. exact @stack_high_water. Qed.
Print Assumptions c07_stack_high_water.

Theorem c07_inputs_high_water : forall (W B : Type) (bufs : W -> B) (nproc : W -> list B -> W)
  (p : processor) (g : graph W) (out : nat), wf g -> live g out = true ->
  high_water 0 (snd (process_ops bufs nproc p g out)) <= max_in_degree g.
Proof. exact @inputs_high_water. Qed.
Print Assumptions c07_inputs_high_water.

(* Processor::with_capacity(n) with n covering those marks never reallocates at all *)
Theorem c07_with_capacity_no_realloc : forall (W B : Type) (bufs : W -> B) (nproc : W -> list B -> W)
  (ps : list processor) (g : graph W) (out n : nat),
  wf g -> live g out = true -> fuel_of g <= S n -> max_in_degree g <= n ->
  snd (vrun {| vlen := 0; vcap := n |} (stack_calls bufs nproc ps g out)) = 0 /\
  vcap (fst (vrun {| vlen := 0; vcap := n |} (stack_calls bufs nproc ps g out))) = n /\
  snd (vrun {| vlen := 0; vcap := n |} (inputs_calls bufs nproc ps g out)) = 0 /\
  vcap (fst (vrun {| vlen := 0; vcap := n |} (inputs_calls bufs nproc ps g out))) = n.
Proof. exact @with_capacity_no_realloc. Qed.
Print Assumptions c07_with_capacity_no_realloc.
