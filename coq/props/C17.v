Require Import ZArith.
From Dasp Require Import Signal.OscNum Signal.Osc.
Theorem c17_placeholder : 1 = 1. Proof. reflexivity. Qed.
Print Assumptions c17_placeholder.
