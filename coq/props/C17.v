(* C17 — Oscillators and noise sources keep phase and amplitude in range at any rate.
   Only the property theorems: each is closed by [exact] of a lemma of the development,
   followed by Print Assumptions.  NR = exact reals, F = IEEE-754 binary64 (Flocq);
   the model (Signal/Osc.v) is one Gallina term instantiated at both.

   The simplex bound is proved twice: c17_simplex_real on exact reals, and c17_simplex_ieee /
   c17_simplex_range for the ROUNDED (binary64) evaluation the code performs (every + - * rounded
   to nearest even, floor and the integer casts exact; Interval on the real expression with
   explicit rounding operators, margin 1e-4).  sin is an oracle. *)
Require Import Floats.SpecFloat.
Require Import ZArith Reals List.
From Flocq Require Import Core BinarySingleNaN.
From Dasp Require Import Base.Float Signal.OscNum Signal.Osc Signal.OscProofs Signal.OscFloatProofs
  Signal.OscFloatRuns Signal.OscSimplexProofs Signal.OscSimplexIEEE Signal.OscExamples.
Import ListNotations.
Open Scope R_scope.

(* ---------------------------------------------------------------- exact arithmetic ---- *)
(* phase_k = frac (sum_{j<k} hz_j / rate), starting at 0, for a per-frame frequency ... *)
Theorem c17_phase_formula_hz : forall (rate : R) (ctl : nat -> R) (n k : nat) (d : R), (k < n)%nat ->
  0 < rate -> (forall j, 0 <= ctl j) ->
  nth k (fst (run NR (next_phase NR) (phase_new NR (hz_src NR rate ctl)) n)) d
  = frac (Rsum (fun j => ctl j / rate) k).
Proof. exact phase_formula_hz. Qed.
Print Assumptions c17_phase_formula_hz.

(* ... and for a constant one *)
Theorem c17_phase_formula_const : forall (rate hz : R) (n k : nat) (d : R), (k < n)%nat -> 0 < rate -> 0 <= hz ->
  nth k (fst (run NR (next_phase NR) (phase_new NR (const_hz NR rate hz)) n)) d
  = frac (Rsum (fun _ => hz / rate) k).
Proof. exact phase_formula_const. Qed.
Print Assumptions c17_phase_formula_const.

(* the frames of sine / saw / square / simplex are the waveform function applied to the phase
   frames, with the same final state (every numeric instance) *)
Theorem c17_frames_of_phase : forall (N : Num) (out : T N -> T N) (w : T N) (n : nat) (p : phase_st N),
  run N (osc_next N out w) p n =
  (map out (fst (run N (fun q => next_phase_wrapped_to N q w) p n)),
   snd (run N (fun q => next_phase_wrapped_to N q w) p n)).
Proof. exact run_osc. Qed.
Print Assumptions c17_frames_of_phase.

Theorem c17_saw_formula : forall ph : R, saw_of NR ph = 1 - 2 * ph.
Proof. exact saw_formula. Qed.
Print Assumptions c17_saw_formula.

(* +1 on [0, 1/2), -1 on [1/2, 1): 0.5 belongs to the second half-cycle *)
Theorem c17_square_formula : forall ph : R,
  (ph < / 2 -> square_of NR ph = 1) /\ (/ 2 <= ph -> square_of NR ph = -1).
Proof. exact square_formula. Qed.
Print Assumptions c17_square_formula.

Theorem c17_sine_formula : forall ph : R, sine_of NR sin ph = sin (2 * PI * ph).
Proof. exact sine_formula. Qed.
Print Assumptions c17_sine_formula.

(* simplex noise on exact reals: every phase, every table entry, gradients as coded *)
Theorem c17_simplex_real : forall x : R, -1 <= simplex_noise_1d NR x <= 1.
Proof. exact simplex_real_bound. Qed.
Print Assumptions c17_simplex_real.

(* ------------------------------------------------- one control frame per output frame ---- *)
(* any oscillator on rate.hz(ctl): after n output frames the pull counter went from k to k + n,
   and output frame j stepped by ctl (k + j) / rate (every numeric instance) *)
Theorem c17_one_hz_per_frame : forall (N : Num) (out : T N -> T N) (w rate : T N) (ctl : nat -> T N)
  (n k : nat) (nx : T N),
  let p := {| src := SHz rate ctl k; next := nx |} in
  pulls_of N (src (snd (run N (osc_next N out w) p n))) = (k + n)%nat /\
  (forall j, nth_step N (src p) j = ndiv N (ctl (k + j)%nat) rate).
Proof. exact one_hz_per_frame. Qed.
Print Assumptions c17_one_hz_per_frame.

(* ------------------------------------------------------------------ IEEE binary64 ---- *)
(* one step, no overflow side condition: finite step >= 0 and phase in [0, w) give a finite
   next phase in [0, w); `%` is exact *)
Theorem c17_phase_step_range : forall w nx st : f64, WrapOk w -> InRange w nx -> StepOk st ->
  InRange w (nrem F (nadd F nx st) w).
Proof. exact phase_step_range. Qed.
Print Assumptions c17_phase_step_range.

(* every frame of every run: positive finite rate, finite non-negative frequencies (constant or
   per frame), no step overflowing (class K1 excluded): phase in [0, 1) for the oscillators
   (z = 1) and in [0, 65536) for the simplex noise (z = 65536), any length n *)
Theorem c17_phase_range_all : forall (s : step_src F) (z : Z) (n : nat),
  PublicSrc s -> ~ KnownClass_K1 s -> (0 < z <= 4294967296)%Z ->
  Forall (fun y => is_finite y = true /\ 0 <= B2R y < IZR z)
         (fst (run F (fun q => next_phase_wrapped_to F q (nof_Z F z)) (phase_new F s) n)).
Proof. exact phase_range_all. Qed.
Print Assumptions c17_phase_range_all.

(* the excluded class is real: rate(1e-300).const_hz(1e300) is a public source whose second phase is NaN *)
Theorem c17_k1_refuted : exists s, PublicSrc s /\ KnownClass_K1 s /\
  is_nan (nth 1 (fst (run F (next_phase F) (phase_new F s) 2)) (nof_Z F 0)) = true.
Proof. exact k1_refuted. Qed.
Print Assumptions c17_k1_refuted.

Theorem c17_saw_range : forall (s : step_src F) (n : nat), PublicSrc s -> ~ KnownClass_K1 s ->
  Forall (fun y => is_finite y = true /\ -1 <= B2R y <= 1) (fst (run F (saw_next F) (phase_new F s) n)).
Proof. exact saw_run_range. Qed.
Print Assumptions c17_saw_range.

Theorem c17_square : forall (s : step_src F) (n : nat), PublicSrc s -> ~ KnownClass_K1 s ->
  Forall (fun y => is_finite y = true /\ (B2R y = 1 \/ B2R y = -1))
         (fst (run F (square_next F) (phase_new F s) n)).
Proof. exact square_run_range. Qed.
Print Assumptions c17_square.

(* the half-cycle rule on binary64 phases *)
Theorem c17_square_value : forall ph : f64, is_finite ph = true ->
  (B2R ph < / 2 -> B2R (square_of F ph) = 1) /\ (/ 2 <= B2R ph -> B2R (square_of F ph) = -1) /\
  is_finite (square_of F ph) = true.
Proof. exact square_value. Qed.
Print Assumptions c17_square_value.

(* sine: from the oracle hypothesis |sin_o x| <= 1 on finite x (the claim rests on libm) *)
Theorem c17_sine_range : forall sin_o : f64 -> f64,
  (forall x, is_finite x = true -> is_finite (sin_o x) = true /\ -1 <= B2R (sin_o x) <= 1) ->
  forall (s : step_src F) (n : nat), PublicSrc s -> ~ KnownClass_K1 s ->
  Forall (fun y => is_finite y = true /\ -1 <= B2R y <= 1) (fst (run F (sine_next F sin_o) (phase_new F s) n)).
Proof. exact sine_run_range. Qed.
Print Assumptions c17_sine_range.

(* simplex noise as the code evaluates it: IEEE-754 binary64, every + - * rounded to nearest even
   (Flocq Bplus/Bminus/Bmult), `floor` = Bnearbyint toward -inf, `as i64` saturating truncation,
   `as f64` of the corner index exact; PERM lookup, `& 15`, `& 7`, `& 8` on integers.  For EVERY finite
   argument in [-2^63, 2^63) -- the range on which `floor(x) as i64` does not saturate (and `i0 + 1` does
   not overflow) -- the result is finite and in [-1, 1] ... *)
Theorem c17_simplex_ieee : forall x : f64, is_finite x = true ->
  - 9223372036854775808 <= B2R x < 9223372036854775808 ->
  is_finite (simplex_noise_1d F x) = true /\ -1 <= B2R (simplex_noise_1d F x) <= 1.
Proof. exact simplex_ieee. Qed.
Print Assumptions c17_simplex_ieee.

(* ... hence every frame of every NoiseSimplex run (phase wrapped at 65536.0), any length n, any public
   step source outside K1 *)
Theorem c17_simplex_range : forall (s : step_src F) (n : nat), PublicSrc s -> ~ KnownClass_K1 s ->
  Forall (fun y => is_finite y = true /\ -1 <= B2R y <= 1) (fst (run F (simplex_next F) (phase_new F s) n)).
Proof. exact simplex_run_range. Qed.
Print Assumptions c17_simplex_range.

(* noise: all float steps exact; -1 < out <= 1 for every seed, every frame *)
Theorem c17_noise_exact : forall seed : Z,
  is_finite (noise_1 F seed) = true /\ B2R (noise_1 F seed) = 1 - IZR (noise_hash seed) / 1073741824.
Proof. exact noise_exact. Qed.
Print Assumptions c17_noise_exact.

Theorem c17_noise_range : forall (seed : Z) (n : nat), (0 <= seed < two64)%Z ->
  Forall (fun y => is_finite y = true /\ -1 < B2R y <= 1) (fst (run F (noise_next F) seed n)).
Proof. exact noise_run_range. Qed.
Print Assumptions c17_noise_range.

(* noise is a pure function of seed and frame index: frame k = noise_1 ((seed + k) mod 2^64),
   and the state after n frames is (seed + n) mod 2^64 — so clones and restarts reproduce it *)
Theorem c17_noise_pure : forall (N : Num) (n k : nat) (seed : Z) (d : T N), (k < n)%nat -> (0 <= seed < two64)%Z ->
  nth k (fst (run N (noise_next N) seed n)) d = noise_1 N ((seed + Z.of_nat k) mod two64).
Proof. exact noise_nth. Qed.
Print Assumptions c17_noise_pure.

Theorem c17_noise_state : forall (N : Num) (n : nat) (seed : Z), (0 <= seed < two64)%Z ->
  snd (run N (noise_next N) seed n) = ((seed + Z.of_nat n) mod two64)%Z.
Proof. exact noise_seed_after. Qed.
Print Assumptions c17_noise_state.
