(* C01 -- Integer sample formats convert by exact power-of-two amplitude rescaling.
   Only the property theorems: each is closed by [exact] of a lemma of the development,
   followed by Print Assumptions.

   [to_sample m s d z] is the Gallina translation (gen/ConvGen.v, produced by
   translate/conv2coq.py from dasp_sample/src/conv.rs on every run) of what
   `Sample::to_sample::<D>()` dispatches to for a value z of format s, with explicit
   machine-integer semantics (Sample/Rint.v); m = Checked is a build with overflow checks
   (debug), m = Wrapping one without (release).  [= Ok v] means: returns v, no panic.
   [spec_conv] (Sample/ConvSpec.v) is the statement's formula:
     floor (amplitude * 2^(bits d) / 2^(bits s)) re-offset for the target,
     amplitude = value minus half-range for unsigned formats. *)
Require Import ZArith Bool.
From Dasp Require Import Base.Res Sample.Rint Sample.RintProofs Sample.ConvSpec Sample.ConvSpecProofs
  Sample.ConvTheorems Sample.ConvExamples.
From DaspGen Require Import FormatTable ConvGen ConvTransfer ConvCorrect.
Open Scope Z_scope.

(* All 132 ordered pairs of distinct formats, every in-range value of the source format:
   the debug build returns exactly the specified value (and does not panic). *)
Theorem c01_correct : forall (s d : fmt) (z : Z), s <> d -> in_range s z ->
  to_sample Checked s d z = Ok (spec_conv s d z).
Proof. exact to_sample_correct. Qed.
Print Assumptions c01_correct.

(* Whenever the debug build returns a value -- on ANY input, in range or not -- the release
   build (wrapping arithmetic) returns the same value. *)
Theorem c01_debug_to_release : forall (s d : fmt) (z v : Z),
  to_sample Checked s d z = Ok v -> to_sample Wrapping s d z = Ok v.
Proof. exact to_sample_transfer. Qed.
Print Assumptions c01_debug_to_release.

Theorem c01_correct_release : forall (s d : fmt) (z : Z), s <> d -> in_range s z ->
  to_sample Wrapping s d z = Ok (spec_conv s d z).
Proof. exact to_sample_release. Qed.
Print Assumptions c01_correct_release.

(* The formats as the source defines them (types.rs MIN/MAX of I24/U24/I48/U48, the primitive
   ranges, lib.rs EQUILIBRIUM and Signed) are the formats of the specification, and each
   format's range fits its representation type. *)
Theorem c01_format_table : forall f : fmt,
  src_min f = fmin f /\ src_max f = fmax f /\ src_equilibrium f = equilibrium f /\ src_signed f = signed f /\
  tmin (src_rep f) <= fmin f /\ fmax f <= tmax (src_rep f).
Proof. exact format_table_ok. Qed.
Print Assumptions c01_format_table.

(* The diagonal (12 same-format "conversions": `impl<S> FromSample<S> for S`, which no impl_from_sample! row may
   overlap): the value itself, in both build profiles, and the rescaling formula says the same (factor 2^0). *)
Theorem c01_same_format : forall (m : mode) (f : fmt) (z : Z), to_sample m f f z = Ok z /\ spec_conv f f z = z.
Proof. exact to_sample_same_format. Qed.
Print Assumptions c01_same_format.

(* ---- from the specification alone, all formats ---- *)

(* "rounded toward negative infinity when narrowing": r is the floor of amplitude / 2^(bits s - bits d) *)
Theorem c01_narrow_floor : forall (s d : fmt) (z : Z), bits d <= bits s ->
  let k := 2 ^ (bits s - bits d) in
  let r := spec_conv s d z - offset d in
  r * k <= amp s z < (r + 1) * k.
Proof. exact spec_floor. Qed.
Print Assumptions c01_narrow_floor.

(* "multiplied by 2^(target bits - source bits)": exact when widening *)
Theorem c01_widen_exact : forall (s d : fmt) (z : Z), bits s <= bits d ->
  amp d (spec_conv s d z) = amp s z * 2 ^ (bits d - bits s).
Proof. exact spec_widen_exact. Qed.
Print Assumptions c01_widen_exact.

(* every result is a valid in-range value of the target (what new_unchecked relies on for 24/48 bits) *)
Theorem c01_in_range : forall (s d : fmt) (z : Z), in_range s z -> in_range d (spec_conv s d z).
Proof. exact spec_in_range. Qed.
Print Assumptions c01_in_range.

Theorem c01_monotone : forall (s d : fmt) (z1 z2 : Z), z1 <= z2 -> spec_conv s d z1 <= spec_conv s d z2.
Proof. exact spec_monotone. Qed.
Print Assumptions c01_monotone.

Theorem c01_equilibrium : forall s d : fmt, spec_conv s d (equilibrium s) = equilibrium d.
Proof. exact spec_equilibrium. Qed.
Print Assumptions c01_equilibrium.

Theorem c01_min : forall s d : fmt, spec_conv s d (fmin s) = fmin d.
Proof. exact spec_min. Qed.
Print Assumptions c01_min.

(* MAX goes to MAX when the target is not wider ... *)
Theorem c01_max : forall s d : fmt, bits d <= bits s -> spec_conv s d (fmax s) = fmax d.
Proof. exact spec_max_narrow. Qed.
Print Assumptions c01_max.

(* ... and when widening it goes to the top of the target's grid of multiples of 2^(bits d - bits s),
   which is strictly below the target's MAX.  The statement's "each extreme to the matching extreme"
   is therefore FALSE for MAX under widening (127i8 -> 32512i16, as dasp_sample/tests/conv.rs itself
   asserts); it is a consequence of the exact-rescaling sentence only for MIN, and for MAX when
   narrowing.  The code agrees with the rescaling formula (c01_correct), so this is an imprecision
   of the property text, not a defect of the crate. *)
Theorem c01_max_widening : forall s d : fmt, bits s <= bits d ->
  spec_conv s d (fmax s) = fmax d - (2 ^ (bits d - bits s) - 1).
Proof. exact spec_max_widen. Qed.
Print Assumptions c01_max_widening.

Theorem c01_max_to_max_refuted : forall s d : fmt, bits s < bits d -> spec_conv s d (fmax s) < fmax d.
Proof. exact spec_max_widen_lt. Qed.
Print Assumptions c01_max_to_max_refuted.

(* widening is lossless and undone by narrowing back *)
Theorem c01_widen_lossless : forall (s d : fmt) (z : Z), bits s <= bits d ->
  spec_conv d s (spec_conv s d z) = z.
Proof. exact spec_widen_lossless. Qed.
Print Assumptions c01_widen_lossless.

(* through any intermediate format at least as wide as the narrower endpoint *)
Theorem c01_via : forall (s m d : fmt) (z : Z), Z.min (bits s) (bits d) <= bits m ->
  spec_conv m d (spec_conv s m z) = spec_conv s d z.
Proof. exact spec_via. Qed.
Print Assumptions c01_via.

(* ---- the same consequences stated on the code, both build profiles ---- *)

Theorem c01_code_in_range : forall (m : mode) (s d : fmt) (z : Z), in_range s z ->
  exists v, to_sample m s d z = Ok v /\ in_range d v.
Proof. exact to_sample_in_range. Qed.
Print Assumptions c01_code_in_range.

Theorem c01_code_monotone : forall (m : mode) (s d : fmt) (z1 z2 v1 v2 : Z),
  in_range s z1 -> in_range s z2 -> z1 <= z2 ->
  to_sample m s d z1 = Ok v1 -> to_sample m s d z2 = Ok v2 -> v1 <= v2.
Proof. exact to_sample_monotone. Qed.
Print Assumptions c01_code_monotone.

Theorem c01_code_roundtrip : forall (m : mode) (s d : fmt) (z : Z), bits s <= bits d -> in_range s z ->
  bind (to_sample m s d z) (to_sample m d s) = Ok z.
Proof. exact to_sample_roundtrip. Qed.
Print Assumptions c01_code_roundtrip.

Theorem c01_code_via : forall (m : mode) (s mid d : fmt) (z : Z),
  Z.min (bits s) (bits d) <= bits mid -> in_range s z ->
  bind (to_sample m s mid z) (to_sample m mid d) = to_sample m s d z.
Proof. exact to_sample_via. Qed.
Print Assumptions c01_code_via.
